#!/bin/bash
# usage: import_seed.sh SUFFIX ID...   — copy ${SEEDROOT:-/tmp/s4}/out-ID into seeded/ID<SUFFIX>, drop the scratch worktree
suf=$1; shift
for id in "$@"; do
  mkdir -p /verif/seeded/${id}${suf}
  cp ${SEEDROOT:-/tmp/s4}/out-$id/{patch.diff,demo.diff,notes.md} /verif/seeded/${id}${suf}/
  git -C /repo worktree remove --force ${SEEDROOT:-/tmp/s4}/$id 2>/dev/null
  rm -rf ${SEEDROOT:-/tmp/s4}/target-$id
done
