#!/bin/bash
# run the quick check of every claimed property on the current trees; prints one line per property
cd /verif
for p in $(python3 -c "
import sys; sys.path.insert(0,'lib'); import props; print(' '.join(sorted(props.PROPS)))"); do
  out=$(./check $p --tier ${1:-quick} 2>&1 | grep -v conda)
  echo "$out" | grep -E "VIOLATION|^OK property|^#" | cut -c1-260
  echo "$out" | grep -c "^KNOWN-FINDING" | sed "s/^/   known-finding lines for $p: /"
done
