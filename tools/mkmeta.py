#!/usr/bin/env python3
"""write seeded/<id>/meta.json for every seeded change that has a confirm.json (tools/confirm_seeds.sh)
but no meta.json yet; `caught_by` comes from tools/seed_results.json (maintained by hand from the
runs of tools/seedcheck.sh)."""
import json, os, re, sys
ROOT = os.path.dirname(os.path.dirname(os.path.abspath(__file__)))
res = json.load(open(os.path.join(ROOT, 'tools', 'seed_results.json')))
ROUND = {'': 1, 'b': 2, 'c': 3, 'd': 4, 'e': 5, 'f': 6, 'g': 7, 'h': 8, 'i': 9, 'j': 10}
for d in sorted(os.listdir(os.path.join(ROOT, 'seeded'))):
    p = os.path.join(ROOT, 'seeded', d)
    cf = os.path.join(p, 'confirm.json')
    if not os.path.exists(cf):
        continue
    mf = os.path.join(p, 'meta.json')
    old = json.load(open(mf)) if os.path.exists(mf) else {}
    c = json.load(open(cf))
    notes = open(os.path.join(p, 'notes.md')).read() if os.path.exists(os.path.join(p, 'notes.md')) else ''
    title = next((l.strip('# ').strip() for l in notes.splitlines() if l.strip()), '')
    m = re.match(r'(C\d\d)([a-z]?)$', d)
    meta = {
        'property': m.group(1),
        'what': res.get(d, {}).get('what') or old.get('what') or title,
        'source': old.get('source') or 'independent sub-agent (round %d) given only the property text and a scratch git worktree under /tmp; confirmed on /repo HEAD %s' % (ROUND.get(m.group(2), 0), c.get('base', '?')),
        'needs_to_manifest': res.get(d, {}).get('needs') or old.get('needs_to_manifest') or 'see notes.md (section on what it needs in order to manifest)',
        'confirmed': {
            'patch_applies': c.get('applies'),
            'existing_suite_with_patch (passed failed compile_error_lines)': c.get('suite_with_patch'),
            'suite_plus_demo_with_patch': c.get('demo_with_patch'),
            'suite_plus_demo_without_patch': c.get('demo_without_patch'),
            'how': 'tools/confirm_seeds.sh in a scratch git worktree under /tmp (removed afterwards)',
        },
        'ran_against_checks': res.get(d, {}).get('ran') or old.get('ran_against_checks') or 'tools/seedcheck.sh %s %s (apply to /repo, quick check, git checkout)' % (d, m.group(1)),
        'caught_by': res.get(d, {}).get('caught_by') or old.get('caught_by') or 'see DESIGN.md section 11.4',
        'files': sorted(f for f in os.listdir(p) if f not in ('meta.json',)),
    }
    json.dump(meta, open(mf, 'w'), indent=1)
print('ok')
