#!/usr/bin/env python3
"""Mutation sanity for the query observations (DESIGN.md 11.10).

For each mutant below: patch ONE query handler in a scratch copy of the contracts (never /repo),
rebuild the harness against it (tools/query_build.sh with REPO / PKG / TARGET pointing at scratch
directories), run tools/query_diff.sh (scenario files + the token / rewards / general / config / synth
profiles of seed 1) against the unchanged model and report

  * the number of differing observation lines and the observation keys they belong to,
  * whether any key that existed BEFORE this work (`hub.params`, `rw.state`, `tok.T.bal`, ...) differs
    (it must not: the mutants sit inside query handlers that only the new lines call).

usage: tools/query_mutants.py PRISTINE_REPO_COPY [MUTANT ...]
       (scratch copy: <root>/build/mut-repo, harness: <root>/build/mut-target)
"""
import os
import re
import shutil
import subprocess
import sys

ROOT = os.path.dirname(os.path.dirname(os.path.abspath(__file__)))
NEW_KEYS = ('hub.qcfg', 'hub.qnewowner', 'hub.qparams', 'hub.qdep', 'hub.qhist', 'hub.qhist.def', 'hub.qhist.max',
            'rw.qcfg', 'rw.qnewowner', 'rw.qstate', 'rw.qholders', 'rw.qholders.def',
            'dp.qcfg', 'dp.qnewowner', 'rg.qcfg', 'rg.qnewowner',
            'tok.bsei.meta', 'tok.stsei.meta', 'tok.bsei.accounts', 'tok.stsei.accounts',
            'tok.bsei.accounts.def', 'tok.stsei.accounts.def', 'tok.bsei.allallow', 'tok.stsei.allallow',
            'tok.bsei.allallow.def', 'tok.stsei.allallow.def', 'tok.stsei.spallow', 'tok.stsei.marketing',
            'tok.stsei.logo')

# name -> (file, old text (must occur exactly once), new text, what it is)
MUTANTS = {
    'rw_holders_cursor_inclusive': (
        'contracts/basset_sei_reward/src/state.rs',
        '''            v.push(0);
            Ok(Some(v))''',
        '''            Ok(Some(v))''',
        'reward read_holders: the cursor key loses its trailing 0 byte AND the bound becomes inclusive '
        '(start_after is returned again)', [('.map(Bound::ExclusiveRaw);\n\n    HOLDERS', '.map(Bound::InclusiveRaw);\n\n    HOLDERS')]),
    'rw_holders_limit_plus_one': (
        'contracts/basset_sei_reward/src/state.rs',
        '''        .range(deps.storage, start, None, Order::Ascending)
        .take(limit)''',
        '''        .range(deps.storage, start, None, Order::Ascending)
        .take(limit + 1)''',
        'reward read_holders returns one entry more than asked for', []),
    'rw_holders_default_limit': (
        'contracts/basset_sei_reward/src/state.rs',
        'const DEFAULT_LIMIT: u32 = 10;', 'const DEFAULT_LIMIT: u32 = 12;',
        'reward Holders default limit 10 -> 12', []),
    'rw_state_stale': (
        'contracts/basset_sei_reward/src/contract.rs',
        '        prev_reward_balance: state.prev_reward_balance,\n    })',
        '        prev_reward_balance: state.total_balance,\n    })',
        'reward query_state reports total_balance as prev_reward_balance', []),
    'hub_params_stale': (
        'contracts/basset_sei_hub/src/contract.rs',
        '''fn query_params(deps: Deps) -> StdResult<Parameters> {
    PARAMETERS.load(deps.storage)
}''',
        '''fn query_params(deps: Deps) -> StdResult<Parameters> {
    let mut p = PARAMETERS.load(deps.storage)?;
    p.paused = Some(false);
    Ok(p)
}''',
        'hub query_params always reports paused = false', []),
    'hub_newowner_owner': (
        'contracts/basset_sei_hub/src/contract.rs',
        '''fn query_new_owner(deps: Deps) -> StdResult<NewOwnerResponse> {
    let new_owner = read_new_owner(deps.storage)?;
    Ok(NewOwnerResponse {
        new_owner: deps
            .api
            .addr_humanize(&new_owner.new_owner_addr)?''',
        '''fn query_new_owner(deps: Deps) -> StdResult<NewOwnerResponse> {
    let _new_owner = read_new_owner(deps.storage)?;
    Ok(NewOwnerResponse {
        new_owner: deps
            .api
            .addr_humanize(&CONFIG.load(deps.storage)?.creator)?''',
        'hub query_new_owner reports the current owner instead of the nominee', []),
    'hub_config_token_alias': (
        'contracts/basset_sei_hub/src/contract.rs',
        '        token_contract: bsei_token,\n',
        '        token_contract: None,\n',
        'hub query_config drops the deprecated token_contract alias', []),
    'hub_history_cursor': (
        'contracts/basset_sei_hub/src/state.rs',
        '''        let mut v = idx.to_be_bytes().to_vec();
        v.push(1);
        v''',
        '''        idx.to_be_bytes().to_vec()''',
        'hub all_unbond_history: start_from becomes inclusive (only visible to pages smaller than the history)', []),
    'hub_history_default_limit': (
        'contracts/basset_sei_hub/src/state.rs',
        'const DEFAULT_LIMIT: u32 = 10;', 'const DEFAULT_LIMIT: u32 = 9;',
        'hub AllHistory default limit 10 -> 9', []),
    'disp_newowner_owner': (
        'contracts/basset_sei_rewards_dispatcher/src/contract.rs',
        '''fn query_new_owner(deps: Deps) -> StdResult<NewOwnerResponse> {
    let new_owner = read_new_owner(deps.storage)?;
    Ok(NewOwnerResponse {
        new_owner: deps
            .api
            .addr_humanize(&new_owner.new_owner_addr)?''',
        '''fn query_new_owner(deps: Deps) -> StdResult<NewOwnerResponse> {
    let _new_owner = read_new_owner(deps.storage)?;
    Ok(NewOwnerResponse {
        new_owner: deps
            .api
            .addr_humanize(&read_config(deps.storage)?.owner)?''',
        'dispatcher query_new_owner reports the current owner', []),
    'reg_config_swapped': (
        'contracts/basset_sei_validators_registry/src/contract.rs',
        '''    let config = CONFIG.load(deps.storage)?;
    Ok(config)''',
        '''    let mut config = CONFIG.load(deps.storage)?;
    std::mem::swap(&mut config.owner, &mut config.hub_contract);
    Ok(config)''',
        'registry query_config swaps owner and hub', []),
    'bsei_accounts_descending': (
        'packages/cw20-legacy/src/enumerable.rs',
        '''        .keys(deps.storage, start, None, Order::Ascending)''',
        '''        .keys(deps.storage, start, None, Order::Descending)''',
        'cw20-legacy query_all_accounts iterates in descending key order', []),
    'bsei_accounts_limit': (
        'packages/cw20-legacy/src/enumerable.rs',
        '''                .map(|v| v.to_string())
        })
        .take(limit)''',
        '''                .map(|v| v.to_string())
        })
        .take(limit.max(3))''',
        'cw20-legacy query_all_accounts never returns fewer than 3 entries', []),
    'bsei_allallow_cursor': (
        'packages/cw20-legacy/src/enumerable.rs',
        '''    let start = calc_range_start_human(deps.api, start_after.map(Addr::unchecked))?
        .map(Bound::ExclusiveRaw);

    let allowances''',
        '''    let start = calc_range_start_human(deps.api, start_after.map(Addr::unchecked))?
        .map(|mut v| {
            v.pop();
            Bound::InclusiveRaw(v)
        });

    let allowances''',
        'cw20-legacy query_all_allowances: start_after becomes inclusive', []),
    'stsei_query_rerouted': (
        'contracts/basset_sei_token_stsei/src/contract.rs',
        '''pub fn query(deps: Deps, env: Env, msg: QueryMsg) -> StdResult<Binary> {
    cw20_query(deps, env, msg)''',
        '''pub fn query(deps: Deps, env: Env, msg: QueryMsg) -> StdResult<Binary> {
    let msg = match msg {
        QueryMsg::AllSpenderAllowances { spender, start_after, limit } => {
            QueryMsg::AllAllowances { owner: spender, start_after, limit }
        }
        QueryMsg::MarketingInfo {} => QueryMsg::TokenInfo {},
        m => m,
    };
    cw20_query(deps, env, msg)''',
        'stSei wrapper answers AllSpenderAllowances with AllAllowances and MarketingInfo with TokenInfo', []),
}


def sh(cmd, **kw):
    return subprocess.run(cmd, shell=True, stdout=subprocess.PIPE, stderr=subprocess.STDOUT, text=True, **kw)


def line_key(ln):
    return ln.split(' ', 1)[0]


def main():
    if len(sys.argv) < 2:
        print(__doc__)
        sys.exit(2)
    pristine = sys.argv[1]
    names = sys.argv[2:] or list(MUTANTS)
    scratch = os.path.join(ROOT, 'build', 'mut-repo')
    env = dict(os.environ, REPO=scratch, PKG=os.path.join(ROOT, 'build', 'mut-pkg'),
               TARGET=os.path.join(ROOT, 'build', 'mut-target'))
    hbin = os.path.join(env['TARGET'], 'release', 'krp-harness')
    if os.path.exists(scratch):
        shutil.rmtree(scratch)
    shutil.copytree(pristine, scratch, ignore=shutil.ignore_patterns('.git', 'target', 'artifacts'))
    results = []
    for name in names:
        path, old, new, what, more = MUTANTS[name]
        f = os.path.join(scratch, path)
        src = open(f).read()
        mut = src
        for (o, n) in [(old, new)] + list(more):
            if mut.count(o) != 1:
                print('%s: pattern occurs %d times in %s: %r' % (name, mut.count(o), path, o[:60]))
                sys.exit(1)
            mut = mut.replace(o, n)
        open(f, 'w').write(mut)
        try:
            r = sh('%s/tools/query_build.sh harness' % ROOT, env=env)
            if 'Finished' not in r.stdout:
                print(name, 'BUILD FAILED\n', r.stdout[-3000:])
                results.append((name, what, 'build failed', {}, []))
                continue
            out = os.path.join(ROOT, 'build', 'mutdiff', name)
            denv = dict(os.environ, KRP_HARNESS=hbin, OUT=out, STREAMS='scenarios profiles', PROFILES='token rewards general config synth', SHARDS='6',
                        JOBS=os.environ.get('JOBS', '6'))
            r = sh('%s/tools/query_diff.sh 1' % ROOT, env=denv)
            total = [l for l in r.stdout.splitlines() if l.startswith('TOTAL')]
            keys = {}
            streams = []
            for fn in sorted(os.listdir(out)):
                if not fn.endswith('.rust'):
                    continue
                streams.append(fn[:-5])
                d = sh('diff %s %s' % (os.path.join(out, fn), os.path.join(out, fn[:-5] + '.model')))
                for ln in d.stdout.splitlines():
                    if ln.startswith('< ') or ln.startswith('> '):
                        k = line_key(ln[2:])
                        keys[k] = keys.get(k, 0) + 1
            old_keys = sorted(k for k in keys if k not in NEW_KEYS)
            results.append((name, what, total[0] if total else r.stdout[-300:], keys, old_keys, streams))
            print('== %s: %s' % (name, what))
            print('   %s' % (total[0] if total else '?'))
            print('   differing lines by key: %s' % ', '.join('%s %d' % kv for kv in sorted(keys.items())))
            print('   streams with a difference: %d (%s%s)' % (len(streams), ' '.join(streams[:6]), ' ...' if len(streams) > 6 else ''))
            print('   pre-existing keys that differ: %s' % (', '.join(old_keys) if old_keys else 'none'))
            sys.stdout.flush()
        finally:
            open(f, 'w').write(src)
    shutil.rmtree(scratch)
    bad = [r[0] for r in results if not r[3]]
    print('mutants: %d, exposed: %d%s' % (len(results), len(results) - len(bad), (', NOT exposed: ' + ' '.join(bad)) if bad else ''))


if __name__ == '__main__':
    main()
