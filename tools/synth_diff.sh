#!/bin/bash
# synth_diff.sh SEED NHIST [SHARDS] [OUTDIR]: generate NHIST synth histories (SHARDS processes, seed
# SEED*1000+shard as the check driver does), run the extracted model on the same operation files and
# compare the observation files byte for byte.  Prints one line per shard with a difference.
# KRP_HARNESS=<binary> selects another harness build (e.g. one built against a pristine or a mutated
# copy of /repo).
ROOT="$(cd "$(dirname "$0")/.." && pwd)"
SEED=$1; N=$2; SH=${3:-6}; OUT=${4:-$ROOT/build/synthdiff/$SEED}
H=${KRP_HARNESS:-$ROOT/build/harness-target/release/krp-harness}; D=$ROOT/build/driver
mkdir -p "$OUT"; PER=$(( (N + SH - 1) / SH ))
for s in $(seq 0 $((SH-1))); do
  ( $H gen synth $((SEED*1000+s)) $PER 14 $OUT/ops.$s $OUT/rust.$s > $OUT/stats.$s 2>/dev/null \
    && $D run $OUT/ops.$s > $OUT/model.$s ) &
done
wait
bad=0
for s in $(seq 0 $((SH-1))); do
  if ! cmp -s $OUT/rust.$s $OUT/model.$s; then echo "DIFF seed $SEED shard $s: $(cmp $OUT/rust.$s $OUT/model.$s | head -1)"; bad=1; fi
done
echo "seed $SEED: $N histories, $(cat $OUT/rust.* | grep -c '^op ') operations, $([ $bad = 0 ] && echo 'no difference' || echo DIFFERENCES)"
