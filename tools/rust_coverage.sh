#!/bin/bash
# Implementation-side coverage of the correspondence streams (DESIGN.md 11.8).
#
#   tools/rust_coverage.sh [OUTDIR]          (default OUTDIR = <root>/build/rust-coverage)
#
# Builds `krp-harness` with `-C instrument-coverage` against a PRISTINE checkout of /repo (never against
# the working tree, which other sessions patch), runs it over the operation files of the quick tier
# (every scenarios/*.ops, the authorisation grid, the generated profiles with SIZES['quick'] /
# SYNTH_SIZES['quick'] of lib/props.py and the shard seeds of lib/krpcheck.py history_stream, the six
# kernel streams, the C09 probes), merges the profiles and writes OUTDIR/rust_coverage.json (+ .txt):
# per source file of /repo contracts/ and packages/ the lines / regions / functions executed, the
# functions never executed and the uncovered line ranges of the partly covered ones.
#
# Environment:
#   KEEP=1              keep the scratch worktree $WORK/repo (default: removed at the end; the cargo
#                       target directory $WORK/target is always kept as a build cache)
#   WORK=/tmp/covwork   scratch directory          REPO=/repo   repository        REPO_REV=HEAD
#   JOBS=6              parallel jobs (cargo -j and stream runs)
#   TOOLCHAIN=nightly   rustup toolchain; llvm-profdata / llvm-cov are taken from the SAME toolchain
#   SEED=1              VERIF_SEED of the generated streams
#   SKIP_SCENARIOS="a.ops b.ops"   scenario files left out (e.g. to measure what one of them adds)
#   SKIP_BUILD=1        reuse $WORK/target/release/krp-harness as it is
set -euo pipefail
ROOT="$(cd "$(dirname "$0")/.." && pwd)"
OUT="${1:-$ROOT/build/rust-coverage}"
WORK="${WORK:-/tmp/covwork}"
REPO="${REPO:-/repo}"
REPO_REV="${REPO_REV:-HEAD}"
JOBS="${JOBS:-6}"
TOOLCHAIN="${TOOLCHAIN:-nightly}"
SEED="${SEED:-1}"
SKIP_SCENARIOS="${SKIP_SCENARIOS:-}"
T0=$(date +%s)
say() { echo "rust_coverage: [$(( $(date +%s) - T0 ))s] $*" >&2; }

mkdir -p "$OUT" "$WORK"
OUT="$(cd "$OUT" && pwd)"

# ---- (a) pristine worktree + harness copy (idempotent) -------------------------------------------
REV="$(git -C "$REPO" rev-parse "$REPO_REV")"
if [ -e "$WORK/repo/.git" ]; then
  if [ "$(git -C "$WORK/repo" rev-parse HEAD)" != "$REV" ] || [ -n "$(git -C "$WORK/repo" status --porcelain)" ]; then
    git -C "$WORK/repo" checkout -q --force --detach "$REV"
    git -C "$WORK/repo" clean -q -fdx
  fi
else
  # -f: re-use the registration if a former scratch directory was deleted without `worktree remove`
  git -C "$REPO" worktree add -q -f --detach "$WORK/repo" "$REV"
fi
say "pristine checkout of $REPO at $(git -C "$WORK/repo" rev-parse --short HEAD) in $WORK/repo"
mkdir -p "$WORK/harness"
rsync -a --delete "$ROOT/harness/" "$WORK/harness/" 2>/dev/null || { rm -rf "$WORK/harness"; cp -r "$ROOT/harness" "$WORK/harness"; }
sed -i "s#\"/repo/#\"$WORK/repo/#g" "$WORK/harness/Cargo.toml"
if grep -q '"/repo/' "$WORK/harness/Cargo.toml"; then echo "path dependencies not rewritten" >&2; exit 1; fi

# ---- (b) instrumented build ----------------------------------------------------------------------
SYSROOT="$(rustc "+$TOOLCHAIN" --print sysroot)"
HOST="$(rustc "+$TOOLCHAIN" -vV | sed -n 's/^host: //p')"
LLVMBIN="$SYSROOT/lib/rustlib/$HOST/bin"
PROFDATA="$LLVMBIN/llvm-profdata"; COV="$LLVMBIN/llvm-cov"
[ -x "$PROFDATA" ] && [ -x "$COV" ] || { echo "no llvm-profdata / llvm-cov in $LLVMBIN (rustup component add llvm-tools)" >&2; exit 1; }
B="$WORK/target/release/krp-harness"
if [ "${SKIP_BUILD:-0}" != "1" ] || [ ! -x "$B" ]; then
  say "building instrumented krp-harness (cargo +$TOOLCHAIN, -C instrument-coverage, -j$JOBS)"
  (cd "$WORK/harness" && CARGO_NET_OFFLINE=true CARGO_TARGET_DIR="$WORK/target" \
     RUSTFLAGS="--cfg kryptonitedao_krp_staking_contracts_verif -C instrument-coverage" \
     cargo "+$TOOLCHAIN" build --release --offline -j"$JOBS" 2>&1 | grep -v '^warning\|^ *|\|^ *-->\|^ *=\|^$\|^ *[0-9]* *|' | tail -n 8 >&2)
fi
[ -x "$B" ] || { echo "build failed" >&2; exit 1; }

# ---- (c) run the streams, one LLVM_PROFILE_FILE per run -------------------------------------------
RUN="$WORK/run"; rm -rf "$RUN"; mkdir -p "$RUN/prof" "$RUN/ops" "$RUN/obs" "$RUN/log"
read -r HIST LEN KERNEL SHIST SLEN < <(cd "$ROOT/lib" && python3 - <<'EOF'
import ast, re
src = open('props.py').read()
def lit(name):
    m = re.search(r'^%s = (\{.*?^\})' % name, src, re.S | re.M)
    return ast.literal_eval(m.group(1))
s, y = lit('SIZES')['quick'], lit('SYNTH_SIZES')['quick']
print(s['hist'], s['len'], s['kernel'], y['hist'], y['len'])
EOF
)
SHARDS=16
PER=$(( (HIST + SHARDS - 1) / SHARDS )); [ "$PER" -ge 1 ] || PER=1
SPER=$(( (SHIST + SHARDS - 1) / SHARDS )); [ "$SPER" -ge 1 ] || SPER=1
PROFILES="general pricing unbond rewards registry token config pause exit"
KERNELS="deleg undeleg ddiv nwr swapinfo drewards"
# scenario files whose streams the C09 check probes besides the exit profile (lib/props.py _hub)
PROBE_SCENARIOS="basic.ops findings.ops branches.ops overflow.ops"

job() {  # job GROUP NAME COMMAND...   -> one line of the job file
  local g="$1" n="$2"; shift 2
  printf 'LLVM_PROFILE_FILE=%q %s > %q 2> %q || echo %q >> %q\n' \
    "$RUN/prof/$g@$n.profraw" "$*" "$RUN/log/$g@$n.out" "$RUN/log/$g@$n.err" "$g@$n" "$RUN/FAILED"
}
pool() { xargs -d '\n' -P "$JOBS" -n 1 bash -c < "$1"; }

# phase 1: the exit profile first (the probes need its operation files)
: > "$RUN/jobs1"
for s in $(seq 0 $((SHARDS - 1))); do
  job profile:exit "$s" "$B" gen exit $((SEED * 1000 + s)) "$PER" "$LEN" "$RUN/ops/exit.$s" "$RUN/obs/exit.$s" >> "$RUN/jobs1"
done
say "phase 1: profile exit ($SHARDS shards x $PER histories x $LEN ops)"
pool "$RUN/jobs1"

# phase 2: everything else, longest jobs first
: > "$RUN/jobs2"
job grid grid "$B" grid "$RUN/ops/grid" "$RUN/obs/grid" >> "$RUN/jobs2"
for s in $(seq 0 $((SHARDS - 1))); do
  job probes "exit.$s" "$B" probe "$RUN/ops/exit.$s" 1 >> "$RUN/jobs2"
done
NSCN=0
for f in "$ROOT"/scenarios/*.ops; do
  n="$(basename "$f")"
  case " $SKIP_SCENARIOS " in *" $n "*) continue;; esac
  case " $PROBE_SCENARIOS " in *" $n "*) job probes "$n" "$B" probe "$f" 1 >> "$RUN/jobs2";; esac
done
for f in "$ROOT"/scenarios/*.ops; do
  n="$(basename "$f")"
  case " $SKIP_SCENARIOS " in *" $n "*) say "scenario $n skipped"; continue;; esac
  job "scenario:$n" run "$B" run "$f" >> "$RUN/jobs2"; NSCN=$((NSCN + 1))
done
for p in $PROFILES; do
  [ "$p" = exit ] && continue
  for s in $(seq 0 $((SHARDS - 1))); do
    job "profile:$p" "$s" "$B" gen "$p" $((SEED * 1000 + s)) "$PER" "$LEN" "$RUN/ops/$p.$s" "$RUN/obs/$p.$s" >> "$RUN/jobs2"
  done
done
for s in $(seq 0 $((SHARDS - 1))); do
  job synth "$s" "$B" gen synth $((SEED * 1000 + s)) "$SPER" "$SLEN" "$RUN/ops/synth.$s" "$RUN/obs/synth.$s" >> "$RUN/jobs2"
done
for k in $KERNELS; do
  job kernels "$k" "$B" kernel "$k" "$SEED" "$KERNEL" >> "$RUN/jobs2"
done
say "phase 2: $(wc -l < "$RUN/jobs2") runs ($NSCN scenarios, grid, 8 profiles + synth x $SHARDS shards, 6 kernels, probes), $JOBS at a time"
pool "$RUN/jobs2"
rm -f "$RUN"/log/*.out   # observation / kernel / probe text is not needed; *.err kept
if [ -s "$RUN/FAILED" ]; then say "FAILED runs: $(tr '\n' ' ' < "$RUN/FAILED")"; fi
NRAW=$(ls "$RUN/prof" | wc -l)
say "$NRAW profiles written"

# ---- (d) merge + report ---------------------------------------------------------------------------
IGN='(/\.cargo/|/rustc/|/\.rustup/|/harness/src/|/testing/|/tests\.rs$|/examples/|/src/bin/|/schema\.rs$)'
mkdir -p "$RUN/merged"
groups="$(ls "$RUN/prof" | sed 's/@.*//' | sort -u)"
for g in $groups; do
  "$PROFDATA" merge -sparse "$RUN/prof/$g@"*.profraw -o "$RUN/merged/$g.profdata"
  "$COV" export "$B" -instr-profile="$RUN/merged/$g.profdata" -format=lcov -ignore-filename-regex="$IGN" > "$RUN/merged/$g.lcov" 2>/dev/null
done
"$PROFDATA" merge -sparse "$RUN/merged/"*.profdata -o "$RUN/merged/ALL.profdata"
"$COV" export "$B" -instr-profile="$RUN/merged/ALL.profdata" -format=text -ignore-filename-regex="$IGN" > "$RUN/merged/ALL.json" 2>/dev/null
"$COV" export "$B" -instr-profile="$RUN/merged/ALL.profdata" -format=lcov -ignore-filename-regex="$IGN" > "$RUN/merged/ALL.lcov" 2>/dev/null
"$COV" show "$B" -instr-profile="$RUN/merged/ALL.profdata" -ignore-filename-regex="$IGN" -show-line-counts-or-regions \
   > "$OUT/rust_coverage.show.txt" 2>/dev/null || true
python3 "$ROOT/tools/rust_coverage_report.py" --repo "$WORK/repo" --json "$RUN/merged/ALL.json" --lcov "$RUN/merged/ALL.lcov" \
   --groups "$RUN/merged" --out "$OUT/rust_coverage.json" --text "$OUT/rust_coverage.txt" \
   --meta "repo_rev=$REV" --meta "toolchain=$(rustc "+$TOOLCHAIN" -V)" --meta "llvm_cov=$("$COV" --version | sed -n 's/.*LLVM version //p')" \
   --meta "seed=$SEED" --meta "sizes=hist $HIST len $LEN kernel $KERNEL synth $SHIST x $SLEN shards $SHARDS" \
   --meta "skipped_scenarios=$SKIP_SCENARIOS" --meta "failed_runs=$( [ -s "$RUN/FAILED" ] && tr '\n' ' ' < "$RUN/FAILED" || true)" \
   --meta "profiles=$NRAW" --meta "wall_seconds=$(( $(date +%s) - T0 ))"
say "report: $OUT/rust_coverage.json  $OUT/rust_coverage.txt  $OUT/rust_coverage.show.txt"

# ---- (e) clean up ---------------------------------------------------------------------------------
if [ "${KEEP:-0}" != "1" ]; then
  rm -rf "$RUN"
  git -C "$REPO" worktree remove --force "$WORK/repo"
  say "worktree $WORK/repo removed (KEEP=1 keeps it)"
fi
