#!/bin/bash
# Development build for the "every public query is observed" work (DESIGN.md 11.10).
# Never touches /repo and never edits harness/Cargo.toml: the harness is built from a shadow package
# directory (<root>/build/harness-pkg: Cargo.toml with the /repo/ path dependencies rewritten to REPO,
# Cargo.lock copied, src -> ../../harness/src) against a pristine checkout of the contracts.
#
#   REPO=/tmp/querywork-repo tools/query_build.sh [harness|driver]      (default: both)
#   TARGET=<dir>   cargo target directory (default <root>/build/harness-target)
#
# The model side is the Coq MODEL only (Model/Exec.vo, no proofs), extraction, OCaml driver - exactly
# what build_driver of lib/krpcheck.py does.
set -e
ROOT="$(cd "$(dirname "$0")/.." && pwd)"
REPO="${REPO:-/tmp/querywork-repo}"
JOBS="${JOBS:-6}"
TARGET="${TARGET:-$ROOT/build/harness-target}"
PKG="${PKG:-$ROOT/build/harness-pkg}"
export CARGO_NET_OFFLINE=true
mkdir -p "$ROOT/build/extract"
if [ "$1" != "driver" ]; then
  mkdir -p "$PKG"
  sed "s#\"/repo/#\"$REPO/#g" "$ROOT/harness/Cargo.toml" > "$PKG/Cargo.toml.new"
  cmp -s "$PKG/Cargo.toml.new" "$PKG/Cargo.toml" 2>/dev/null || mv "$PKG/Cargo.toml.new" "$PKG/Cargo.toml"
  rm -f "$PKG/Cargo.toml.new"
  cp "$ROOT/harness/Cargo.lock" "$PKG/Cargo.lock"
  ln -sfn "$ROOT/harness/src" "$PKG/src"
  (cd "$PKG" && CARGO_BUILD_JOBS=$JOBS CARGO_TARGET_DIR="$TARGET" \
     RUSTFLAGS="--cfg kryptonitedao_krp_staking_contracts_verif" cargo build --release --offline 2>&1 | tail -n 25)
fi
if [ "$1" != "harness" ]; then
  (cd "$ROOT/coq" && { [ -f Makefile ] || coq_makefile -f _CoqProject -o Makefile; } && make -j"$JOBS" Model/Exec.vo | tail -n 3)
  (cd "$ROOT/build/extract" && coqc -Q "$ROOT/coq" Krp "$ROOT/coq/Extract/Extract.v" >/dev/null \
     && cp "$ROOT/ocaml/driver.ml" driver.ml \
     && ocamlfind ocamlopt -O3 -package zarith -linkpkg -w -a model.mli model.ml driver.ml -o "$ROOT/build/driver")
fi
echo "query_build: done"
