#!/usr/bin/env python3
"""Model branch coverage with and without the synthesised-state stream (measurement only).
Generates every generator profile at the quick size (seed 1), adds the scenario corpus and the grid,
and runs the profiling build of the extracted model (ocamlcp -P a) over the operation files:
  A = all ordinary streams;  B = A + synth (quick size);  C = A + synth (thorough size);  S = synth alone.
usage: tools/synth_coverage.py [HARNESS_BIN]   (at most 6 processes at a time)"""
import sys, os, subprocess, glob, shutil, re
ROOT = os.path.dirname(os.path.dirname(os.path.abspath(__file__)))
sys.path.insert(0, os.path.join(ROOT, 'lib'))
import props as P
H = sys.argv[1] if len(sys.argv) > 1 else os.path.join(ROOT, 'build/harness-target/release/krp-harness')
PROF = os.path.join(ROOT, 'build/extract/prof')
W = os.path.join(ROOT, 'build/synthcov')
shutil.rmtree(W, ignore_errors=True)
os.makedirs(W)
NPAR = 6


def par(cmds):
    run = []
    for c, kw in cmds:
        run.append(subprocess.Popen(c, **kw))
        if len(run) >= NPAR:
            run.pop(0).wait()
    for p in run:
        p.wait()


profiles = ['general', 'pricing', 'unbond', 'rewards', 'registry', 'token', 'config', 'pause', 'exit']
q = P.SIZES['quick']
gen = []
files = {'ordinary': [], 'synth_quick': [], 'synth_thorough': []}
for pr in profiles:
    for s in range(4):
        f = os.path.join(W, '%s.%d.ops' % (pr, s))
        gen.append(([H, 'gen', pr, str(1000 + s), str(q['hist'] // 4), str(q['len']), f, os.devnull], dict(stdout=subprocess.DEVNULL, stderr=subprocess.DEVNULL)))
        files['ordinary'].append(f)
for tier, key in (('quick', 'synth_quick'), ('thorough', 'synth_thorough')):
    n = P.SYNTH_SIZES[tier]['hist']
    for s in range(6):
        f = os.path.join(W, 'synth-%s.%d.ops' % (tier, s))
        gen.append(([H, 'gen', 'synth', str(1000 + s), str((n + 5) // 6), '14', f, os.devnull], dict(stdout=subprocess.DEVNULL, stderr=subprocess.DEVNULL)))
        files[key].append(f)
g = os.path.join(W, 'grid.ops')
gen.append(([H, 'grid', g, os.devnull], dict(stdout=subprocess.DEVNULL, stderr=subprocess.DEVNULL)))
files['ordinary'].append(g)
files['ordinary'] += sorted(glob.glob(os.path.join(ROOT, 'scenarios', '*.ops')))
par(gen)

# one profile dump per operation file
dumps = {}
cmds = []
for key, fs in files.items():
    for i, f in enumerate(fs):
        d = os.path.join(W, 'run-%s-%d' % (key, i))
        os.makedirs(d)
        cmds.append(([os.path.join(PROF, 'driver_prof'), 'run', f], dict(cwd=d, stdout=subprocess.DEVNULL, stderr=subprocess.DEVNULL)))
        dumps.setdefault(key, []).append(os.path.join(d, 'ocamlprof.dump'))
par(cmds)


def cover(ds, label):
    ds = [d for d in ds if os.path.exists(d)]
    merged = os.path.join(W, 'merged-%s.dump' % label)
    subprocess.run([os.path.join(PROF, 'covmerge'), merged] + ds, check=True)
    out = subprocess.run(['ocamlprof', '-f', merged, 'model.ml'], cwd=PROF, stdout=subprocess.PIPE, text=True).stdout
    total = zero = 0
    cur = '?'
    unhit = {}
    for ln in out.splitlines():
        m = re.match(r'(?:let rec|let|and)\s+([a-z_][A-Za-z0-9_\']*)', ln)
        if m:
            cur = m.group(1)
        cs = re.findall(r'\(\* (\d+) \*\)', ln)
        total += len(cs)
        z = sum(1 for c in cs if c == '0')
        zero += z
        if z:
            unhit[cur] = unhit.get(cur, 0) + z
    print('%-28s files %3d  counters %d  never hit %d  hit %.1f %%' % (label, len(ds), total, zero, 100.0 * (total - zero) / max(total, 1)))
    return unhit


a = cover(dumps['ordinary'], 'A ordinary streams')
b = cover(dumps['ordinary'] + dumps['synth_quick'], 'B A + synth quick')
c = cover(dumps['ordinary'] + dumps['synth_thorough'], 'C A + synth thorough')
s_ = cover(dumps['synth_thorough'], 'S synth thorough alone')
gained = {k: a[k] - c.get(k, 0) for k in a if a[k] != c.get(k, 0)}
print('functions whose unhit counters drop with synth (A -> C):', gained)
