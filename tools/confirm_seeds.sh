#!/bin/bash
# usage: confirm_seeds.sh WORKER_ID id1 id2 ...   — confirms seeded changes in a scratch worktree
# per seed: (1) patch applies, suite passes with patch only; (2) demo fails with patch; (3) demo passes without patch
W=$1; shift
WT=/tmp/seedwt/$W
export CARGO_NET_OFFLINE=true CARGO_TARGET_DIR=/tmp/seedwt/target$W
mkdir -p /tmp/seedwt
[ -d $WT ] || git -C /repo worktree add --detach $WT HEAD >/dev/null 2>&1
run_suite() { (cd $WT && cargo test --workspace --no-fail-fast --offline 2>&1) > $1; 
  P=$(grep -E "^test result" $1 | sed -E 's/.* ([0-9]+) passed.*/\1/' | paste -sd+ | bc); F=$(grep -E "^test result" $1 | sed -E 's/.*; ([0-9]+) failed.*/\1/' | paste -sd+ | bc)
  CE=$(grep -c "^error" $1); echo "${P:-0} ${F:-0} $CE"; }
for id in "$@"; do
  S=/verif/seeded/$id; L=/tmp/seedwt/log.$id; mkdir -p $L
  git -C $WT checkout -q -- . ; git -C $WT clean -fdq
  if ! git -C $WT apply --check $S/patch.diff 2>$L/apply.err; then echo "{\"id\":\"$id\",\"applies\":false}" > $S/confirm.json; continue; fi
  git -C $WT apply $S/patch.diff
  r1=$(run_suite $L/suite_patch.log)
  if ! git -C $WT apply --check $S/demo.diff 2>$L/apply_demo.err; then echo "{\"id\":\"$id\",\"applies\":true,\"suite_with_patch\":\"$r1\",\"demo_applies\":false}" > $S/confirm.json; continue; fi
  git -C $WT apply $S/demo.diff
  r2=$(run_suite $L/demo_patch.log)
  git -C $WT apply -R $S/patch.diff
  r3=$(run_suite $L/demo_nopatch.log)
  echo "{\"id\":\"$id\",\"applies\":true,\"suite_with_patch\":\"$r1\",\"demo_with_patch\":\"$r2\",\"demo_without_patch\":\"$r3\",\"fields\":\"passed failed compile_errors\",\"base\":\"$(git -C /repo rev-parse --short HEAD)\"}" > $S/confirm.json
done
git -C $WT checkout -q -- . ; git -C $WT clean -fdq
git -C /repo worktree remove --force $WT
rm -rf /tmp/seedwt/target$W
