#!/bin/bash
# usage: seedcheck.sh SEED_ID [PROPERTY...]  — apply seeded/<id>/patch.diff to /repo, run the quick checks, undo
id=$1; shift
props="$@"; [ -z "$props" ] && props=$id
cd /verif
git -C /repo apply /verif/seeded/$id/patch.diff || { echo "patch does not apply"; exit 2; }
for p in $props; do
  echo "--- seed $id / check $p"
  VERIF_DEV_EVIDENCE=1 ./check $p --tier quick 2>&1 | grep -v conda | grep -E "VIOLATION|KNOWN|OK property|^#" | cut -c1-400
done
git -C /repo checkout -- .
