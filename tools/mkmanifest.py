#!/usr/bin/env python3
"""Regenerate MANIFEST.json from lib/props.py (claimed properties) and properties.jsonl."""
import json, os, sys
ROOT = os.path.dirname(os.path.dirname(os.path.abspath(__file__)))
sys.path.insert(0, os.path.join(ROOT, 'lib'))
import props as P

allp = [json.loads(l) for l in open(os.path.join(ROOT, 'properties.jsonl'))]
hooks_commits = ['6002121']

LEVEL = {
 'C01': "Proved (Props/C01.v, C01w.v, C01a.v): release step in closed form; total value of a release group <= arrived coins for every group and arrival under E1' only; exact payout, removal of exactly the paid entries, repeated withdrawal fails, withdrawal succeeds under the funding invariant; order independence with equal final states; the funding invariant (released claims <= prev_hub_balance <= hub balance) in EVERY world of every history inside the named envelope (legacy-free, no hub-signed root, underlying usei, E1' at visited worlds); ARRIVAL IDENTITY over histories (C01a): nothing completed is still in flight, the coins delivered since the last withdrawal are exactly (<= under slashing of unbonding stake) the expected coins of the matured unreleased batches = the release group, batch by batch, bank - prev >= delivered + gifts with equality on gift-free histories, hence total credited <= delivered (+ gifts) and the dust bound when nothing was slashed. Envelope carried as named hypotheses: hub signs no transaction, hub instantiated once, chain unbonding time = hub unbonding_period > 0 (E2/E3; witnesses show each is needed). Not modelled: validator-share rounding of the real staking module, EndBlocker delivery delay (E3).",
 'C02': 'Proved: bonds delegate exactly the payment to registered validators, undelegations leave the books by exactly their sum, the slashing check restores booked <= delegated; stack invariant booked + pending undelegations <= delegated + pending delegations for every message of every transaction; after any history every successful pricing transaction ends with booked <= delegated (no hypothesis); liquid balance never lowered except by WithdrawUnbonded, exactly unchanged for the three bond kinds. Exact liquid equality for convert/index update/remove only under an explicit trace condition.',
 'C03': 'Proved at handler level for every pricing handler and branch (exact mint/burn/fee/pool movement, State query characterised, rounding in the pool favour, rejections) and at TRANSACTION level for Bond, BondForStSei and both Convert transactions (Props/C04w.v: whole message tree executed, the supplies and what the State query reports in the world after the transaction); the Unbond transactions are decomposed in Props/C09w.v. The State query is a pure function of pools, supplies, open requests and delegations (Props/C04h.v frame theorem), consistent by construction with TokenInfo and CurrentBatch of the same world.',
 'C04': 'Proved: handler level for every pricing handler and branch (Sound rate before implies Backed and a rate not lower after; BondRewards mints nothing); transaction level for bonds and converts (C04w); and at HISTORY level over the FULL operation alphabet (Props/C04h.v): every operation that is not a slashing event, a (re-)instantiation / reset, or a transaction signed by the hub address lowers neither reported rate - arbitrary root messages to all six contracts and the stubs by arbitrary senders, failing transactions, time advances, reward accrual, gifts, stub-mode changes included; coin value of an unchanged balance never shrinks along such histories; UpdateGlobalIndex mints nothing and raises the stSei rate weakly. Guarded by SoundRates/Backed: the complement is the known finding F5 (witnessed). Wired and the E1 magnitudes are `always`-style envelope predicates on visited worlds.',
 'C05': 'Proved at handler level for all four paths: fee = min(max fee, required), zero above threshold, never negative, no overshoot (exact for three paths, +1 tight for bSei->stSei with the fix commit 078c6d5), fee code cannot fail under E1.',
 'C06': 'Proved at handler/kernel level: exact recognition (pools sum to the delegated amount), pro-rata within two units in integer form, no-op cases, the check is the first step of every pricing handler, per-batch and per-token split of unbonding losses in closed form within one unit of pro rata.',
 'C07': 'Proved: ClaimsInv in every world of every legacy-free history; unbond effect; claims grow only via registered tokens and shrink only by the owner withdrawal of a released batch; query faithfulness.',
 'C08': 'Proved: LifeInv in every world of every history; undelegation only when closing a batch after strictly more than the epoch period; release only after the unbonding period (boundary exact both ways); released entries immutable forever; bank messages only for released batches; history-level time-lock under E2.',
 'C09': "Proved: stub independence of all exit/bond/token/claim transactions and whole histories for arbitrary stub behaviour; the hub Unbond hook and the token Send succeed for every positive amount under the named invariants; first unbond after the epoch closes the batch; the WHOLE unbond transactions of both tokens succeed (Props/C09w.v); and over HISTORIES (Props/C09h.v): in the world reached by any history whose transactions are signed by non-contract addresses, every premise of the exit theorems is discharged from reachability (clock invariant, mirror, books, token invariants, reward accrual bounds), so any holder's unbond of any positive part of its balance succeeds and every claimant with released claims worth >= 1 unit is paid exactly. Not derived (assumed at the reached world, named ExitEnv / RewardE1 / WithdrawEnv): not paused, magnitudes <= 1e18, not in the known class F5 (witnessed), unbonding period <= block time. Additionally exercised by dry-run probes on cloned implementation worlds (also after a day of idleness with failing swap/oracle).",
 'C13': 'Proved: registry removal (owner only, never the last), redelegation plan sums to the whole stake on registered targets, hub proxy 1:1, transaction decomposition and end state at any point of any history, gap delegated-booked unchanged from Books; the complete RemoveValidator transaction including the appended UpdateGlobalIndex (Props/C13w.v).',
 'C14': 'Proved: RInv preserved by all messages; claim pays exactly the whole-unit part iff >= 1; no guard hit under E1; solvency in every world of every history inside the named envelope; at history level (Props/C14w.v): stranded dust < 1 unit per effective index update and total claimed <= total delivered, with ghost counters threaded through the chain execution; whole claim transaction succeeds.',
 'C15': "Proved at handler level: exact proportional accrual, settlement preserves accrued rewards, other holders untouched, commutation on distinct holders, split-account linearity; at transaction level (Props/C14w.v part B): every bSei token transaction and hub bond/unbond/convert/withdraw transaction leaves every holder's accrued reward unchanged, tokens acquired after an update earn nothing from it. Relational claims are theorems about two executions of the model.",
 'C16': 'Proved: Mirror in every visited world of every history inside the named envelope (fresh ledgers or wired; no root signed by the bSei contract; no re-instantiation over live holders), via a stack invariant over pending Increase/DecreaseBalance messages; per-handler message/ledger deltas.',
 'C18': "Proved (Props/C18.v, C18w.v): balances sum to the total supply in every world of every history, for every instantiate message (repeated initial addresses rejected - former finding F4, fixed); transfers and sends conserve supply; only the minter mints, and the minter of both tokens IS the hub in every world of every history whose token instantiations name it (no contract ever emits UpdateMinter), so every executed Mint anywhere in any transaction was sent by the hub; bSei Burn only by the hub; allowance accounting exact per message and cumulative over any history (stored + spent + lowered = granted since instantiation; every spend found an unexpired sufficient entry); every executed stSei Burn/BurnFrom and bSei BurnFrom is followed in the same transaction by the hub's CheckSlashing leg, which runs exactly the hub's slashing synchronisation.",
 'C19': 'Proved at transaction level: under wiring, stub, E1 hypotheses and outside the known class F2 the UpdateGlobalIndex transaction succeeds with the stated end state (all rewards withdrawn, dispatcher empty, keeper fee exact, stSei pool and delegations grown by the re-bonded amount, everything else unchanged). F2 is a known finding (three witnesses).',
}

NA_REASON = {}
checks = []
for p in allp:
    pid = p['id']
    if pid not in P.PROPS:
        continue
    spec = P.PROPS[pid]
    checks.append({
        'property_id': pid,
        'quick_cmd': './check %s --tier quick' % pid,
        'thorough_cmd': './check %s --tier thorough' % pid,
        'evidence_file': 'evidence/%s.json' % pid,
        'replay_cmd_template': './check %s --replay {path}' % pid,
        'engine': 'rocq-model+correspondence',
        'level_claimed': {
            'category': 'proof',
            'text': LEVEL.get(pid) and (LEVEL[pid] + ' All theorems are machine-checked by the Coq 8.16.1 kernel with no axioms about a hand-written executable Gallina model, which is tied to /repo on every run by differential correspondence (kernel streams, histories on the real contracts vs the extracted model) and monitored on the implementation traces.') or spec.get('level_text') or (
                'Theorems of coq/%s about the hand-written executable Gallina model (machine-checked by the Coq 8.16.1 kernel, '
                'no axioms) hold for all inputs/states/histories they quantify over; the model is tied to /repo on every run by '
                'differential correspondence (kernel streams and histories executed on the real contracts and on the extracted model) '
                'and the property is additionally monitored on the implementation traces.' % spec['props_file']),
            'design_ref': 'DESIGN.md section 5 (%s), sections 2.3-2.4, 7' % pid,
        },
        'level_note': spec.get('level_note') or (
            'Trusted: Coq kernel; the reading of the property as the theorems in %s; the environment model (bank/staking/'
            'distribution/CosmWasm dispatch, DESIGN.md section 7); extraction (ExtrOcamlBasic only: its Extract Inductive directives and the inlined andb/orb) + OCaml driver + Rust harness; '
            'correspondence is differential testing with measured coverage, not proof.' % spec['props_file']),
        'technique': spec.get('technique', 'Coq proof over executable model + model/implementation correspondence check'),
    })
na = [{'property_id': p['id'], 'reason': NA_REASON.get(p['id'], 'check not built yet (build phase in progress; the technique applies, see DESIGN.md section 5)')}
      for p in allp if p['id'] not in P.PROPS]
m = {
    'version': 1,
    'setup_cmd': './check --setup',
    'hooks': {
        'guard': 'kryptonitedao_krp_staking_contracts_verif',
        'enable': "RUSTFLAGS='--cfg kryptonitedao_krp_staking_contracts_verif' (set by ./check when it builds /verif/harness against /repo's working tree)",
        'baseline_off_cmd': 'cd /repo && cargo test --workspace --no-fail-fast --offline',
        'source_commits': hooks_commits,
        'add_only': True,
    },
    'engines': [{
        'name': 'rocq-model+correspondence', 'path': 'coq/ ocaml/ harness/ lib/ check',
        'serves_properties': [c['property_id'] for c in checks],
        'kind_free_text': 'Coq 8.16 development (model + proofs), extracted OCaml model driver, Rust mini-chain running the real contracts, Python check driver with monitors',
    }],
    'checks': checks,
    'notes': 'See DESIGN.md. known_findings.json lists recorded genuine defects; seeded/ holds the seeded changes used to validate the checks.',
    'not_applicable': na,
}
json.dump(m, open(os.path.join(ROOT, 'MANIFEST.json'), 'w'), indent=1)
print('claimed:', [c['property_id'] for c in checks])
