#!/usr/bin/env python3
"""Regenerate MANIFEST.json from lib/props.py (claimed properties) and properties.jsonl."""
import json, os, sys
ROOT = os.path.dirname(os.path.dirname(os.path.abspath(__file__)))
sys.path.insert(0, os.path.join(ROOT, 'lib'))
import props as P

allp = [json.loads(l) for l in open(os.path.join(ROOT, 'properties.jsonl'))]
hooks_commits = ['6002121']
NA_REASON = {}
checks = []
for p in allp:
    pid = p['id']
    if pid not in P.PROPS:
        continue
    spec = P.PROPS[pid]
    checks.append({
        'property_id': pid,
        'quick_cmd': './check %s --tier quick' % pid,
        'thorough_cmd': './check %s --tier thorough' % pid,
        'evidence_file': 'evidence/%s.json' % pid,
        'replay_cmd_template': './check %s --replay {path}' % pid,
        'engine': 'rocq-model+correspondence',
        'level_claimed': {
            'category': 'proof',
            'text': spec.get('level_text') or (
                'Theorems of coq/%s about the hand-written executable Gallina model (machine-checked by the Coq 8.16.1 kernel, '
                'no axioms) hold for all inputs/states/histories they quantify over; the model is tied to /repo on every run by '
                'differential correspondence (kernel streams and histories executed on the real contracts and on the extracted model) '
                'and the property is additionally monitored on the implementation traces.' % spec['props_file']),
            'design_ref': 'DESIGN.md section 5 (%s), sections 2.3-2.4, 7' % pid,
        },
        'level_note': spec.get('level_note') or (
            'Trusted: Coq kernel; the reading of the property as the theorems in %s; the environment model (bank/staking/'
            'distribution/CosmWasm dispatch, DESIGN.md section 7); extraction (ExtrOcamlBasic only) + OCaml driver + Rust harness; '
            'correspondence is differential testing with measured coverage, not proof.' % spec['props_file']),
        'technique': spec.get('technique', 'Coq proof over executable model + model/implementation correspondence check'),
    })
na = [{'property_id': p['id'], 'reason': NA_REASON.get(p['id'], 'check not built yet (build phase in progress; the technique applies, see DESIGN.md section 5)')}
      for p in allp if p['id'] not in P.PROPS]
m = {
    'version': 1,
    'setup_cmd': './check --setup',
    'hooks': {
        'guard': 'kryptonitedao_krp_staking_contracts_verif',
        'enable': "RUSTFLAGS='--cfg kryptonitedao_krp_staking_contracts_verif' (set by ./check when it builds /verif/harness against /repo's working tree)",
        'baseline_off_cmd': 'cd /repo && cargo test --workspace --no-fail-fast --offline',
        'source_commits': hooks_commits,
        'add_only': True,
    },
    'engines': [{
        'name': 'rocq-model+correspondence', 'path': 'coq/ ocaml/ harness/ lib/ check',
        'serves_properties': [c['property_id'] for c in checks],
        'kind_free_text': 'Coq 8.16 development (model + proofs), extracted OCaml model driver, Rust mini-chain running the real contracts, Python check driver with monitors',
    }],
    'checks': checks,
    'notes': 'See DESIGN.md. known_findings.json lists recorded genuine defects; seeded/ holds the seeded changes used to validate the checks.',
    'not_applicable': na,
}
json.dump(m, open(os.path.join(ROOT, 'MANIFEST.json'), 'w'), indent=1)
print('claimed:', [c['property_id'] for c in checks])
