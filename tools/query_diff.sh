#!/bin/bash
# query_diff.sh [SEED ...]   (default seeds: 1 2)
# Model / implementation agreement over everything the quick tier of ./check feeds to both sides:
# every scenarios/*.ops, the authorisation grid, and for each SEED the ten generator profiles at the
# quick sizes (16 shards, shard s uses seed SEED*1000+s as lib/krpcheck.py does: `gen PROFILE .. 10 40`,
# `gen synth .. 6 14`).  Compares the observation files of `krp-harness` and of the extracted model
# (`build/driver`) and prints per stream: operations, observation lines, differing lines.
#   KRP_HARNESS=<binary>  another harness build (pristine / mutated copy of the contracts)
#   JOBS=6  parallel runs     OUT=<dir>  work directory (default build/querydiff)
#   STREAMS="scenarios grid profiles"  subset to run     PROFILES="token rewards"  SHARDS=16
ROOT="$(cd "$(dirname "$0")/.." && pwd)"
H=${KRP_HARNESS:-$ROOT/build/harness-target/release/krp-harness}; D=${KRP_DRIVER:-$ROOT/build/driver}
OUT=${OUT:-$ROOT/build/querydiff}; JOBS=${JOBS:-6}; STREAMS=${STREAMS:-"scenarios grid profiles"}
SEEDS="${*:-1 2}"
PROFILES=${PROFILES:-"general pricing unbond rewards registry token config pause exit synth"}
SHARDS=${SHARDS:-16}
rm -rf "$OUT"; mkdir -p "$OUT"
export H D OUT

one() { # one NAME KIND ARGS...   -> $OUT/NAME.{ops,rust,model,res}
  name=$1; kind=$2; shift 2
  case $kind in
    run)  cp "$1" "$OUT/$name.ops"; $H run "$OUT/$name.ops" > "$OUT/$name.rust" 2>/dev/null ;;
    grid) $H grid "$OUT/$name.ops" "$OUT/$name.rust" > /dev/null 2>&1 ;;
    gen)  $H gen "$1" "$2" "$3" "$4" "$OUT/$name.ops" "$OUT/$name.rust" > /dev/null 2>&1 ;;
  esac
  $D run "$OUT/$name.ops" > "$OUT/$name.model" 2>/dev/null
  ops=$(grep -c '^op ' "$OUT/$name.rust"); lines=$(wc -l < "$OUT/$name.rust")
  dl=$(diff "$OUT/$name.rust" "$OUT/$name.model" | grep -c '^[<>]')
  echo "$name $ops $lines $dl" > "$OUT/$name.res"
  [ "$dl" = 0 ] && rm -f "$OUT/$name.rust" "$OUT/$name.model"
}
export -f one

{
  for st in $STREAMS; do
    case $st in
      scenarios) for f in "$ROOT"/scenarios/*.ops; do echo "scenario.$(basename "$f" .ops) run $f"; done ;;
      grid) echo "grid grid" ;;
      profiles)
        for S in $SEEDS; do for p in $PROFILES; do for s in $(seq 0 $((SHARDS-1))); do
          if [ $p = synth ]; then echo "seed$S.$p.$s gen $p $((S*1000+s)) 6 14"
          else echo "seed$S.$p.$s gen $p $((S*1000+s)) 10 40"; fi
        done; done; done ;;
    esac
  done
} | xargs -P "$JOBS" -L 1 bash -c 'one "$@"' _

# summary: per stream group
cat "$OUT"/*.res | awk '
  { n=$1; sub(/\.[0-9]+$/, "", n); ops[n]+=$2; lines[n]+=$3; dif[n]+=$4; T2+=$2; T3+=$3; T4+=$4 }
  END { for (n in ops) printf "%-28s ops %8d  lines %10d  differing lines %d\n", n, ops[n], lines[n], dif[n];
        printf "%-28s ops %8d  lines %10d  differing lines %d\n", "TOTAL", T2, T3, T4 }' | sort
