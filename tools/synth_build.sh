#!/bin/bash
# Development build for the synthesised-state stream: harness (release, offline), the Coq MODEL only
# (not the proofs), extraction, OCaml driver (+ profiling build for the coverage measurement).
# Everything goes to <root>/build; <root> = the directory above this script.
set -e
ROOT="$(cd "$(dirname "$0")/.." && pwd)"
JOBS="${JOBS:-4}"
export CARGO_NET_OFFLINE=true
mkdir -p "$ROOT/build/extract"
if [ "$1" != "driver" ]; then
  [ -f "$ROOT/harness/Cargo.lock" ] || cp /repo/Cargo.lock "$ROOT/harness/Cargo.lock"
  (cd "$ROOT/harness" && CARGO_BUILD_JOBS=$JOBS CARGO_TARGET_DIR="$ROOT/build/harness-target" \
     RUSTFLAGS="--cfg kryptonitedao_krp_staking_contracts_verif" cargo build --release --offline 2>&1 | tail -n 15)
fi
if [ "$1" != "harness" ]; then
  (cd "$ROOT/coq" && { [ -f Makefile ] || coq_makefile -f _CoqProject -o Makefile; } && make -j"$JOBS" Model/Exec.vo | tail -n 3)
  (cd "$ROOT/build/extract" && coqc -Q "$ROOT/coq" Krp "$ROOT/coq/Extract/Extract.v" >/dev/null \
     && cp "$ROOT/ocaml/driver.ml" driver.ml \
     && ocamlfind ocamlopt -O3 -package zarith -linkpkg -w -a model.mli model.ml driver.ml -o "$ROOT/build/driver" \
     && mkdir -p prof && cp model.ml model.mli driver.ml "$ROOT/ocaml/covmerge.ml" prof/ \
     && cd prof && ocamlfind ocamlcp -P a -package zarith -linkpkg -w -a model.mli model.ml driver.ml -o driver_prof \
     && ocamlfind ocamlopt -w -a covmerge.ml -o covmerge)
fi
echo "synth_build: done"
