#!/usr/bin/env python3
"""Turns the llvm-cov exports of tools/rust_coverage.sh into rust_coverage.json / rust_coverage.txt.

Inputs: the `llvm-cov export -format=text` JSON of the merged profile (regions, functions, summaries), its
`-format=lcov` export (per-line counts), and a directory with one `<group>.lcov` per stream group
(scenarios, grid, profile:<p>, synth, kernels, probes) for the per-group contribution table.

Only source files under <repo>/contracts and <repo>/packages are reported (no `testing/`, `tests.rs`,
`examples/`, schema binaries); paths are relative to the repository root. Function names are read from
the source text at the position of the function's first region (the export only has mangled names, and
one record per generic instantiation: instantiations are grouped by position, a function counts as
executed if any instantiation was)."""
import argparse, collections, glob, json, os, re, time

# lines / regions / functions: llvm-cov's own summary (what `llvm-cov report` prints; `lines` is summed per function, so a
# line inside a closure counts once for the closure and once for the enclosing function); source_lines: distinct source lines
# that carry code (the DA records of the lcov export) -- the uncovered line ranges refer to these
KINDS = ('lines', 'regions', 'functions', 'source_lines')
EXCLUDE = re.compile(r'(/testing/|/tests\.rs$|/examples/|/src/bin/|/schema\.rs$)')


def pct(c, t):
    return round(100.0 * c / t, 2) if t else None


def ranges(nums):
    out = []
    for n in sorted(nums):
        if out and n == out[-1][1] + 1:
            out[-1][1] = n
        else:
            out.append([n, n])
    return out


def fmt_ranges(rs):
    return ','.join(str(a) if a == b else '%d-%d' % (a, b) for a, b in rs)


def read_lcov(path, rel):
    """{relative file: {line: count}}"""
    res, cur = {}, None
    for ln in open(path):
        ln = ln.rstrip('\n')
        if ln.startswith('SF:'):
            r = rel(ln[3:])
            cur = res.setdefault(r, {}) if r else None
        elif ln.startswith('DA:') and cur is not None:
            a, b = ln[3:].split(',')[:2]
            cur[int(a)] = cur.get(int(a), 0) + int(b)
        elif ln == 'end_of_record':
            cur = None
    return res


FN_RE = re.compile(r'\bfn\s+([A-Za-z_][A-Za-z_0-9]*)')
IMPL_RE = re.compile(r'^\s*impl(?:<[^>]*>)?\s+(?:(?P<tr>[A-Za-z_:0-9<>, ]+?)\s+for\s+)?(?P<ty>[A-Za-z_][A-Za-z_0-9]*)')


class Source:
    def __init__(self, path):
        try:
            self.lines = open(path, errors='replace').read().split('\n')
        except OSError:
            self.lines = []
        self.fns = []      # (line, name)
        self.impls = []    # (line, indent, label)
        for i, l in enumerate(self.lines, 1):
            s = l.split('//')[0]
            m = FN_RE.search(s)
            if m:
                self.fns.append((i, m.group(1)))
            m = IMPL_RE.match(s)
            if m:
                self.impls.append((i, m.group('ty') + (' as ' + m.group('tr').strip() if m.group('tr') else '')))

    def impl_of(self, line):
        """innermost top-level impl block containing `line` (textual: last `impl` at column 0 before it whose
        closing `}` at column 0 comes after it)"""
        best = None
        for (i, label) in self.impls:
            if i > line:
                break
            if not self.lines[i - 1].startswith('impl'):
                continue
            end = None
            for j in range(i, len(self.lines)):
                if self.lines[j].startswith('}'):
                    end = j + 1
                    break
            if end is None or end >= line:
                best = label
        return best

    def name_at(self, line, col):
        txt = self.lines[line - 1][col - 1:] if 0 < line <= len(self.lines) else ''
        head = ' '.join([txt] + self.lines[line:line + 3])
        m = FN_RE.search(head)
        closure = not re.match(r'\s*(pub(\([a-z ]+\))?\s+)?((const|async|unsafe|extern(\s+"[^"]*")?)\s+)*fn\b', txt)
        if m and not closure:
            name = m.group(1)
        else:
            enc = [n for (i, n) in self.fns if i <= line]
            name = (enc[-1] if enc else '?') + '::{closure@%d:%d}' % (line, col)
        imp = self.impl_of(line)
        return ('<%s>::' % imp if imp else '') + name


def main():
    ap = argparse.ArgumentParser()
    ap.add_argument('--repo', required=True)
    ap.add_argument('--json', required=True)
    ap.add_argument('--lcov', required=True)
    ap.add_argument('--groups')
    ap.add_argument('--out', required=True)
    ap.add_argument('--text')
    ap.add_argument('--meta', action='append', default=[])
    a = ap.parse_args()
    repo = os.path.realpath(a.repo).rstrip('/') + '/'

    def rel(p):
        p = os.path.realpath(p) if os.path.isabs(p) else p
        if not p.startswith(repo):
            return None
        r = p[len(repo):]
        if not (r.startswith('contracts/') or r.startswith('packages/')) or EXCLUDE.search('/' + r):
            return None
        return r

    def crate_of(r):
        return '/'.join(r.split('/')[:2])

    data = json.load(open(a.json))['data'][0]
    lines = read_lcov(a.lcov, rel)

    files = {}
    for f in data['files']:
        r = rel(f['filename'])
        if not r:
            continue
        s = f['summary']
        da = lines.get(r, {})
        files[r] = {
            'lines': {'total': s['lines']['count'], 'covered': s['lines']['covered']},
            'regions': {'total': s['regions']['count'], 'covered': s['regions']['covered']},
            'functions': {'total': s['functions']['count'], 'covered': s['functions']['covered']},
            'source_lines': {'total': len(da), 'covered': sum(1 for c in da.values() if c > 0)},
            'uncovered_lines': ranges([n for n, c in da.items() if c == 0]),
            'functions_never_executed': [], 'functions_partly_covered': [],
        }

    # group the function records (one per instantiation) by position of their first code region
    groups = collections.OrderedDict()
    for fn in data['functions']:
        if not fn.get('filenames'):
            continue
        r = rel(fn['filenames'][0])
        if not r or r not in files:
            continue
        regs = [x for x in fn['regions'] if x[5] == 0 and x[7] in (0, 3)]   # code / gap-free regions of the file itself
        regs = [x for x in regs if x[7] == 0] or regs
        if not regs:
            continue
        first = min(regs, key=lambda x: (x[0], x[1]))
        key = (r, first[0], first[1])
        g = groups.setdefault(key, {'count': 0, 'inst': 0, 'lo': first[0], 'hi': first[0], 'regions': {}})
        g['count'] += fn['count']
        g['inst'] += 1
        g['lo'] = min(g['lo'], min(x[0] for x in regs))
        g['hi'] = max(g['hi'], max(x[2] for x in regs))
        for x in regs:
            k = (x[0], x[1], x[2], x[3])
            g['regions'][k] = g['regions'].get(k, 0) + x[4]

    srcs = {}
    never_all = []
    for (r, l, c), g in sorted(groups.items()):
        src = srcs.get(r) or srcs.setdefault(r, Source(repo + r))
        name = src.name_at(l, c)
        da = lines.get(r, {})
        body = [n for n in range(g['lo'], g['hi'] + 1) if n in da]
        unc = [n for n in body if da[n] == 0]
        rec = {'name': name, 'line': l, 'end_line': g['hi'], 'lines_total': len(body), 'lines_uncovered': len(unc),
               'regions_total': len(g['regions']), 'regions_uncovered': sum(1 for v in g['regions'].values() if v == 0),
               'instantiations': g['inst']}
        if g['count'] == 0:
            files[r]['functions_never_executed'].append(rec)
            never_all.append('%s:%d %s' % (r, l, name))
        elif unc or rec['regions_uncovered']:
            rec['uncovered_line_ranges'] = ranges(unc)
            rec['uncovered_regions'] = ['%d:%d-%d:%d' % k for k, v in sorted(g['regions'].items()) if v == 0]
            files[r]['functions_partly_covered'].append(rec)

    def add(acc, f):
        for k in KINDS:
            acc[k]['total'] += f[k]['total']
            acc[k]['covered'] += f[k]['covered']

    def blank():
        return {k: {'total': 0, 'covered': 0} for k in KINDS}

    crates = collections.OrderedDict()
    contracts, packages, total = blank(), blank(), blank()
    for r in sorted(files):
        add(crates.setdefault(crate_of(r), blank()), files[r])
        add(total, files[r])
        add(contracts if r.startswith('contracts/') else packages, files[r])
    for d in list(crates.values()) + [total, contracts, packages] + list(files.values()):
        for k in KINDS:
            d[k]['pct'] = pct(d[k]['covered'], d[k]['total'])

    # sources of the crates that carry no instrumented code at all (type definitions, re-exports, or not compiled)
    uninstr = []
    for base in ('contracts', 'packages'):
        for p in sorted(glob.glob(repo + base + '/*/src/**/*.rs', recursive=True)):
            r = p[len(repo):]
            if r not in files and not EXCLUDE.search('/' + r):
                uninstr.append(r)

    # per stream group: lines executed, and lines executed by no other group
    streams = collections.OrderedDict()
    if a.groups:
        cov = {}
        for p in sorted(glob.glob(os.path.join(a.groups, '*.lcov'))):
            g = os.path.basename(p)[:-5]
            if g == 'ALL':
                continue
            lc = read_lcov(p, rel)
            cov[g] = set((r, n) for r, d in lc.items() for n, c in d.items() if c > 0 and r in files)
        tot = sum(f['source_lines']['total'] for f in files.values())
        for g, s in cov.items():
            others = set().union(*[v for k, v in cov.items() if k != g]) if len(cov) > 1 else set()
            streams[g] = {'lines_covered': len(s), 'lines_pct': pct(len(s), tot), 'lines_covered_by_no_other_group': len(s - others)}

    meta = collections.OrderedDict([('generated', time.strftime('%Y-%m-%dT%H:%M:%S'))])
    for m in a.meta:
        k, _, v = m.partition('=')
        meta[k] = v.strip()
    rep = collections.OrderedDict([
        ('meta', meta), ('total', total), ('contracts', contracts), ('packages', packages), ('crates', crates),
        ('streams', streams), ('files', collections.OrderedDict(sorted(files.items()))),
        ('functions_never_executed', never_all), ('sources_without_instrumented_code', uninstr)])
    json.dump(rep, open(a.out, 'w'), indent=1)

    if a.text:
        with open(a.text, 'w') as o:
            for k, v in meta.items():
                o.write('# %s: %s\n' % (k, v))
            o.write('\n%-52s %18s %18s %18s %18s\n' % ('crate', 'lines', 'regions', 'functions', 'distinct src lines'))

            def row(n, d):
                o.write('%-52s %s\n' % (n, ' '.join('%5d/%5d %5.1f%%' % (d[k]['covered'], d[k]['total'], d[k]['pct'] or 0)
                                                   for k in KINDS)))
            for c, d in crates.items():
                row(c, d)
            row('contracts/*', contracts)
            row('packages/*', packages)
            row('TOTAL', total)
            o.write('\nper file\n')
            for r, f in sorted(files.items()):
                row(r, f)
            if streams:
                o.write('\nstream group                 lines executed      %   executed by no other group\n')
                for g, s in streams.items():
                    o.write('%-28s %14d %6.1f %10d\n' % (g, s['lines_covered'], s['lines_pct'] or 0, s['lines_covered_by_no_other_group']))
            o.write('\nfunctions never executed (%d)\n' % len(never_all))
            for x in never_all:
                o.write('  ' + x + '\n')
            o.write('\npartly covered functions: uncovered lines\n')
            for r, f in sorted(files.items()):
                for p in f['functions_partly_covered']:
                    o.write('  %s:%d %s  [%d of %d lines, %d of %d regions not executed]  lines %s\n' % (
                        r, p['line'], p['name'], p['lines_uncovered'], p['lines_total'], p['regions_uncovered'],
                        p['regions_total'], fmt_ranges(p['uncovered_line_ranges']) or '- (regions ' + ' '.join(p['uncovered_regions'][:6]) + ')'))
            o.write('\nsources without instrumented code (type definitions / re-exports / not compiled into the harness)\n')
            for r in uninstr:
                o.write('  ' + r + '\n')


if __name__ == '__main__':
    main()
