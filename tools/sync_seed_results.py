#!/usr/bin/env python3
"""fill tools/seed_results.json from the round tables of DESIGN.md section 11.4 (rows `| Cxx<suffix> | what | caught by |`)"""
import re, json, os
ROOT = os.path.dirname(os.path.dirname(os.path.abspath(__file__)))
p = os.path.join(ROOT, 'tools', 'seed_results.json')
res = json.load(open(p))
on = False
for ln in open(os.path.join(ROOT, 'DESIGN.md')):
    if ln.startswith('### 11.4'): on = True
    elif ln.startswith('### 11.5'): on = False
    if not on: continue
    m = re.match(r'\| (C\d\d[b-z]) \| (.*?) \| (.*?) \|\s*$', ln)
    if m:
        res[m.group(1)] = {'what': m.group(2), 'caught_by': m.group(3)}
json.dump(res, open(p, 'w'), indent=1, sort_keys=True)
print(len(res), 'entries')
