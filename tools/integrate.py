#!/usr/bin/env python3
"""integrate.py PID Proofs/A.v [Proofs/B.v ...] — add the proof files and Props/PID.v to _CoqProject,
pin the theorem names of Props/PID.v in lib/theorems.json (the check fails if one disappears)."""
import sys, os, re, json
ROOT = os.path.dirname(os.path.dirname(os.path.abspath(__file__)))
pid = sys.argv[1]
args = sys.argv[2:]
extra = [a for a in args if a.startswith('Props/')]
files = [a for a in args if not a.startswith('Props/')] + ['Props/%s.v' % pid] + extra
cp = os.path.join(ROOT, 'coq', '_CoqProject')
lines = open(cp).read().splitlines()
for f in files:
    assert os.path.exists(os.path.join(ROOT, 'coq', f)), f
    if f not in lines:
        lines.append(f)
open(cp, 'w').write('\n'.join(lines) + '\n')
d0 = json.load(open(os.path.join(ROOT, 'lib', 'extra_props.json'))) if os.path.exists(os.path.join(ROOT, 'lib', 'extra_props.json')) else {}
allextra = sorted(set(d0.get(pid, []) + extra))
if allextra:
    d0[pid] = allextra
    json.dump(d0, open(os.path.join(ROOT, 'lib', 'extra_props.json'), 'w'), indent=1, sort_keys=True)
src = ''.join(open(os.path.join(ROOT, 'coq', f)).read() + '\n' for f in ['Props/%s.v' % pid] + allextra)
# strip comments
out, depth, i = [], 0, 0
while i < len(src):
    if src.startswith('(*', i): depth += 1; i += 2
    elif src.startswith('*)', i) and depth > 0: depth -= 1; i += 2
    else:
        if depth == 0: out.append(src[i])
        i += 1
thms = re.findall(r'\bTheorem\s+([A-Za-z0-9_\']+)', ''.join(out))
tj = os.path.join(ROOT, 'lib', 'theorems.json')
d = json.load(open(tj)) if os.path.exists(tj) else {}
d[pid] = thms
json.dump(d, open(tj, 'w'), indent=1, sort_keys=True)
print(pid, len(thms), 'theorems pinned')
