(* covmerge OUT IN1 IN2 ... : sum the counters of several ocamlprof.dump files (format of
   stdlib Profiling: (string * (string * int array)) list, marshalled) *)
let () =
  let args = Array.to_list Sys.argv in
  match args with
  | _ :: out :: ins ->
      let tbl : (string, string * int array) Hashtbl.t = Hashtbl.create 7 in
      List.iter (fun f ->
        let ic = open_in_bin f in
        let (l : (string * (string * int array)) list) = input_value ic in
        close_in ic;
        List.iter (fun (m, (modes, a)) ->
          match Hashtbl.find_opt tbl m with
          | Some (_, b) when Array.length b = Array.length a ->
              Array.iteri (fun i x -> b.(i) <- b.(i) + x) a
          | _ -> Hashtbl.replace tbl m (modes, Array.copy a)) l) ins;
      let l = Hashtbl.fold (fun m v acc -> (m, v) :: acc) tbl [] in
      let oc = open_out_bin out in
      output_value oc l;
      close_out oc
  | _ -> prerr_endline "usage: covmerge OUT IN..."; exit 2
