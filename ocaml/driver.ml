(* driver.ml — runs the extracted Coq model (model.ml) on operation files / kernel streams and
   prints observations in the format of PROTOCOL.md.  Trusted glue: parsing, name tables,
   N <-> decimal conversion (through Zarith), printing.  No arithmetic of the model is redone here. *)
open Model

(* ---------- N <-> Z ---------- *)
let rec z_of_pos = function
  | XH -> Z.one
  | XO p -> Z.shift_left (z_of_pos p) 1
  | XI p -> Z.succ (Z.shift_left (z_of_pos p) 1)
let z_of_n = function N0 -> Z.zero | Npos p -> z_of_pos p
let rec pos_of_z z =
  if Z.equal z Z.one then XH
  else if Z.testbit z 0 then XI (pos_of_z (Z.shift_right z 1))
  else XO (pos_of_z (Z.shift_right z 1))
let n_of_z z = if Z.sign z <= 0 then N0 else Npos (pos_of_z z)
let sn x = Z.to_string (z_of_n x)
let pn s =
  if s = "" then failwith "empty number";
  String.iter (fun c -> if c < '0' || c > '9' then failwith ("bad number " ^ s)) s;
  n_of_z (Z.of_string s)
let n_of_int i = n_of_z (Z.of_int i)
let int_of_n x = Z.to_int (z_of_n x)
let rec nat_of_int i = if i <= 0 then O else S (nat_of_int (i - 1))

(* ---------- names ---------- *)
let addrs = [| "hub"; "reward"; "disp"; "reg"; "bsei"; "stsei"; "swap"; "oracle"; "airdrop";
               "owner"; "updater"; "keeper"; "nobody";
               "user0"; "user1"; "user2"; "user3"; "user4"; "user5"; "user6"; "user7" |]
let denoms = [| "uAtom"; "ujunk"; "usei"; "uusd" |]
let nvals = 12  (* = length Types.VALS: the validators of the chain *)

let index_of arr s =
  let r = ref (-1) in
  Array.iteri (fun i x -> if x = s then r := i) arr;
  if !r < 0 then failwith ("unknown name " ^ s) else !r

let addr_tbl = Array.mapi (fun i _ -> n_of_int (i + 1)) addrs
let addr_of s = addr_tbl.(index_of addrs s)
let name_of a =
  let i = int_of_n a in
  if i >= 1 && i <= Array.length addrs then addrs.(i - 1) else "?" ^ string_of_int i
let denom_tbl = Array.mapi (fun i _ -> n_of_int i) denoms
let denom_of s = denom_tbl.(index_of denoms s)
let dname d = let i = int_of_n d in if i >= 0 && i < 4 then denoms.(i) else "?d" ^ string_of_int i
let val_tbl = Array.init nvals n_of_int
(* A validator name is "val" + one character c of val_alphabet; its model id is the index of c.
   The alphabet is in ascending byte order, so the order of the ids is the byte order of the names
   (the order in which the contracts' storage maps iterate).  val0..val9, vala, valb (ids 0..11 =
   Types.VALS) exist on the chain; later names (valx, valy in generated histories) may appear inside
   contract messages only: "validator not on chain". *)
let val_alphabet = "0123456789abcdefghijklmnopqrstuvwxyz"
let val_all = Array.init (String.length val_alphabet) n_of_int
let val_of s =
  if String.length s = 4 && String.sub s 0 3 = "val" then
    match String.index_opt val_alphabet s.[3] with
    | Some k -> val_all.(k)
    | None -> failwith ("bad validator " ^ s)
  else failwith ("bad validator " ^ s)
let vname v =
  let i = int_of_n v in
  if i >= 0 && i < String.length val_alphabet then "val" ^ String.make 1 val_alphabet.[i]
  else "?v" ^ string_of_int i

let opt f s = if s = "-" then None else Some (f s)
let name_opt = function None -> "-" | Some a -> name_of a

(* ---------- op parsing ---------- *)
let parse_hook = function
  | "unbond" -> HkUnbond | "convert" -> HkConvert | "junk" -> HkJunk
  | s -> failwith ("bad hook " ^ s)

let parse_exp s =
  if s = "-" then None
  else if s = "never" then Some ExpNever
  else if s.[0] = 'h' then Some (ExpHeight (pn (String.sub s 1 (String.length s - 1))))
  else if s.[0] = 't' then Some (ExpTime (pn (String.sub s 1 (String.length s - 1))))
  else failwith ("bad expiration " ^ s)

let parse_bool01 = function "0" -> false | "1" -> true | s -> failwith ("bad bool " ^ s)

(* take n items of k tokens each *)
let rec take_groups n k toks f =
  if n = 0 then ([], toks)
  else begin
    let rec split i acc l = if i = 0 then (List.rev acc, l) else
        match l with x :: r -> split (i - 1) (x :: acc) r | [] -> failwith "too few tokens" in
    let (g, rest) = split k [] toks in
    let (gs, rest') = take_groups (n - 1) k rest f in
    (f g :: gs, rest')
  end

let expect_end = function [] -> () | _ -> failwith "trailing tokens"

let rec parse_toks (toks : string list) : op =
  let line = String.concat " " toks in
  match toks with
  (* `funds N DENOM AMT ... TRANSACTION`: the transaction with these coins attached to its root message *)
  | "funds" :: n :: rest ->
      let (cs, r) = take_groups (int_of_string n) 2 rest
          (function [d; x] -> (denom_of d, pn x) | _ -> failwith "coin") in
      (match r with "funds" :: _ -> failwith "funds: a transaction must follow" | _ -> ());
      (match parse_toks r with
       | OTx (s, t, m, f) -> OTx (s, t, m, f @ cs)
       | _ -> failwith "funds: a transaction must follow")
  | ["reset"; ut] -> OReset (pn ut)
  | ["advance"; dt] -> OAdvance (pn dt)
  | ["slash"; v; num; den; unb] -> OSlash (val_of v, pn num, pn den, parse_bool01 unb)
  | ["accrue"; v; d; a] -> OAccrue (val_of v, denom_of d, pn a)
  | ["gift"; a; d; x] -> OGift (addr_of a, denom_of d, pn x)
  | ["setprice"; p] -> OSetPrice (pn p)
  | ["swapmode"; m] ->
      OSwapMode (match m with "ok" -> SwOk | "fail" -> SwFail | "garbage" -> SwGarbage
                            | _ -> failwith "bad swapmode")
  | ["oraclemode"; m] ->
      OOracleMode (match m with "ok" -> OrOk | "fail" -> OrFail | "zero" -> OrZero
                              | _ -> failwith "bad oraclemode")
  | ["canredel"; v; b] -> OCanRedel (val_of v, parse_bool01 b)
  | ["legacy_wait"; a; b; x] -> OLegacyWait (addr_of a, pn b, pn x)
  | ["inst_hub"; s; ep; unb; fee; thr; upd; und; rd] ->
      OInstHub (addr_of s, pn ep, pn unb, pn fee, pn thr, addr_of upd, denom_of und, denom_of rd)
  | "inst_reward" :: s :: h :: d :: sw :: n :: rest ->
      let (ds, r) = take_groups (int_of_string n) 1 rest (fun g -> denom_of (List.hd g)) in
      expect_end r; OInstReward (addr_of s, addr_of h, denom_of d, addr_of sw, ds)
  | "inst_disp" :: s :: h :: rw :: std :: bd :: k :: rate :: sw :: orc :: n :: rest ->
      let (ds, r) = take_groups (int_of_string n) 1 rest (fun g -> denom_of (List.hd g)) in
      expect_end r;
      OInstDisp (addr_of s, addr_of h, addr_of rw, denom_of std, denom_of bd, addr_of k, pn rate,
                 addr_of sw, addr_of orc, ds)
  | "inst_reg" :: s :: h :: n :: rest ->
      let (vs, r) = take_groups (int_of_string n) 1 rest (fun g -> val_of (List.hd g)) in
      expect_end r; OInstReg (addr_of s, addr_of h, vs)
  | "inst_bsei" :: s :: h :: n :: rest ->
      (* an UPPER-CASE spelling of an address is the same account (case-insensitive canonical form) *)
      let (rows, r) = take_groups (int_of_string n) 2 rest
          (function [a; x] -> (addr_of (String.lowercase_ascii a), pn x) | _ -> failwith "row") in
      expect_end r; OInstBsei (addr_of s, addr_of h, rows)
  | "inst_stsei" :: s :: h :: mk :: n :: rest ->
      let (rows, r) = take_groups (int_of_string n) 2 rest
          (function [a; x] -> (addr_of a, pn x) | _ -> failwith "row") in
      expect_end r; OInstStsei (addr_of s, addr_of h, pn mk, rows)
  | "bond" :: k :: s :: n :: rest ->
      let (cs, r) = take_groups (int_of_string n) 2 rest
          (function [d; x] -> (denom_of d, pn x) | _ -> failwith "coin") in
      expect_end r;
      let m = match k with "b" -> HBond | "st" -> HBondSt | "rw" -> HBondRewards
                         | _ -> failwith "bad bond kind" in
      OTx (addr_of s, a_hub, WHub m, cs)
  | "hub" :: s :: rest ->
      let m = match rest with
        | ["withdraw"] -> HWithdraw
        | ["checkslashing"] -> HCheckSlashing
        | ["updateglobal"; n] -> HUpdateGlobal (pn n)
        | ["params"; ep; unb; fee; thr; pz; rd] ->
            HParams (opt pn ep, opt pn unb, opt pn fee, opt pn thr, opt parse_bool01 pz, opt denom_of rd)
        | ["config"; d; g; b; st; ad; rw; up] ->
            HConfig (opt addr_of d, opt addr_of g, opt addr_of b, opt addr_of st, opt addr_of ad,
                     opt addr_of rw, opt addr_of up)
        | ["setowner"; a] -> HSetOwner (addr_of a)
        | ["accept"] -> HAccept
        | "redelproxy" :: src :: n :: r ->
            let (l, r') = take_groups (int_of_string n) 2 r
                (function [v; x] -> (val_of v, (usei, pn x)) | _ -> failwith "redel") in
            expect_end r'; HRedelProxy (val_of src, l)
        | ["swaphook"; t; sw] -> HSwapHook (addr_of t, addr_of sw)
        | ["claimairdrop"; t; ad; sw] -> HClaimAirdrop (addr_of t, addr_of ad, addr_of sw)
        | ["migrate"; l] -> HMigrate (opt pn l)
        | ["receive"; u; x; hk] -> HReceive (addr_of u, pn x, parse_hook hk)
        | _ -> failwith ("bad hub op: " ^ line) in
      OTx (addr_of s, a_hub, WHub m, [])
  | "cw" :: t :: s :: rest ->
      let target = match t with "bsei" -> a_bsei | "stsei" -> a_stsei | _ -> failwith "bad token" in
      let m = match rest with
        | ["transfer"; to_; x] -> CTransfer (addr_of to_, pn x)
        | ["burn"; x] -> CBurn (pn x)
        | ["mint"; to_; x] -> CMint (addr_of to_, pn x)
        | ["send"; c; x; hk] -> CSend (addr_of c, pn x, parse_hook hk)
        | ["incallow"; sp; x; e] -> CIncAllow (addr_of sp, pn x, parse_exp e)
        | ["decallow"; sp; x; e] -> CDecAllow (addr_of sp, pn x, parse_exp e)
        | ["transferfrom"; o; to_; x] -> CTransferFrom (addr_of o, addr_of to_, pn x)
        | ["burnfrom"; o; x] -> CBurnFrom (addr_of o, pn x)
        | ["sendfrom"; o; c; x; hk] -> CSendFrom (addr_of o, addr_of c, pn x, parse_hook hk)
        | ["updminter"; a] -> CUpdMinter (opt addr_of a)
        | _ -> failwith ("bad cw op: " ^ line) in
      OTx (addr_of s, target, WCw20 m, [])
  | "reward" :: s :: rest ->
      let m = match rest with
        | ["claim"; r] -> RClaim (opt addr_of r)
        | ["config"; h; d; sw] -> RConfig (opt addr_of h, opt denom_of d, opt addr_of sw)
        | ["setowner"; a] -> RSetOwner (addr_of a)
        | ["accept"] -> RAccept
        | ["swap"] -> RSwap
        | ["updateindex"] -> RUpdateIndex
        | ["inc"; a; x] -> RInc (addr_of a, pn x)
        | ["dec"; a; x] -> RDec (addr_of a, pn x)
        | ["swapdenom"; d; b] -> RSwapDenom (denom_of d, parse_bool01 b)
        | _ -> failwith ("bad reward op: " ^ line) in
      OTx (addr_of s, a_reward, WReward m, [])
  | "disp" :: s :: rest ->
      let m = match rest with
        | ["swap"; bb; stb] -> DSwap (pn bb, pn stb)
        | ["dispatch"] -> DDispatch
        | ["config"; h; rw; std; bd; k; rate] ->
            DConfig (opt addr_of h, opt addr_of rw, opt denom_of std, opt denom_of bd, opt addr_of k,
                     opt pn rate)
        | ["setowner"; a] -> DSetOwner (addr_of a)
        | ["accept"] -> DAccept
        | ["swapcontract"; a] -> DSwapContract (addr_of a)
        | ["swapdenom"; d; b] -> DSwapDenom (denom_of d, parse_bool01 b)
        | ["oracle"; a] -> DOracle (addr_of a)
        | _ -> failwith ("bad disp op: " ^ line) in
      OTx (addr_of s, a_disp, WDisp m, [])
  | "reg" :: s :: rest ->
      let m = match rest with
        | ["add"; v] -> GAdd (val_of v)
        | ["remove"; v] -> GRemove (val_of v)
        | ["config"; h] -> GConfig (opt addr_of h)
        | ["redelegations"; v] -> GRedelegations (val_of v)
        | ["setowner"; a] -> GSetOwner (addr_of a)
        | ["accept"] -> GAccept
        | _ -> failwith ("bad reg op: " ^ line) in
      OTx (addr_of s, a_reg, WReg m, [])
  | _ -> failwith ("bad op: " ^ line)

(* ---------- printing ---------- *)

let parse_op (line : string) : op =
  parse_toks (List.filter (fun s -> s <> "") (String.split_on_char ' ' line))

let buf = Buffer.create (1 lsl 20)
let pr fmt = Printf.bprintf buf fmt
let flush_buf () = print_string (Buffer.contents buf); Buffer.clear buf

let coins_str = function
  | [] -> "-"
  | cs -> String.concat "," (List.map (fun (d, x) -> dname d ^ ":" ^ sn x) cs)

let hub_tag = function
  | HBond -> "bond" | HBondSt -> "bond_for_st_sei" | HBondRewards -> "bond_rewards"
  | HUpdateGlobal _ -> "update_global_index" | HWithdraw -> "withdraw_unbonded"
  | HCheckSlashing -> "check_slashing" | HParams _ -> "update_params" | HConfig _ -> "update_config"
  | HSetOwner _ -> "set_owner" | HAccept -> "accept_ownership" | HRedelProxy _ -> "redelegate_proxy"
  | HSwapHook _ -> "swap_hook" | HClaimAirdrop _ -> "claim_airdrop"
  | HMigrate _ -> "migrate_unbond_wait_list" | HReceive _ -> "receive"
let reward_tag = function
  | RClaim _ -> "claim_rewards" | RConfig _ -> "update_config" | RSetOwner _ -> "set_owner"
  | RAccept -> "accept_ownership" | RSwap -> "swap_to_reward_denom"
  | RUpdateIndex -> "update_global_index" | RInc _ -> "increase_balance"
  | RDec _ -> "decrease_balance" | RSwapDenom _ -> "update_swap_denom"
let disp_tag = function
  | DSwap _ -> "swap_to_reward_denom" | DDispatch -> "dispatch_rewards" | DConfig _ -> "update_config"
  | DSetOwner _ -> "set_owner" | DAccept -> "accept_ownership"
  | DSwapContract _ -> "update_swap_contract" | DSwapDenom _ -> "update_swap_denom"
  | DOracle _ -> "update_oracle_contract"
let reg_tag = function
  | GAdd _ -> "add_validator" | GRemove _ -> "remove_validator" | GConfig _ -> "update_config"
  | GRedelegations _ -> "redelegations" | GSetOwner _ -> "set_owner" | GAccept -> "accept_ownership"
let cw_tag = function
  | CTransfer _ -> "transfer" | CBurn _ -> "burn" | CMint _ -> "mint" | CSend _ -> "send"
  | CIncAllow _ -> "increase_allowance" | CDecAllow _ -> "decrease_allowance"
  | CTransferFrom _ -> "transfer_from" | CBurnFrom _ -> "burn_from" | CSendFrom _ -> "send_from"
  | CUpdMinter _ -> "update_minter"
let wasm_tag = function
  | WHub m -> hub_tag m | WReward m -> reward_tag m | WDisp m -> disp_tag m | WReg m -> reg_tag m
  | WCw20 m -> cw_tag m | WSwap _ -> "swap_denom" | WOpaque -> "opaque"

let print_trace (tr : (addr * cmsg) list) =
  List.iter (fun (s, m) ->
      match m with
      | MWasm (to_, wm, funds) ->
          pr "m wasm %s %s %s %s\n" (name_of s) (name_of to_) (wasm_tag wm) (coins_str funds)
      | MBank (to_, cs) -> pr "m bank %s %s %s\n" (name_of s) (name_of to_) (coins_str cs)
      | MDelegate (v, c) -> pr "m delegate %s %s %s\n" (name_of s) (vname v) (sn (snd c))
      | MUndelegate (v, c) -> pr "m undelegate %s %s %s\n" (name_of s) (vname v) (sn (snd c))
      | MRedelegate (a, b, c) ->
          pr "m redelegate %s %s %s %s\n" (name_of s) (vname a) (vname b) (sn (snd c))
      | MWithdrawReward v -> pr "m withdraw %s %s\n" (name_of s) (vname v)
      | MSetWithdrawAddr a -> pr "m setwithdraw %s %s\n" (name_of s) (name_of a))
    tr

let exp_str = function
  | ExpNever -> "never" | ExpHeight h -> "h" ^ sn h | ExpTime t -> "t" ^ sn t
let is_zero = function N0 -> true | _ -> false
let b01 b = if b then "1" else "0"

let state_str (s : hub_state) =
  Printf.sprintf "%s %s %s %s %s %s %s %s" (sn s.hs_ber) (sn s.hs_ser) (sn s.hs_bb) (sn s.hs_bst)
    (sn s.hs_lim) (sn s.hs_phb) (sn s.hs_lut) (sn s.hs_lpb)

(* ---------- listing order and paging (PROTOCOL.md section 5, "Paged listings") ----------
   The listing queries (reward Holders, cw20 AllAccounts / AllAllowances / AllSpenderAllowances)
   return the entries of a storage map in ascending byte order of the map KEY.  The model keeps
   these maps as association lists in insertion order, so the printer sorts the model's entries the
   way the storage does:
   - bSei (cw20-legacy BALANCES / ALLOWANCES) and the reward HOLDERS map are keyed by the CANONICAL
     address; the mock API's canonical form (lower-cased name, zero-padded, rotated and
     digit-shuffled) does not order like the names.  [canon_order] lists ADDRS in ascending byte
     order of `addr_canonicalize`; it is the last line printed by `krp-harness canon-order`
     (harness/src/main.rs), which computes it with the very `Api` object the contracts are run with;
   - stSei (cw20-base) keys its maps by the `Addr` string: byte order of the names.
   No model data is changed, only the order of printing. *)
let canon_order = [| "keeper"; "stsei"; "owner"; "reward"; "nobody"; "airdrop"; "updater"; "user0";
                     "user1"; "hub"; "reg"; "user4"; "user5"; "user3"; "user2"; "user7"; "user6";
                     "bsei"; "disp"; "swap"; "oracle" |]
let canon_rank =
  let r = Array.make (Array.length addrs) (-1) in
  Array.iteri (fun rank nm -> r.(index_of addrs nm) <- rank) canon_order;
  Array.iter (fun x -> if x < 0 then failwith "canon_order is not a permutation of ADDRS") r;
  r
let rank_canon (a : addr) =
  let i = int_of_n a in
  if i >= 1 && i <= Array.length addrs then canon_rank.(i - 1) else max_int
let cmp_canon a b = compare (rank_canon a) (rank_canon b)
let cmp_name a b = compare (name_of a) (name_of b)
let sort_by cmp key l = List.stable_sort (fun x y -> cmp (key x) (key y)) l

(* page K (0-based) holds 2 entries if K is even, 3 if odd: entry number i is on page [page_of i] *)
let page_of i = 2 * (i / 5) + (if i mod 5 < 2 then 0 else 1)
let rec take n = function [] -> [] | x :: r -> if n <= 0 then [] else x :: take (n - 1) r
let default_limit = 10

let dump_token name (base : bool) (t : token option) =
  let cmp = if base then cmp_name else cmp_canon in
  match t with
  | None -> pr "tok.%s.none\n" name
  | Some t ->
      let (mn, cap) = match t.tk_minter with
        | None -> ("-", "-")
        | Some (a, c) -> (name_of a, match c with None -> "-" | Some x -> sn x) in
      pr "tok.%s.info %s %s %s\n" name (sn t.tk_supply) mn cap;
      (* name, symbol, decimals are constants of the protocol (3.2), not model state *)
      pr "tok.%s.meta %s_token %s 6\n" name name (String.uppercase_ascii name);
      Array.iter (fun a ->
          let b = tbal t a in
          if not (is_zero b) then pr "tok.%s.bal %s %s\n" name (name_of a) (sn b)) addr_tbl;
      (* AllAccounts: every address with a stored balance entry (also 0), in key order *)
      let accts = sort_by cmp (fun a -> a) (List.map fst t.tk_bal) in
      List.iteri (fun i a -> pr "tok.%s.accounts %d %s\n" name (page_of i) (name_of a)) accts;
      pr "tok.%s.accounts.def%s\n" name
        (String.concat "" (List.map (fun a -> " " ^ name_of a) (take default_limit accts)));
      Array.iter (fun o ->
          Array.iter (fun s ->
              match get eqbNN t.tk_allow (o, s) with
              | None -> ()
              | Some al ->
                  if is_zero al.al_amt && al.al_exp = ExpNever then ()
                  else pr "tok.%s.allow %s %s %s %s\n" name (name_of o) (name_of s) (sn al.al_amt)
                      (exp_str al.al_exp)) addr_tbl) addr_tbl;
      (* AllAllowances per owner: every stored entry (also amount 0 / never), spenders in key order *)
      Array.iter (fun o ->
          let l = List.filter (fun ((o', _), _) -> o' = o) t.tk_allow in
          let l = sort_by cmp (fun ((_, s), _) -> s) l in
          List.iteri (fun i ((_, s), al) ->
              pr "tok.%s.allallow %s %d %s %s %s\n" name (name_of o) (page_of i) (name_of s)
                (sn al.al_amt) (exp_str al.al_exp)) l;
          if l <> [] then
            pr "tok.%s.allallow.def %s%s\n" name (name_of o)
              (String.concat "" (List.map (fun ((_, s), _) -> " " ^ name_of s) (take default_limit l))))
        addr_tbl;
      if base then begin
        (* AllSpenderAllowances (cw20-base keeps a reverse map; the model has the one map) *)
        Array.iter (fun s ->
            let l = List.filter (fun ((_, s'), _) -> s' = s) t.tk_allow in
            let l = sort_by cmp (fun ((o, _), _) -> o) l in
            List.iteri (fun i ((o, _), al) ->
                pr "tok.%s.spallow %s %d %s %s %s\n" name (name_of s) (page_of i) (name_of o)
                  (sn al.al_amt) (exp_str al.al_exp)) l)
          addr_tbl;
        (* marketing data is fixed by inst_stsei (MK = 2 is the only accepted form): project,
           description, logo None, marketing = owner; no logo is ever uploaded *)
        pr "tok.%s.marketing - - - owner\n" name;
        pr "tok.%s.logo -\n" name
      end

let dump (w : world) =
  let e = w.w_env in
  pr "t %s\n" (sn e.e_now);
  (match w.w_hub with
   | None -> pr "hub.none\n"
   | Some h ->
       let c = h.h_cfg in
       pr "hub.cfg %s %s %s %s %s %s %s %s\n" (name_of c.hc_creator) (name_of c.hc_updater)
         (name_opt c.hc_disp) (name_opt c.hc_reg) (name_opt c.hc_bsei) (name_opt c.hc_stsei)
         (name_opt c.hc_airdrop) (name_opt c.hc_rewards);
       (* Config query: no rewards contract, `token_contract` = the bSei token again *)
       pr "hub.qcfg %s %s %s %s %s %s %s %s\n" (name_of c.hc_creator) (name_of c.hc_updater)
         (name_opt c.hc_disp) (name_opt c.hc_reg) (name_opt c.hc_bsei) (name_opt c.hc_stsei)
         (name_opt c.hc_airdrop) (name_opt c.hc_bsei);
       pr "hub.newowner %s\n" (name_of h.h_newowner);
       pr "hub.qnewowner %s\n" (name_of h.h_newowner);
       let p = h.h_params in
       let params_str =
         Printf.sprintf "%s %s %s %s %s %s %s" (sn p.hp_epoch) (dname p.hp_underlying)
           (sn p.hp_unbonding) (sn p.hp_pegfee) (sn p.hp_thr) (dname p.hp_rdenom)
           (match p.hp_paused with None -> "-" | Some b -> b01 b) in
       pr "hub.params %s\n" params_str;
       pr "hub.qparams %s\n" params_str;
       pr "hub.stored %s\n" (state_str h.h_state);
       (* hub.qdep: the deprecated alias fields exchange_rate / total_bond_amount of the State
          response and requested_with_fee of the CurrentBatch response *)
       (match hub_query_state w a_hub with
        | None -> pr "hub.state err\n"; pr "hub.qdep err err %s\n" (sn h.h_batch.cb_reqb)
        | Some s ->
            pr "hub.state %s\n" (state_str s);
            pr "hub.qdep %s %s %s\n" (sn s.hs_ber) (sn s.hs_bb) (sn h.h_batch.cb_reqb));
       pr "hub.batch %s %s %s\n" (sn h.h_batch.cb_id) (sn h.h_batch.cb_reqb) (sn h.h_batch.cb_reqst);
       List.iter (fun (i, he) ->
           pr "hub.hist %s %s %s %s %s %s %s %s %s\n" (sn i) (sn he.he_time) (sn he.he_bamt)
             (sn he.he_bapplied) (sn he.he_bwithdraw) (sn he.he_samt) (sn he.he_sapplied)
             (sn he.he_swithdraw) (b01 he.he_released)) h.h_hist;
       (* hub.qhist: the model's AllHistory query, paged like the harness pages it (first four
          pages, limits 2,3,2,3, cursor = last id of the previous page), with the default and with
          the maximal limit; the alias fields are the bSei fields *)
       let rec pages k start =
         if k < 4 then begin
           let lim = if k mod 2 = 0 then 2 else 3 in
           let l = hub_query_history h start (Some (n_of_int lim)) in
           List.iter (fun (i, he) ->
               pr "hub.qhist %d %s %s %s %s\n" k (sn i) (sn he.he_bamt) (sn he.he_bapplied)
                 (sn he.he_bwithdraw)) l;
           if List.length l >= lim then
             pages (k + 1) (Some (fst (List.nth l (List.length l - 1))))
         end in
       pages 0 None;
       pr "hub.qhist.def%s\n"
         (String.concat "" (List.map (fun (i, _) -> " " ^ sn i) (hub_query_history h None None)));
       (let l = hub_query_history h None (Some (n_of_int 1000)) in
        pr "hub.qhist.max %d %s\n" (List.length l)
          (match List.rev l with [] -> "-" | (i, _) :: _ -> sn i));
       Array.iter (fun a ->
           let ws = user_waits h a in
           let ws = List.map (fun (b, x) -> (z_of_n b, x)) ws in
           let ws = List.sort (fun (b1, _) (b2, _) -> Z.compare b1 b2) ws in
           List.iter (fun (b, (x, y)) ->
               pr "hub.wait %s %s %s %s\n" (name_of a) (Z.to_string b) (sn x) (sn y)) ws) addr_tbl;
       Array.iter (fun a ->
           match hub_query_withdrawable w a with
           | None -> pr "hub.wd %s err\n" (name_of a)
           | Some x -> if not (is_zero x) then pr "hub.wd %s %s\n" (name_of a) (sn x)) addr_tbl;
       pr "hub.oldwait %d\n" (List.length h.h_oldwait));
  dump_token "bsei" false w.w_bsei;
  dump_token "stsei" true w.w_stsei;
  (match w.w_reward with
   | None -> pr "rw.none\n"
   | Some r ->
       pr "rw.cfg %s %s %s %s %d%s\n" (name_of r.rw_owner) (name_of r.rw_hub) (dname r.rw_denom)
         (name_of r.rw_swap) (List.length r.rw_denoms)
         (String.concat "" (List.map (fun d -> " " ^ dname d) r.rw_denoms));
       pr "rw.qcfg %s %s %s %s\n" (name_of r.rw_owner) (name_of r.rw_hub) (dname r.rw_denom)
         (name_of r.rw_swap);
       pr "rw.newowner %s\n" (name_of r.rw_newowner);
       pr "rw.qnewowner %s\n" (name_of r.rw_newowner);
       pr "rw.state %s %s %s\n" (sn r.rw_gi) (sn r.rw_total) (sn r.rw_prev);
       pr "rw.qstate %s %s %s\n" (sn r.rw_gi) (sn r.rw_total) (sn r.rw_prev);
       Array.iter (fun a ->
           let h = holder_of r a in
           if not (is_zero h.ho_bal && is_zero h.ho_idx && is_zero h.ho_pend) then
             pr "rw.holder %s %s %s %s\n" (name_of a) (sn h.ho_bal) (sn h.ho_idx) (sn h.ho_pend))
         addr_tbl;
       (* Holders: every stored holder entry (also all-zero ones), in canonical-address order *)
       let hs = sort_by cmp_canon fst r.rw_holders in
       List.iteri (fun i (a, h) ->
           pr "rw.qholders %d %s %s %s %s\n" (page_of i) (name_of a) (sn h.ho_bal) (sn h.ho_idx)
             (sn h.ho_pend)) hs;
       pr "rw.qholders.def%s\n"
         (String.concat "" (List.map (fun (a, _) -> " " ^ name_of a) (take default_limit hs)));
       Array.iter (fun a ->
           match query_accrued r a with
           | None -> ()
           | Some x -> if not (is_zero x) then pr "rw.accrued %s %s\n" (name_of a) (sn x)) addr_tbl);
  (match w.w_disp with
   | None -> pr "dp.none\n"
   | Some d ->
       let cfg_str =
         Printf.sprintf "%s %s %s %s %s %s %s %s %s %d%s" (name_of d.dp_owner) (name_of d.dp_hub)
           (name_of d.dp_reward) (dname d.dp_std) (dname d.dp_bd) (name_of d.dp_keeper) (sn d.dp_rate)
           (name_of d.dp_swap) (name_of d.dp_oracle) (List.length d.dp_denoms)
           (String.concat "" (List.map (fun x -> " " ^ dname x) d.dp_denoms)) in
       pr "dp.cfg %s\n" cfg_str;
       pr "dp.qcfg %s\n" cfg_str;
       pr "dp.newowner %s\n" (name_of d.dp_newowner);
       pr "dp.qnewowner %s\n" (name_of d.dp_newowner));
  (match w.w_reg with
   | None -> pr "rg.none\n"
   | Some g ->
       pr "rg.cfg %s %s\n" (name_of g.rg_owner) (name_of g.rg_hub);
       pr "rg.qcfg %s %s\n" (name_of g.rg_owner) (name_of g.rg_hub);
       pr "rg.newowner %s\n" (name_of g.rg_newowner);
       pr "rg.qnewowner %s\n" (name_of g.rg_newowner);
       (match reg_validators_for_delegation w with
        | None -> pr "rg.vals err\n"
        | Some l ->
            pr "rg.vals%s\n"
              (String.concat "" (List.map (fun (v, x) -> " " ^ vname v ^ ":" ^ sn x) l))));
  Array.iter (fun a ->
      Array.iter (fun d ->
          let b = bal e a d in
          if not (is_zero b) then pr "bank %s %s %s\n" (name_of a) (dname d) (sn b)) denom_tbl)
    addr_tbl;
  Array.iter (fun a ->
      Array.iter (fun v ->
          match delegation e a v with
          | None -> ()
          | Some x -> pr "del %s %s %s\n" (name_of a) (vname v) (sn x)) val_tbl) addr_tbl;
  List.iter (fun (((x, v), amt), t) ->
      pr "unb %s %s %s %s\n" (name_of x) (vname v) (sn amt) (sn t)) e.e_unb;
  Array.iter (fun a ->
      Array.iter (fun v ->
          Array.iter (fun d ->
              let p = pending e a v d in
              if not (is_zero p) then
                pr "pend %s %s %s %s\n" (name_of a) (vname v) (dname d) (sn p)) denom_tbl) val_tbl)
    addr_tbl;
  Array.iter (fun a ->
      let wa = withdraw_addr e a in
      if wa <> a then pr "wdaddr %s %s\n" (name_of a) (name_of wa)) addr_tbl;
  pr "env %s %s %s %s %s\n" (sn e.e_ut) (sn e.e_price)
    (match e.e_swapmode with SwOk -> "ok" | SwFail -> "fail" | SwGarbage -> "garbage")
    (match e.e_oraclemode with OrOk -> "ok" | OrFail -> "fail" | OrZero -> "zero")
    (String.concat "" (Array.to_list (Array.map (fun v -> b01 (can_redelegate e v)) val_tbl)))

(* ---------- state injection (PROTOCOL.md 3.4) ----------
   The `poke_*` operations are NOT constructors of the Coq type `op` (Model/Exec.v is unchanged):
   they are applied here, directly to the extracted world record.  No model arithmetic is involved
   beyond "supply + new - old" (done in Z).  Result: Some world' (ok) or None (err, nothing changes). *)
let max128 = Z.pred (Z.shift_left Z.one 128)

(* supply' = supply + amt - old, None if negative or above 2^128-1 *)
let moved total old amt =
  let r = Z.sub (Z.add (z_of_n total) (z_of_n amt)) (z_of_n old) in
  if Z.sign r < 0 || Z.gt r max128 then None else Some (n_of_z r)

let is_poke line =
  (String.length line >= 5 && String.sub line 0 5 = "poke_")
  || (String.length line >= 8 && String.sub line 0 8 = "migrate ")

let apply_poke (w : world) (line : string) : world option =
  let toks = List.filter (fun s -> s <> "") (String.split_on_char ' ' line) in
  let with_hub f = match w.w_hub with None -> None | Some h -> Some { w with w_hub = Some (f h) } in
  let with_env f = Some { w with w_env = f w.w_env } in
  match toks with
  (* `migrate C`: every migrate entry point of the contracts is `Ok(Response::new())` and is not
     modelled (DESIGN.md 3.1): the model's reading is "an instantiated contract accepts it and
     nothing changes" *)
  | ["migrate"; c] ->
      let present = (match c with
        | "hub" -> w.w_hub <> None | "reward" -> w.w_reward <> None | "disp" -> w.w_disp <> None
        | "reg" -> w.w_reg <> None | "bsei" -> w.w_bsei <> None
        | _ -> failwith ("migrate: unknown contract " ^ c)) in
      if present then Some w else None
  | ["poke_hubstate"; ber; ser; bb; bst; lim; phb; lut; lpb] ->
      let s = { hs_ber = pn ber; hs_ser = pn ser; hs_bb = pn bb; hs_bst = pn bst; hs_lim = pn lim;
                hs_phb = pn phb; hs_lut = pn lut; hs_lpb = pn lpb } in
      with_hub (fun h -> { h with h_state = s })
  | ["poke_batch"; id; rb; rst] ->
      let b = { cb_id = pn id; cb_reqb = pn rb; cb_reqst = pn rst } in
      with_hub (fun h -> { h with h_batch = b })
  | ["poke_hist"; id; time; bamt; bapp; bwd; samt; sapp; swd; rel] ->
      let e = { he_time = pn time; he_bamt = pn bamt; he_bapplied = pn bapp; he_bwithdraw = pn bwd;
                he_samt = pn samt; he_sapplied = pn sapp; he_swithdraw = pn swd;
                he_released = parse_bool01 rel } in
      with_hub (fun h -> { h with h_hist = hist_put h.h_hist (pn id) e })
  | ["poke_wait"; a; batch; b; st] ->
      let k = (addr_of a, pn batch) in
      let (b, st) = (pn b, pn st) in
      with_hub (fun h ->
          if is_zero b && is_zero st then { h with h_wait = del eqbAN h.h_wait k }
          else { h with h_wait = set eqbAN h.h_wait k (b, st) })
  | ["poke_tokbal"; t; a; amt] ->
      let a = addr_of a and amt = pn amt in
      let upd (tk : token) =
        match moved tk.tk_supply (tbal tk a) amt with
        | None -> None
        | Some s' -> Some { tk with tk_supply = s'; tk_bal = set eqbA tk.tk_bal a amt } in
      (match t with
       | "bsei" -> (match w.w_bsei with None -> None | Some tk ->
           (match upd tk with None -> None | Some tk' -> Some { w with w_bsei = Some tk' }))
       | "stsei" -> (match w.w_stsei with None -> None | Some tk ->
           (match upd tk with None -> None | Some tk' -> Some { w with w_stsei = Some tk' }))
       | _ -> failwith ("bad token " ^ t))
  | ["poke_holder"; a; bal; idx; pend] ->
      let a = addr_of a and bal = pn bal in
      (match w.w_reward with
       | None -> None
       | Some r ->
           (match moved r.rw_total (holder_of r a).ho_bal bal with
            | None -> None
            | Some tot ->
                let h = { ho_bal = bal; ho_idx = pn idx; ho_pend = pn pend } in
                Some { w with w_reward =
                                Some { r with rw_total = tot; rw_holders = set eqbA r.rw_holders a h } }))
  | ["poke_rwstate"; gi; total; prev] ->
      (match w.w_reward with
       | None -> None
       | Some r -> Some { w with w_reward = Some { r with rw_gi = pn gi; rw_total = pn total;
                                                          rw_prev = pn prev } })
  | ["poke_del"; a; v; amt] ->
      with_env (fun e -> { e with e_del = set eqbNN e.e_del (addr_of a, val_of v) (pn amt) })
  | ["poke_unb"; a; v; amt; t] ->
      with_env (fun e -> { e with e_unb = e.e_unb @ [(((addr_of a, val_of v), pn amt), pn t)] })
  | ["poke_pend"; a; v; d; amt] ->
      with_env (fun e ->
          { e with e_pend = set eqbAVD e.e_pend (addr_of a, (val_of v, denom_of d)) (pn amt) })
  | _ -> failwith ("bad poke op: " ^ line)

(* ---------- run ---------- *)
let is_tx = function OTx _ -> true | _ -> false

let run_file path =
  let ic = if path = "-" then stdin else open_in path in
  let w = ref (empty_world N0) in
  let idx = ref 0 in
  (try
     while true do
       let line = String.trim (input_line ic) in
       if line = "" || line.[0] = '#' then ()
       else if is_poke line then begin
         let r = (try apply_poke !w line with Failure m ->
             prerr_endline ("parse error: " ^ m ^ " in: " ^ line); exit 2) in
         (match r with Some w' -> w := w' | None -> ());
         pr "op %d %s\n" !idx (match r with Some _ -> "ok" | None -> "err");
         dump !w;
         pr "end\n";
         incr idx;
         if Buffer.length buf > (1 lsl 19) then flush_buf ()
       end
       else begin
         let o = (try parse_op line with Failure m ->
             prerr_endline ("parse error: " ^ m ^ " in: " ^ line); exit 2) in
         (match o with OReset _ -> idx := 0 | _ -> ());
         let (w', (ok, tr)) = step !w o in
         w := w';
         pr "op %d %s\n" !idx (if ok then "ok" else "err");
         if ok && is_tx o then print_trace tr;
         dump !w;
         pr "end\n";
         incr idx;
         if Buffer.length buf > (1 lsl 19) then flush_buf ()
       end
     done
   with End_of_file -> ());
  flush_buf ()

(* ---------- kernel streams ---------- *)
let parse_list s =
  let n = String.length s in
  if n < 2 || s.[0] <> '[' || s.[n - 1] <> ']' then failwith ("bad list " ^ s);
  let inner = String.sub s 1 (n - 2) in
  if inner = "" then [] else List.map pn (String.split_on_char ',' inner)
let list_str l = "[" ^ String.concat "," (List.map sn l) ^ "]"

let kernel name =
  (try
     while true do
       let line = input_line stdin in
       let args =
         match String.index_opt line '=' with
         | Some i when i + 1 < String.length line && line.[i + 1] = '>' ->
             String.trim (String.sub line 0 i)
         | _ -> String.trim line in
       let toks = List.filter (fun s -> s <> "") (String.split_on_char ' ' args) in
       let res =
         match name, toks with
         | "deleg", [a; l] ->
             (match deleg (pn a) (parse_list l) with
              | None -> "err" | Some (r, xs) -> sn r ^ " " ^ list_str xs)
         | "undeleg", [a; l] ->
             (match undeleg (pn a) (parse_list l) with None -> "err" | Some ys -> list_str ys)
         | "ddiv", [a; r] -> (match ddiv (pn a) (pn r) with None -> "err" | Some x -> sn x)
         | "nwr", [amt; rate; total; sl; neg] ->
             (match new_withdraw_rate (pn amt) (pn rate) (pn total) (pn sl) (parse_bool01 neg) with
              | None -> "err" | Some x -> sn x)
         | "swapinfo", [stb; bb; rst; rb; xb2st; xst2b] ->
             (match swap_info usei uusd (pn stb) (pn bb) (pn rst) (pn rb) (pn xb2st) (pn xst2b) with
              | None -> "err"
              | Some ((od, oa), ask) -> dname od ^ " " ^ sn oa ^ " " ^ dname ask)
         | "drewards", [g; u; b] ->
             (match decimal_rewards (pn g) (pn u) (pn b) with None -> "err" | Some x -> sn x)
         | _ -> failwith ("bad kernel line: " ^ line) in
       print_string (args ^ " => " ^ res ^ "\n")
     done
   with End_of_file -> ())

let () =
  match Array.to_list Sys.argv with
  | [_; "run"; path] -> run_file path
  | [_; "kernel"; name] -> kernel name
  | _ -> prerr_endline "usage: driver run OPSFILE | driver kernel NAME < lines"; exit 2
