import random, sys
D=10**18
def mulU(a,r): return a*r//D
def new_rate(a, r, U, sl, neg, fixed):
    u = mulU(a,r)
    w = (u*D//U) if U!=0 else 0
    s = w*sl//D
    if neg:
        s = s-1 if s>1 else 0
        act = u+s
    else:
        if sl!=0: s+=1
        act = (abs(u-s) if not fixed else max(0,u-s))
    return (act*D//a) if a!=0 else r
def release(batches, A, fixed):
    # batches: list of (a_st, r_st, a_b, r_b)
    Ust=sum(mulU(b[0],b[1]) for b in batches); Ub=sum(mulU(b[2],b[3]) for b in batches)
    bratio=0
    if Ust+Ub>0:
        bratio = D - (Ust*D//(Ust+Ub))
    Ab = A*bratio//D
    Ast = A-Ab
    def sg(x,y): return (x-y,False) if x>=y else (y-x,True)
    slb,negb=sg(Ub,Ab); slst,negst=sg(Ust,Ast)
    paid=0; res=[]
    for (ast,rst,ab,rb) in batches:
        r1=new_rate(ast,rst,Ust,slst,negst,fixed); r2=new_rate(ab,rb,Ub,slb,negb,fixed)
        paid+=mulU(ast,r1)+mulU(ab,r2); res.append((r1,r2))
    return paid, Ust, Ub, slst, slb
random.seed(int(sys.argv[1])); fixed = sys.argv[2]=="fixed"
cnt=0; viol=0; ex=None; maxdust=0
for it in range(300000):
    n=random.randint(1,5)
    top=10**random.choice([1,2,3,6,12,17])
    bs=[]
    for i in range(n):
        def rr(): return random.choice([D, D, random.randint(D//2,D), D-random.randint(1,1000), random.randint(1,D)])
        ast=random.choice([0,0,1,random.randint(0,top)]); ab=random.choice([0,1,random.randint(0,top)])
        bs.append((ast,rr(),ab,rr()))
    U=sum(mulU(b[0],b[1])+mulU(b[2],b[3]) for b in bs)
    mode=random.random()
    if mode<0.3: A=U
    elif mode<0.7: A=random.randint(0,U)
    else: A=U+random.randint(0,max(1,U//10))
    paid,Ust,Ub,slst,slb=release(bs,A,fixed)
    cnt+=1
    if paid>A:
        viol+=1
        if ex is None or len(bs)<len(ex[0]): ex=(bs,A,paid)
    if A==U and paid<=A: maxdust=max(maxdust,(A-paid)/max(1,sum((b[0]>0)+(b[2]>0) for b in bs)))
print("fixed" if fixed else "orig","cases",cnt,"violations",viol,"example",ex,"max dust per claim (no slash)",maxdust)
