From Coq Require Import ZArith Lia List.
Import ListNotations.
Open Scope Z_scope.

Section G.
Variables (D U L : Z).
Hypotheses (HD : 0 < D) (HU : 0 < U) (HL : 0 <= L <= U).

Definition w (u : Z) := u * D / U.
Definition e (u : Z) := (u * D) mod U.
Definition s (u : Z) := w u * L / D + 1.
Definition m (u : Z) := Z.min (s u) u.
Definition sc (u : Z) := if s u <=? u then 1 else 0.

Fixpoint sum (f : Z -> Z) (l : list Z) : Z := match l with [] => 0 | x :: t => f x + sum f t end.

Lemma pointwise u : 0 <= u ->
  m u * D * U + e u * L >= u * D * L + sc u * U.
Proof.
  intros Hu. unfold m, sc, s, w, e.
  pose proof (Z.div_mod (u * D) U ltac:(lia)) as E1.
  pose proof (Z.mod_pos_bound (u * D) U HU) as B1.
  set (q := u * D / U) in *. set (r := (u * D) mod U) in *.
  pose proof (Z.div_mod (q * L) D ltac:(lia)) as E2.
  pose proof (Z.mod_pos_bound (q * L) D HD) as B2.
  set (q2 := q * L / D) in *. set (r2 := (q * L) mod D) in *.
  destruct (Z.leb_spec (q2 + 1) u) as [Hle|Hgt].
  - rewrite Z.min_l by lia.
    (* (q2+1)*D*U = (q*L - r2 + D)*U >= q*L*U + U ; q*U = u*D - r *)
    assert ((q2 + 1) * D = q * L - r2 + D) by lia.
    assert (q * U = u * D - r) by lia.
    nia.
  - rewrite Z.min_r by lia. nia.
Qed.

Lemma sum_ge f g l : (forall x, In x l -> f x >= g x) -> sum f l >= sum g l.
Proof. induction l as [|x l IH]; cbn; intros H; [lia|].
  pose proof (H x (or_introl eq_refl)). assert (sum f l >= sum g l) by (apply IH; intros; apply H; now right). lia. Qed.

Lemma sum_lin (f : Z -> Z) c l : sum (fun x => f x * c) l = sum f l * c.
Proof. induction l as [|x l IH]; cbn; [lia|]. rewrite IH. lia. Qed.
Lemma sum_add (f g : Z -> Z) l : sum (fun x => f x + g x) l = sum f l + sum g l.
Proof. induction l as [|x l IH]; cbn; [lia|]. rewrite IH. lia. Qed.

Lemma e_sum l : (forall x, In x l -> 0 <= x) -> sum (fun x => x) l = U ->
  exists g, sum e l = U * g /\ 0 <= g /\ g <= Z.of_nat (length l) - 1.
Proof.
  intros Hpos HS.
  assert (Hw : sum (fun x => x * D) l = sum w l * U + sum e l).
  { clear HS. induction l as [|x l IH]; cbn; [lia|].
    rewrite IH by (intros; apply Hpos; now right).
    unfold w, e. pose proof (Z.div_mod (x * D) U ltac:(lia)). lia. }
  rewrite sum_lin, HS in Hw.
  assert (He : 0 <= sum e l /\ (l <> [] -> sum e l < U * Z.of_nat (length l))).
  { clear - HU. induction l as [|x l [IH1 IH2]]; cbn [sum length]; [split; [lia|congruence]|].
    pose proof (Z.mod_pos_bound (x * D) U HU). unfold e at 1 3. split; [lia|]. intros _.
    destruct l as [|y l']; [cbn in *; lia|]. specialize (IH2 ltac:(congruence)). cbn [sum] in *. lia. }
  exists (D - sum w l). destruct He as [He1 He2].
  assert (l <> []) by (intros ->; cbn in HS; lia).
  specialize (He2 H). split; [lia|]. split; nia.
Qed.

Theorem deductions_cover l :
  (forall x, In x l -> 0 <= x) -> sum (fun x => x) l = U ->
  (Z.of_nat (length l) - 1) * L <= D ->
  sum m l >= L.
Proof.
  intros Hpos HS HE.
  destruct (e_sum l Hpos HS) as (g & Hg & Hg0 & Hg1).
  assert (P : sum (fun u => m u * D * U + e u * L) l >= sum (fun u => u * D * L + sc u * U) l)
    by (apply sum_ge; intros; apply pointwise; auto).
  rewrite !sum_add in P.
  assert (A1 : sum (fun u => m u * D * U) l = sum m l * D * U).
  { rewrite <- sum_lin. rewrite <- sum_lin. reflexivity. }
  assert (A2 : sum (fun u => e u * L) l = sum e l * L) by apply sum_lin.
  assert (A3 : sum (fun u => u * D * L) l = U * D * L).
  { rewrite <- HS. rewrite <- sum_lin, <- sum_lin. reflexivity. }
  assert (A4 : sum (fun u => sc u * U) l = sum sc l * U) by apply sum_lin.
  rewrite A1, A2, A3, A4, Hg in P.
  assert (Hc : 0 <= sum sc l).
  { clear. induction l; cbn; [lia|]. unfold sc at 1. destruct (_ <=? _); lia. }
  assert (Q : sum m l * D + g * L >= D * L + sum sc l) by nia.
  destruct (Z.eq_dec (sum sc l) 0) as [Hz|Hnz].
  - (* no s-case: m = id on l *)
    assert (sum m l = sum (fun x => x) l).
    { clear - Hz Hpos. induction l as [|x l IH]; cbn in *; [lia|].
      assert (0 <= sum sc l) by (clear; induction l; cbn; [lia|]; unfold sc at 1; destruct (_ <=? _); lia).
      unfold sc at 1 in Hz. unfold m at 1. destruct (Z.leb_spec (s x) x); [lia|].
      rewrite Z.min_r by lia. rewrite IH; [lia| intros; apply Hpos; now right | lia]. }
    lia.
  - assert (g * L <= D) by nia. nia.
Qed.
End G.
Print Assumptions deductions_cover.
