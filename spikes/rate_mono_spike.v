From Coq Require Import ZArith Lia List.
Open Scope Z_scope.
Ltac Zify.zify_post_hook ::= Z.div_mod_to_equations.
(* reported rate monotone under bond: r = floor(B*D/S), m = floor(p*D/r) *)
Lemma bond_rate_mono (D B S p : Z) :
  0 < D -> 0 < B -> 0 < S -> 0 <= p ->
  let r := B * D / S in 0 < r ->
  let m := p * D / r in
  r <= (B + p) * D / (S + m).
Proof.
  intros HD HB HS Hp r Hr m.
  assert (H1 : r * S <= B * D) by (subst r; rewrite Z.mul_comm; apply Z.mul_div_le; lia).
  assert (H2 : m * r <= p * D) by (subst m; rewrite Z.mul_comm; apply Z.mul_div_le; lia).
  assert (Hm : 0 <= m) by (subst m; apply Z.div_pos; nia).
  apply Z.div_le_lower_bound; [lia|]. nia.
Qed.
(* undelegation keeps rate *)
Lemma undel_rate_mono (D B S q : Z) :
  0 < D -> 0 <= B -> 0 < S -> 0 <= q < S ->
  let r := B * D / S in
  let u := q * r / D in
  r <= (B - u) * D / (S - q).
Proof.
  intros HD HB HS Hq r u.
  assert (H1 : r * S <= B * D) by (subst r; rewrite Z.mul_comm; apply Z.mul_div_le; lia).
  assert (H2 : u * D <= q * r) by (subst u; rewrite Z.mul_comm; apply Z.mul_div_le; lia).
  apply Z.div_le_lower_bound; [lia|]. nia.
Qed.
Print Assumptions bond_rate_mono.
