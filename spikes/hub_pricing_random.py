import random, sys
D=10**18
def mulU(a,r): return a*r//D
def ratio(a,b): return a*D//b
def ddiv(a,r): return a*D//r
def rate(B,S): return D if (B==0 or S==0) else ratio(B,S)
class Panic(Exception): pass
def sub(a,b):
    if a<b: raise Panic("sub")
    return a-b
# state: Bb,Bst, Sb (supply), Sst, reqb, reqst ; thr, fee
def bond_b(s,p,fixed):
    Bb,Bst,Sb,Sst,qb,qst,thr,fee=s
    r=rate(Bb,Sb+qb); m=ddiv(p,r); mf=m
    if r<thr:
        mx=mulU(m,fee); req=sub(Sb+m+qb, Bb+p); mf=sub(m,min(mx,req))
    if mf==0: raise Panic("zero mint")
    return (Bb+p,Bst,Sb+mf,Sst,qb,qst,thr,fee)
def bond_st(s,p,fixed):
    Bb,Bst,Sb,Sst,qb,qst,thr,fee=s
    r=rate(Bst,Sst+qst); m=ddiv(p,r)
    if m==0: raise Panic("zero")
    return (Bb,Bst+p,Sb,Sst+m,qb,qst,thr,fee)
def unbond_b(s,a,fixed,undel):
    Bb,Bst,Sb,Sst,qb,qst,thr,fee=s
    if a>Sb: raise Panic("bal")
    r=rate(Bb,Sb+qb); af=a
    if r<thr:
        mx=mulU(a,fee); req=sub(Sb+qb,Bb); af=sub(a,min(mx,req))
    qb+=af; Sb-=a
    if undel:
        rb=rate(Bb,Sb+qb); rst=rate(Bst,Sst+qst)
        Bst=sub(Bst,mulU(qst,rst)); Bb=sub(Bb,mulU(qb,rb)); qb=0; qst=0
    return (Bb,Bst,Sb,Sst,qb,qst,thr,fee)
def unbond_st(s,a,fixed,undel):
    Bb,Bst,Sb,Sst,qb,qst,thr,fee=s
    if a>Sst: raise Panic("bal")
    rst=rate(Bst,Sst+qst); rb=rate(Bb,Sb+qb)
    qst+=a; Sst-=a
    if undel:
        Bst=sub(Bst,mulU(qst,rst)); Bb=sub(Bb,mulU(qb,rb)); qb=0; qst=0
    return (Bb,Bst,Sb,Sst,qb,qst,thr,fee)
def conv_st_b(s,a,fixed):
    Bb,Bst,Sb,Sst,qb,qst,thr,fee=s
    if a>Sst: raise Panic("bal")
    rb=rate(Bb,Sb+qb); rst=rate(Bst,Sst+qst)
    d=mulU(a,rst); m=ddiv(d,rb); mf=m
    if rb<thr:
        mx=mulU(m,fee); req=sub(Sb+m+qb,Bb+d); mf=sub(m,min(mx,req))
    if mf==0: raise Panic("zero")
    return (Bb+d,sub(Bst,d),Sb+mf,Sst-a,qb,qst,thr,fee)
def conv_b_st(s,a,fixed):
    Bb,Bst,Sb,Sst,qb,qst,thr,fee=s
    if a>Sb: raise Panic("bal")
    rb=rate(Bb,Sb+qb); rst=rate(Bst,Sst+qst); af=a
    if rb<thr:
        mx=mulU(a,fee); gap=sub(Sb+qb,Bb)
        req = gap if not fixed else gap*(Sb+qb-a)//Bb
        af=sub(a,min(mx,req))
    d=mulU(af,rb); m=ddiv(d,rst)
    if m==0: raise Panic("zero")
    return (sub(Bb,d),Bst+d,Sb-a,Sst+m,qb,qst,thr,fee)
def slash(s,frac_num):
    Bb,Bst,Sb,Sst,qb,qst,thr,fee=s
    T=Bb+Bst
    if T==0: return s
    act=T*frac_num//1000
    if T>act:
        Bb2=mulU(act,ratio(Bb,T)); Bst2=act-Bb2
        return (Bb2,Bst2,Sb,Sst,qb,qst,thr,fee)
    return s
def rates(s):
    Bb,Bst,Sb,Sst,qb,qst,thr,fee=s
    return rate(Bb,Sb+qb), rate(Bst,Sst+qst)
random.seed(int(sys.argv[1])); fixed=sys.argv[2]=="fixed"
stats=dict(ops=0,panics={},mono_viol=[],peg_viol=[],f5=0)
for hist in range(int(sys.argv[3])):
    scale=10**random.choice([0,1,3,6,12,17])
    thr=random.choice([D,D,D*99//100,D//2,0]); fee=random.choice([0,D//200,D//20,D//2,D])
    s=(0,0,0,0,0,0,thr,fee)
    for step in range(30):
        k=random.choice(["bb","bst","ub","ust","csb","cbs","sl","rw"])
        amt=random.choice([1,2,random.randint(1,max(1,scale)),random.randint(1,max(1,scale//100))])
        before=rates(s); pre=s
        try:
            if k=="bb": s2=bond_b(s,amt,fixed)
            elif k=="bst": s2=bond_st(s,amt,fixed)
            elif k=="ub":
                if s[2]==0: continue
                a=random.choice([s[2],random.randint(1,s[2])]); s2=unbond_b(s,a,fixed,random.random()<0.4)
            elif k=="ust":
                if s[3]==0: continue
                a=random.choice([s[3],random.randint(1,s[3])]); s2=unbond_st(s,a,fixed,random.random()<0.4)
            elif k=="csb":
                if s[3]==0: continue
                s2=conv_st_b(s,random.choice([s[3],random.randint(1,s[3])]),fixed)
            elif k=="cbs":
                if s[2]==0: continue
                s2=conv_b_st(s,random.choice([s[2],random.randint(1,s[2])]),fixed)
            elif k=="sl": s=slash(s,random.choice([999,990,900,500])); continue
            elif k=="rw":
                if s[1]==0: continue
                s2=(s[0],s[1]+amt)+s[2:]
        except Panic as e:
            f5 = (pre[0]==0 and pre[2]+pre[4]>0) or (pre[1]==0 and pre[3]+pre[5]>0)
            key=(k,str(e),"F5state" if f5 else "normal")
            stats["panics"][key]=stats["panics"].get(key,0)+1
            if not f5 and str(e)=="sub" and len(stats.setdefault("ex",[]))<3: stats["ex"].append((k,pre,amt))
            continue
        stats["ops"]+=1
        after=rates(s2)
        f5pre = (pre[0]==0 and pre[2]+pre[4]>0) or (pre[1]==0 and pre[3]+pre[5]>0)
        # monotone where claims>0 after
        if s2[2]+s2[4]>0 and after[0]<before[0] and not f5pre: stats["mono_viol"].append((k,pre,s2))
        if s2[3]+s2[5]>0 and after[1]<before[1] and not f5pre: stats["mono_viol"].append((k,pre,s2))
        # peg overshoot
        if before[0]<D and k in("bb","ub","csb","cbs") and s2[0]>s2[2]+s2[4]+2 and not f5pre:
            stats["peg_viol"].append((k,pre,s2))
        s=s2
print("fixed" if fixed else "orig", "ops",stats["ops"],"panics",stats["panics"],"mono_viol",len(stats["mono_viol"]),stats["mono_viol"][:2],"peg_viol",len(stats["peg_viol"]),[x[0] for x in stats["peg_viol"][:10]], stats["peg_viol"][:1], stats.get("ex"))
