//! krp-harness: a mini-chain that executes the real CosmWasm contracts of /repo on operation
//! files and prints canonical observations (see /verif/PROTOCOL.md).

pub mod chain;
pub mod dump;
pub mod gen;
pub mod grid;
pub mod kernel;
pub mod ops;
pub mod probe;
pub mod surface;

pub use chain::{install_panic_hook, World};
pub use dump::dump;
pub use ops::{apply_op, parse_op, Op, OpResult};

/// Run a whole operation file (text) and return the observation file (text).
/// `Err` = unparsable operation line (fatal).
pub fn run_ops_text(text: &str) -> Result<String, String> {
    let mut ops: Vec<Op> = Vec::new();
    for (ln, line) in text.lines().enumerate() {
        if ops::is_blank(line) {
            continue;
        }
        ops.push(parse_op(line).map_err(|e| format!("line {}: {}", ln + 1, e))?);
    }
    let mut out = String::new();
    run_ops(&ops, &mut out);
    Ok(out)
}

/// Apply operations to a fresh default world, appending observation blocks to `out`.
pub fn run_ops(ops: &[Op], out: &mut String) {
    let mut world = World::new(0);
    let mut index: u64 = 0;
    for op in ops {
        if op.is_reset() {
            index = 0;
        }
        observe_op(&mut world, op, index, out);
        index += 1;
    }
}

/// Apply one operation and append its observation block (`op I RESULT` .. `end`).
pub fn observe_op(world: &mut World, op: &Op, index: u64, out: &mut String) -> OpResult {
    let res = apply_op(world, op);
    out.push_str("op ");
    out.push_str(&index.to_string());
    out.push_str(if res.ok { " ok\n" } else { " err\n" });
    if res.ok && op.is_transaction() {
        for l in &res.trace {
            out.push_str(l);
            out.push('\n');
        }
    }
    for l in dump(world) {
        out.push_str(&l);
        out.push('\n');
    }
    out.push_str("end\n");
    res
}
