#![allow(deprecated)]
//! The mini-chain of PROTOCOL.md section 2: world state, querier, executor.
//!
//! The six real contracts of /repo are executed through their real `instantiate` / `execute` /
//! `query` entry points.  Everything else (bank, staking, distribution, clock, stub contracts) is
//! the environment model described in PROTOCOL.md.

use std::cell::RefCell;
use std::collections::{BTreeMap, HashMap};
use std::ops::Bound;
use std::panic::{catch_unwind, AssertUnwindSafe};

use cosmwasm_std::testing::MockApi;
use cosmwasm_std::{
    from_json, to_json_binary, Addr, AllBalanceResponse, AllDelegationsResponse, Api,
    BalanceResponse, BankMsg, BankQuery, Binary, BlockInfo, BondedDenomResponse, CanonicalAddr,
    Coin, ContractInfo, ContractResult, CosmosMsg, Decimal, Delegation, DelegationResponse, Deps,
    DepsMut, DistributionMsg, Empty, Env, FullDelegation, MessageInfo, Order, Querier,
    QuerierResult, QuerierWrapper, QueryRequest, Record, RecoverPubkeyError, Response, StakingMsg,
    StakingQuery, StdResult, Storage, SystemError, SystemResult, Timestamp, TransactionInfo,
    Uint128, Uint256, VerificationError, WasmMsg, WasmQuery,
};
use serde::de::DeserializeOwned;
use serde::Serialize;

use basset::oracle_pyth::QueryMsg as OracleQueryMsg;
use basset::swap_ext::{AssetInfo, SimulationResponse, SwapExecteMsg, SwapQueryMsg};

// ---------------------------------------------------------------------------------------------
// Names
// ---------------------------------------------------------------------------------------------

pub const ADDRS: [&str; 21] = [
    "hub", "reward", "disp", "reg", "bsei", "stsei", "swap", "oracle", "airdrop", "owner",
    "updater", "keeper", "nobody", "user0", "user1", "user2", "user3", "user4", "user5", "user6",
    "user7",
];
/// The validators of the chain.  Name `val`+c has the model id = index of c in `VAL_ALPHABET`; the
/// byte order of the names (the order in which the contracts' storage maps iterate) is the order of
/// the ids.
pub const VALS: [&str; 12] = [
    "val0", "val1", "val2", "val3", "val4", "val5", "val6", "val7", "val8", "val9", "vala", "valb",
];
/// Validator names are `val` + one character of this alphabet (ascending byte order); the first
/// `VALS.len()` exist on the chain, the others (`valx`, `valy` in generated histories) may appear
/// inside contract messages only ("validator not on chain").
pub const VAL_ALPHABET: &str = "0123456789abcdefghijklmnopqrstuvwxyz";
pub const DENOMS: [&str; 4] = ["uAtom", "ujunk", "usei", "uusd"];
pub const BOND_DENOM: &str = "usei";

pub const HUB: usize = 0;
pub const REWARD: usize = 1;
pub const DISP: usize = 2;
pub const REG: usize = 3;
pub const BSEI: usize = 4;
pub const STSEI: usize = 5;
pub const N_CONTRACTS: usize = 6;

pub const ONE: u128 = 1_000_000_000_000_000_000;
pub const START_TIME: u64 = 1_000_000;
/// Largest block time (seconds) representable by `cosmwasm_std::Timestamp` (u64 nanoseconds).
pub const MAX_NOW: u64 = u64::MAX / 1_000_000_000;

/// sub-second part of the block time at second `now`: 1 ..= 709_551_615 (so that MAX_NOW still fits in
/// the u64 nanoseconds of `Timestamp`), a fixed function of `now`
pub fn block_nanos(now: u64) -> u64 {
    1 + (now.wrapping_mul(0x9E37_79B9_7F4A_7C15) >> 20) % 709_551_615
}
/// Maximum nesting depth of message dispatch (guard against runaway recursion; never reached by
/// the six contracts).
pub const MAX_DEPTH: usize = 64;

pub fn contract_index(name: &str) -> Option<usize> {
    ADDRS[..N_CONTRACTS].iter().position(|a| *a == name)
}
pub fn val_index(name: &str) -> Option<usize> {
    VALS.iter().position(|a| *a == name)
}
pub fn denom_index(name: &str) -> Option<usize> {
    DENOMS.iter().position(|a| *a == name)
}
pub fn is_addr(name: &str) -> bool {
    ADDRS.contains(&name)
}

// ---------------------------------------------------------------------------------------------
// Api: MockApi::default() behind a memo cache (pure functions, identical results)
// ---------------------------------------------------------------------------------------------

thread_local! {
    static CANON_CACHE: RefCell<HashMap<String, CanonicalAddr>> = RefCell::new(HashMap::new());
    static HUMAN_CACHE: RefCell<HashMap<Vec<u8>, Addr>> = RefCell::new(HashMap::new());
}

/// `MockApi::default()` with memoised `addr_canonicalize` / `addr_humanize` (both are pure, and
/// comparatively slow in cosmwasm-std 1.5: ~20 vector allocations per call).
#[derive(Clone, Copy, Default)]
pub struct HarnessApi {
    inner: MockApi,
}

pub fn api() -> HarnessApi {
    HarnessApi { inner: MockApi::default() }
}

impl Api for HarnessApi {
    fn addr_validate(&self, input: &str) -> StdResult<Addr> {
        let canonical = self.addr_canonicalize(input)?;
        let normalized = self.addr_humanize(&canonical)?;
        if input != normalized.as_str() {
            // defer to the real implementation for the exact error
            return self.inner.addr_validate(input);
        }
        Ok(Addr::unchecked(input))
    }
    fn addr_canonicalize(&self, human: &str) -> StdResult<CanonicalAddr> {
        if let Some(c) = CANON_CACHE.with(|c| c.borrow().get(human).cloned()) {
            return Ok(c);
        }
        let r = self.inner.addr_canonicalize(human)?;
        CANON_CACHE.with(|c| c.borrow_mut().insert(human.to_string(), r.clone()));
        Ok(r)
    }
    fn addr_humanize(&self, canonical: &CanonicalAddr) -> StdResult<Addr> {
        if let Some(a) = HUMAN_CACHE.with(|c| c.borrow().get(canonical.as_slice()).cloned()) {
            return Ok(a);
        }
        let r = self.inner.addr_humanize(canonical)?;
        HUMAN_CACHE.with(|c| c.borrow_mut().insert(canonical.as_slice().to_vec(), r.clone()));
        Ok(r)
    }
    fn secp256k1_verify(
        &self,
        message_hash: &[u8],
        signature: &[u8],
        public_key: &[u8],
    ) -> Result<bool, VerificationError> {
        self.inner.secp256k1_verify(message_hash, signature, public_key)
    }
    fn secp256k1_recover_pubkey(
        &self,
        message_hash: &[u8],
        signature: &[u8],
        recovery_param: u8,
    ) -> Result<Vec<u8>, RecoverPubkeyError> {
        self.inner.secp256k1_recover_pubkey(message_hash, signature, recovery_param)
    }
    fn ed25519_verify(
        &self,
        message: &[u8],
        signature: &[u8],
        public_key: &[u8],
    ) -> Result<bool, VerificationError> {
        self.inner.ed25519_verify(message, signature, public_key)
    }
    fn ed25519_batch_verify(
        &self,
        messages: &[&[u8]],
        signatures: &[&[u8]],
        public_keys: &[&[u8]],
    ) -> Result<bool, VerificationError> {
        self.inner.ed25519_batch_verify(messages, signatures, public_keys)
    }
    fn debug(&self, _message: &str) {}
}

/// canonical address -> name (for dumps of stored configs)
pub fn humanize(c: &CanonicalAddr) -> String {
    match api().addr_humanize(c) {
        Ok(a) => a.into_string(),
        Err(_) => "?".to_string(),
    }
}

// ---------------------------------------------------------------------------------------------
// Storage
// ---------------------------------------------------------------------------------------------

/// One contract's key/value store.  Interior mutability (every access borrows only for its own
/// duration) lets the executing contract write through a `StoreRef` while queries issued during
/// the same call read the same, current, data through another `StoreRef` -- the wasmd behaviour.
///
/// `version` identifies the content: it is replaced by a fresh, process-wide unique number on
/// every mutation and copied by `clone`, so two stores with equal non-zero versions have equal
/// content (version 0 = never written = empty).  Used only by the dump memoisation.
#[derive(Clone, Default, Debug)]
pub struct Store {
    map: RefCell<BTreeMap<Vec<u8>, Vec<u8>>>,
    version: std::cell::Cell<u64>,
}

static NEXT_VERSION: std::sync::atomic::AtomicU64 = std::sync::atomic::AtomicU64::new(1);

fn fresh_version() -> u64 {
    NEXT_VERSION.fetch_add(1, std::sync::atomic::Ordering::Relaxed)
}

impl Store {
    pub fn clear(&self) {
        self.map.borrow_mut().clear();
        self.version.set(fresh_version());
    }
    pub fn is_empty(&self) -> bool {
        self.map.borrow().is_empty()
    }
    /// mark the content as changed (dump memoisation keys on the version)
    pub fn touch(&self) {
        self.version.set(fresh_version());
    }
    pub fn len(&self) -> usize {
        self.map.borrow().len()
    }
    pub fn version(&self) -> u64 {
        self.version.get()
    }
    /// raw copy of the content (debugging / later tooling)
    pub fn entries(&self) -> Vec<(Vec<u8>, Vec<u8>)> {
        self.map.borrow().iter().map(|(k, v)| (k.clone(), v.clone())).collect()
    }
    fn raw_get(&self, key: &[u8]) -> Option<Vec<u8>> {
        self.map.borrow().get(key).cloned()
    }
    fn raw_range(&self, start: Option<&[u8]>, end: Option<&[u8]>, desc: bool) -> Vec<Record> {
        if let (Some(s), Some(e)) = (start, end) {
            if s >= e {
                return Vec::new();
            }
        }
        let lo = match start {
            Some(s) => Bound::Included(s.to_vec()),
            None => Bound::Unbounded,
        };
        let hi = match end {
            Some(e) => Bound::Excluded(e.to_vec()),
            None => Bound::Unbounded,
        };
        let m = self.map.borrow();
        let mut v: Vec<Record> = m.range((lo, hi)).map(|(k, v)| (k.clone(), v.clone())).collect();
        if desc {
            v.reverse();
        }
        v
    }
}

impl PartialEq for Store {
    fn eq(&self, other: &Self) -> bool {
        *self.map.borrow() == *other.map.borrow()
    }
}
impl Eq for Store {}

// ---- read tracking (for the sound memoisation of dump fragments, see dump.rs) ---------------

/// One storage read performed while tracking was on, with its result.
#[derive(Clone, Debug, PartialEq, Eq)]
pub enum Read {
    Get { store: u8, key: Vec<u8>, val: Option<Vec<u8>> },
    Range { store: u8, start: Option<Vec<u8>>, end: Option<Vec<u8>>, desc: bool, res: Vec<Record> },
}

#[derive(Debug, Default)]
pub struct TrackState {
    pub reads: Vec<Read>,
    /// something other than contract storage was consulted (bank, staking, stub contracts, ...)
    pub env: bool,
}

thread_local! {
    static TRACK: RefCell<Option<TrackState>> = const { RefCell::new(None) };
}

pub fn track_begin() {
    TRACK.with(|t| *t.borrow_mut() = Some(TrackState::default()));
}
pub fn track_end() -> TrackState {
    TRACK.with(|t| t.borrow_mut().take()).unwrap_or_default()
}
fn note_env() {
    TRACK.with(|t| {
        if let Some(s) = t.borrow_mut().as_mut() {
            s.env = true;
        }
    });
}
fn note_read(r: impl FnOnce() -> Read) {
    TRACK.with(|t| {
        if let Some(s) = t.borrow_mut().as_mut() {
            s.reads.push(r());
        }
    });
}

impl Read {
    /// does the read give the same result in `w` now?
    pub fn still_valid(&self, w: &World) -> bool {
        match self {
            Read::Get { store, key, val } => {
                w.stores[*store as usize].map.borrow().get(key.as_slice()) == val.as_ref()
            }
            Read::Range { store, start, end, desc, res } => {
                w.stores[*store as usize].raw_range(start.as_deref(), end.as_deref(), *desc) == *res
            }
        }
    }
    pub fn store(&self) -> u8 {
        match self {
            Read::Get { store, .. } | Read::Range { store, .. } => *store,
        }
    }
}

/// `cosmwasm_std::Storage` view of contract `idx`'s `Store`.
pub struct StoreRef<'a> {
    store: &'a Store,
    idx: u8,
}

impl<'a> StoreRef<'a> {
    pub fn new(w: &'a World, idx: usize) -> StoreRef<'a> {
        StoreRef { store: &w.stores[idx], idx: idx as u8 }
    }
}

impl<'a> Storage for StoreRef<'a> {
    fn get(&self, key: &[u8]) -> Option<Vec<u8>> {
        let v = self.store.raw_get(key);
        note_read(|| Read::Get { store: self.idx, key: key.to_vec(), val: v.clone() });
        v
    }

    fn range<'b>(
        &'b self,
        start: Option<&[u8]>,
        end: Option<&[u8]>,
        order: Order,
    ) -> Box<dyn Iterator<Item = Record> + 'b> {
        let desc = matches!(order, Order::Descending);
        let v = self.store.raw_range(start, end, desc);
        note_read(|| Read::Range {
            store: self.idx,
            start: start.map(|s| s.to_vec()),
            end: end.map(|s| s.to_vec()),
            desc,
            res: v.clone(),
        });
        Box::new(v.into_iter())
    }

    fn set(&mut self, key: &[u8], value: &[u8]) {
        if value.is_empty() {
            panic!("Value must not be empty in Storage::set");
        }
        self.store.map.borrow_mut().insert(key.to_vec(), value.to_vec());
        self.store.version.set(fresh_version());
    }

    fn remove(&mut self, key: &[u8]) {
        self.store.map.borrow_mut().remove(key);
        self.store.version.set(fresh_version());
    }
}

// ---------------------------------------------------------------------------------------------
// World
// ---------------------------------------------------------------------------------------------

#[derive(Clone, Copy, Debug, PartialEq, Eq)]
pub enum SwapMode {
    Ok,
    Fail,
    Garbage,
}
#[derive(Clone, Copy, Debug, PartialEq, Eq)]
pub enum OracleMode {
    Ok,
    Fail,
    Zero,
}

impl SwapMode {
    pub fn as_str(&self) -> &'static str {
        match self {
            SwapMode::Ok => "ok",
            SwapMode::Fail => "fail",
            SwapMode::Garbage => "garbage",
        }
    }
}
impl OracleMode {
    pub fn as_str(&self) -> &'static str {
        match self {
            OracleMode::Ok => "ok",
            OracleMode::Fail => "fail",
            OracleMode::Zero => "zero",
        }
    }
}

#[derive(Clone, Debug, PartialEq, Eq)]
pub struct Unbonding {
    pub delegator: String,
    pub validator: usize,
    pub amount: u128,
    pub completion: u128,
}

#[derive(Clone, Debug, PartialEq, Eq)]
pub struct World {
    /// storages of hub, reward, disp, reg, bsei, stsei (indices `HUB` .. `STSEI`)
    pub stores: [Store; N_CONTRACTS],
    pub inst: [bool; N_CONTRACTS],
    /// addr -> denom -> amount (zero entries may be present)
    pub bank: BTreeMap<String, BTreeMap<String, u128>>,
    /// (delegator, validator index) -> amount; an entry may hold 0 (slashed)
    pub delegations: BTreeMap<(String, usize), u128>,
    pub unbonding: Vec<Unbonding>,
    /// (delegator, validator index, denom index) -> pending reward
    pub pending: BTreeMap<(String, usize, usize), u128>,
    pub withdraw_addr: BTreeMap<String, String>,
    pub can_redelegate: [bool; VALS.len()],
    pub now: u64,
    pub ut: u64,
    pub price: u128,
    pub swapmode: SwapMode,
    pub oraclemode: OracleMode,
}

impl World {
    pub fn new(ut: u64) -> World {
        World {
            stores: Default::default(),
            inst: [false; N_CONTRACTS],
            bank: BTreeMap::new(),
            delegations: BTreeMap::new(),
            unbonding: Vec::new(),
            pending: BTreeMap::new(),
            withdraw_addr: BTreeMap::new(),
            can_redelegate: [true; VALS.len()],
            now: START_TIME,
            ut,
            price: ONE,
            swapmode: SwapMode::Ok,
            oraclemode: OracleMode::Ok,
        }
    }

    pub fn height(&self) -> u64 {
        self.now / 5
    }

    pub fn balance(&self, addr: &str, denom: &str) -> u128 {
        self.bank.get(addr).and_then(|m| m.get(denom)).copied().unwrap_or(0)
    }

    /// credit; Err if the balance would exceed u128
    pub fn credit(&mut self, addr: &str, denom: &str, amount: u128) -> Result<(), String> {
        let e = self.bank.entry(addr.to_string()).or_default().entry(denom.to_string()).or_insert(0);
        *e = e.checked_add(amount).ok_or_else(|| "bank balance overflow".to_string())?;
        Ok(())
    }

    fn debit(&mut self, addr: &str, denom: &str, amount: u128) -> Result<(), String> {
        let bal = self.balance(addr, denom);
        if bal < amount {
            return Err(format!("insufficient funds: {} {} < {}", addr, denom, amount));
        }
        if amount > 0 {
            *self.bank.get_mut(addr).unwrap().get_mut(denom).unwrap() = bal - amount;
        }
        Ok(())
    }

    /// bank-send rules for a list of coins, processed in order
    pub fn send_coins(&mut self, from: &str, to: &str, coins: &[Coin]) -> Result<(), String> {
        for c in coins {
            if c.amount.is_zero() {
                return Err("zero coin".to_string());
            }
            self.debit(from, &c.denom, c.amount.u128())?;
            self.credit(to, &c.denom, c.amount.u128())?;
        }
        Ok(())
    }

    pub fn withdraw_address(&self, delegator: &str) -> String {
        self.withdraw_addr.get(delegator).cloned().unwrap_or_else(|| delegator.to_string())
    }

    /// pay pending rewards of (delegator, validator) to the delegator's withdraw address
    pub fn payout(&mut self, delegator: &str, val: usize) -> Result<(), String> {
        let to = self.withdraw_address(delegator);
        for (di, denom) in DENOMS.iter().enumerate() {
            let key = (delegator.to_string(), val, di);
            let amt = self.pending.get(&key).copied().unwrap_or(0);
            if amt > 0 {
                self.credit(&to, denom, amt)?;
                self.pending.remove(&key);
            }
        }
        Ok(())
    }

    pub fn is_instantiated_target(&self, target: &str) -> bool {
        match contract_index(target) {
            Some(i) => self.inst[i],
            None => matches!(target, "swap" | "oracle" | "airdrop"),
        }
    }

    pub fn env(&self, contract: &str) -> Env {
        Env {
            block: BlockInfo {
                height: self.height(),
                // block times on a chain carry a sub-second part; the contracts (and the model) use whole
                // seconds only, so the mini-chain attaches a non-zero, deterministic nanosecond part to
                // every block time: code that starts to look at it disagrees with the model
                time: Timestamp::from_nanos(self.now * 1_000_000_000 + block_nanos(self.now)),
                chain_id: "krp-verif".to_string(),
            },
            transaction: Some(TransactionInfo { index: 0 }),
            contract: ContractInfo { address: Addr::unchecked(contract) },
        }
    }

    // ---- environment operations -----------------------------------------------------------

    /// `advance DT`; Err (nothing changes) if the clock would leave the Timestamp range or a
    /// delivery would overflow a bank balance
    pub fn advance(&mut self, dt: u64) -> Result<(), String> {
        let new_now = self.now.checked_add(dt).filter(|n| *n <= MAX_NOW).ok_or("clock overflow")?;
        let any_matured = self.unbonding.iter().any(|u| u.completion <= new_now as u128);
        if any_matured {
            let bank_before = self.bank.clone();
            let queue = std::mem::take(&mut self.unbonding);
            let mut rest = Vec::with_capacity(queue.len());
            let mut failed = false;
            for u in queue.iter() {
                if u.completion <= new_now as u128 {
                    if self.credit(&u.delegator, BOND_DENOM, u.amount).is_err() {
                        failed = true;
                        break;
                    }
                } else {
                    rest.push(u.clone());
                }
            }
            if failed {
                self.bank = bank_before;
                self.unbonding = queue;
                return Err("bank balance overflow".to_string());
            }
            self.unbonding = rest;
        }
        self.now = new_now;
        Ok(())
    }

    pub fn slash(&mut self, val: usize, num: u128, den: u128, unb: bool) -> Result<(), String> {
        if den == 0 || num > den {
            return Err("bad slash fraction".to_string());
        }
        let keep = den - num;
        let f = |d: u128| -> u128 { Uint128::new(d).multiply_ratio(keep, den).u128() };
        for ((_, v), amt) in self.delegations.iter_mut() {
            if *v == val {
                *amt = f(*amt);
            }
        }
        if unb {
            for u in self.unbonding.iter_mut() {
                if u.validator == val {
                    u.amount = f(u.amount);
                }
            }
        }
        Ok(())
    }

    pub fn accrue(&mut self, val: usize, denom: usize, amt: u128) -> Result<(), String> {
        if !self.delegations.contains_key(&("hub".to_string(), val)) {
            return Err("hub has no delegation on validator".to_string());
        }
        let e = self.pending.entry(("hub".to_string(), val, denom)).or_insert(0);
        *e = e.checked_add(amt).ok_or("pending overflow")?;
        Ok(())
    }
}

// ---------------------------------------------------------------------------------------------
// State injection (PROTOCOL.md section 3.4): direct writes through the contracts' own public
// storage items / functions and into the mini-chain's bank / staking tables
// ---------------------------------------------------------------------------------------------

fn dec_atomics(x: u128) -> Decimal {
    Decimal::new(Uint128::new(x))
}

impl World {
    fn need(&self, idx: usize) -> Result<(), String> {
        if self.inst[idx] {
            Ok(())
        } else {
            Err(format!("{} not instantiated", ADDRS[idx]))
        }
    }

    #[allow(clippy::too_many_arguments)]
    pub fn poke_hub_state(
        &mut self,
        ber: u128,
        ser: u128,
        bb: u128,
        bst: u128,
        lim: u64,
        phb: u128,
        lut: u64,
        lpb: u64,
    ) -> Result<(), String> {
        self.need(HUB)?;
        let st = basset::hub::State {
            bsei_exchange_rate: dec_atomics(ber),
            stsei_exchange_rate: dec_atomics(ser),
            total_bond_bsei_amount: Uint128::new(bb),
            total_bond_stsei_amount: Uint128::new(bst),
            last_index_modification: lim,
            prev_hub_balance: Uint128::new(phb),
            last_unbonded_time: lut,
            last_processed_batch: lpb,
        };
        let mut storage = StoreRef::new(self, HUB);
        basset_sei_hub::state::STATE.save(&mut storage, &st).map_err(|e| e.to_string())
    }

    pub fn poke_batch(&mut self, id: u64, reqb: u128, reqst: u128) -> Result<(), String> {
        self.need(HUB)?;
        let cb = basset::hub::CurrentBatch {
            id,
            requested_bsei_with_fee: Uint128::new(reqb),
            requested_stsei: Uint128::new(reqst),
        };
        let mut storage = StoreRef::new(self, HUB);
        basset_sei_hub::state::CURRENT_BATCH.save(&mut storage, &cb).map_err(|e| e.to_string())
    }

    #[allow(clippy::too_many_arguments)]
    pub fn poke_hist(
        &mut self,
        id: u64,
        time: u64,
        bamt: u128,
        bapplied: u128,
        bwithdraw: u128,
        samt: u128,
        sapplied: u128,
        swithdraw: u128,
        released: bool,
    ) -> Result<(), String> {
        self.need(HUB)?;
        let h = basset::hub::UnbondHistory {
            batch_id: id,
            time,
            bsei_amount: Uint128::new(bamt),
            bsei_applied_exchange_rate: dec_atomics(bapplied),
            bsei_withdraw_rate: dec_atomics(bwithdraw),
            stsei_amount: Uint128::new(samt),
            stsei_applied_exchange_rate: dec_atomics(sapplied),
            stsei_withdraw_rate: dec_atomics(swithdraw),
            released,
        };
        let mut storage = StoreRef::new(self, HUB);
        basset_sei_hub::state::store_unbond_history(&mut storage, id, h).map_err(|e| e.to_string())
    }

    /// the v2 wait-list bucket exactly as `store_unbond_wait_list` lays it out
    pub fn poke_wait(&mut self, addr: &str, batch: u64, b: u128, st: u128) -> Result<(), String> {
        self.need(HUB)?;
        let mut storage = StoreRef::new(self, HUB);
        let addr_key = cosmwasm_std::to_json_vec(&addr.to_string()).map_err(|e| e.to_string())?;
        let batch_key = cosmwasm_std::to_json_vec(&batch).map_err(|e| e.to_string())?;
        let mut bucket: cosmwasm_storage::Bucket<basset::hub::UnbondWaitEntity> =
            cosmwasm_storage::Bucket::multilevel(
                &mut storage,
                &[basset_sei_hub::state::NEW_PREFIX_WAIT_MAP, &addr_key],
            );
        if b == 0 && st == 0 {
            bucket.remove(&batch_key);
            Ok(())
        } else {
            bucket
                .save(
                    &batch_key,
                    &basset::hub::UnbondWaitEntity {
                        bsei_amount: Uint128::new(b),
                        stsei_amount: Uint128::new(st),
                    },
                )
                .map_err(|e| e.to_string())
        }
    }

    /// set a cw20 balance; total_supply moves by the same delta
    pub fn poke_tokbal(&mut self, tok_idx: usize, addr: &str, amt: u128) -> Result<(), String> {
        self.need(tok_idx)?;
        let mut storage = StoreRef::new(self, tok_idx);
        let new_supply = |supply: u128, old: u128| -> Result<u128, String> {
            supply
                .checked_add(amt)
                .and_then(|x| x.checked_sub(old))
                .ok_or_else(|| "supply out of range".to_string())
        };
        if tok_idx == BSEI {
            use cw20_legacy::state::{BALANCES, TOKEN_INFO};
            let key = api().addr_canonicalize(addr).map_err(|e| e.to_string())?;
            let old = BALANCES
                .may_load(&storage, key.as_slice())
                .map_err(|e| e.to_string())?
                .unwrap_or_default()
                .u128();
            let mut info = TOKEN_INFO.load(&storage).map_err(|e| e.to_string())?;
            info.total_supply = Uint128::new(new_supply(info.total_supply.u128(), old)?);
            BALANCES
                .save(&mut storage, key.as_slice(), &Uint128::new(amt))
                .map_err(|e| e.to_string())?;
            TOKEN_INFO.save(&mut storage, &info).map_err(|e| e.to_string())
        } else {
            use cw20_base::state::{BALANCES, TOKEN_INFO};
            let key = Addr::unchecked(addr);
            let old = BALANCES
                .may_load(&storage, &key)
                .map_err(|e| e.to_string())?
                .unwrap_or_default()
                .u128();
            let mut info = TOKEN_INFO.load(&storage).map_err(|e| e.to_string())?;
            info.total_supply = Uint128::new(new_supply(info.total_supply.u128(), old)?);
            BALANCES.save(&mut storage, &key, &Uint128::new(amt)).map_err(|e| e.to_string())?;
            TOKEN_INFO.save(&mut storage, &info).map_err(|e| e.to_string())
        }
    }

    /// set a reward holder; total_balance moves by the balance delta
    pub fn poke_holder(&mut self, addr: &str, bal: u128, index: u128, pending: u128) -> Result<(), String> {
        self.need(REWARD)?;
        use basset_sei_reward::state::{read_holder, read_state, store_holder, store_state, Holder};
        let mut storage = StoreRef::new(self, REWARD);
        let key = api().addr_canonicalize(addr).map_err(|e| e.to_string())?;
        let old = read_holder(&storage, &key).map_err(|e| e.to_string())?.balance.u128();
        let mut st = read_state(&storage).map_err(|e| e.to_string())?;
        let total = st
            .total_balance
            .u128()
            .checked_add(bal)
            .and_then(|x| x.checked_sub(old))
            .ok_or_else(|| "total balance out of range".to_string())?;
        st.total_balance = Uint128::new(total);
        store_holder(
            &mut storage,
            &key,
            &Holder {
                balance: Uint128::new(bal),
                index: dec_atomics(index),
                pending_rewards: dec_atomics(pending),
            },
        )
        .map_err(|e| e.to_string())?;
        store_state(&mut storage, &st).map_err(|e| e.to_string())
    }

    pub fn poke_rwstate(&mut self, gi: u128, total: u128, prev: u128) -> Result<(), String> {
        self.need(REWARD)?;
        let mut storage = StoreRef::new(self, REWARD);
        basset_sei_reward::state::store_state(
            &mut storage,
            &basset_sei_reward::state::State {
                global_index: dec_atomics(gi),
                total_balance: Uint128::new(total),
                prev_reward_balance: Uint128::new(prev),
            },
        )
        .map_err(|e| e.to_string())
    }

    pub fn poke_del(&mut self, addr: &str, val: usize, amt: u128) {
        self.delegations.insert((addr.to_string(), val), amt);
    }

    pub fn poke_unb(&mut self, addr: &str, val: usize, amt: u128, completion: u64) {
        self.unbonding.push(Unbonding {
            delegator: addr.to_string(),
            validator: val,
            amount: amt,
            completion: completion as u128,
        });
    }

    pub fn poke_pend(&mut self, addr: &str, val: usize, denom: usize, amt: u128) {
        self.pending.insert((addr.to_string(), val, denom), amt);
    }
}

// ---------------------------------------------------------------------------------------------
// Stub arithmetic
// ---------------------------------------------------------------------------------------------

/// rate(from, to) in atomics; `price` = P
pub fn stub_rate(price: u128, from: &str, to: &str) -> u128 {
    if from == "usei" && to == "uusd" {
        price
    } else if from == "uusd" && to == "usei" {
        // floor(1e36 / P); P > 0 is an invariant of the world
        (ONE * ONE) / price
    } else {
        ONE
    }
}

/// floor(amount * rate / 1e18); None if the result does not fit u128
pub fn stub_convert(amount: u128, rate: u128) -> Option<u128> {
    let r = Uint256::from(amount) * Uint256::from(rate) / Uint256::from(ONE);
    Uint128::try_from(r).ok().map(|x| x.u128())
}

// ---------------------------------------------------------------------------------------------
// Panic containment
// ---------------------------------------------------------------------------------------------

thread_local! {
    static QUIET: std::cell::Cell<u32> = const { std::cell::Cell::new(0) };
}

/// Install a panic hook that stays silent for panics raised inside `guarded` sections (contract
/// code) and behaves like the default hook elsewhere (harness bugs stay visible).
pub fn install_panic_hook() {
    let default = std::panic::take_hook();
    std::panic::set_hook(Box::new(move |info| {
        if QUIET.with(|q| q.get()) == 0 {
            default(info);
        }
    }));
}

/// Run contract code; a panic becomes `Err(())`.
pub fn guarded<T>(f: impl FnOnce() -> T) -> Result<T, ()> {
    QUIET.with(|q| q.set(q.get() + 1));
    let r = catch_unwind(AssertUnwindSafe(f));
    QUIET.with(|q| q.set(q.get() - 1));
    r.map_err(|_| ())
}

// ---------------------------------------------------------------------------------------------
// Contract entry-point dispatch
// ---------------------------------------------------------------------------------------------

type ExecOut = Result<Response<Empty>, String>;

fn call_execute(w: &World, idx: usize, env: Env, info: MessageInfo, msg: &Binary) -> ExecOut {
    let api = api();
    let querier = WorldQuerier { w };
    let mut storage = StoreRef::new(w, idx);
    let deps = DepsMut { storage: &mut storage, api: &api, querier: QuerierWrapper::new(&querier) };
    match idx {
        HUB => {
            let m: basset::hub::ExecuteMsg = from_json(msg).map_err(|e| e.to_string())?;
            basset_sei_hub::contract::execute(deps, env, info, m).map_err(|e| e.to_string())
        }
        REWARD => {
            let m: basset::reward::ExecuteMsg = from_json(msg).map_err(|e| e.to_string())?;
            basset_sei_reward::contract::execute(deps, env, info, m).map_err(|e| e.to_string())
        }
        DISP => {
            let m: basset_sei_rewards_dispatcher::msg::ExecuteMsg =
                from_json(msg).map_err(|e| e.to_string())?;
            basset_sei_rewards_dispatcher::contract::execute(deps, env, info, m)
                .map_err(|e| e.to_string())
        }
        REG => {
            let m: basset_sei_validators_registry::msg::ExecuteMsg =
                from_json(msg).map_err(|e| e.to_string())?;
            basset_sei_validators_registry::contract::execute(deps, env, info, m)
                .map_err(|e| e.to_string())
        }
        BSEI => {
            let m: cw20_legacy::msg::ExecuteMsg = from_json(msg).map_err(|e| e.to_string())?;
            basset_sei_token_bsei::contract::execute(deps, env, info, m).map_err(|e| e.to_string())
        }
        STSEI => {
            let m: cw20_base::msg::ExecuteMsg = from_json(msg).map_err(|e| e.to_string())?;
            basset_sei_token_stsei::contract::execute(deps, env, info, m)
                .map_err(|e| e.to_string())
        }
        _ => Err("no such contract".to_string()),
    }
}

fn call_query(w: &World, idx: usize, msg: &Binary) -> Result<Binary, String> {
    let api = api();
    let querier = WorldQuerier { w };
    let storage = StoreRef::new(w, idx);
    let deps = Deps { storage: &storage, api: &api, querier: QuerierWrapper::new(&querier) };
    let env = w.env(ADDRS[idx]);
    match idx {
        HUB => {
            let m: basset::hub::QueryMsg = from_json(msg).map_err(|e| e.to_string())?;
            basset_sei_hub::contract::query(deps, env, m).map_err(|e| e.to_string())
        }
        REWARD => {
            let m: basset::reward::QueryMsg = from_json(msg).map_err(|e| e.to_string())?;
            basset_sei_reward::contract::query(deps, env, m).map_err(|e| e.to_string())
        }
        DISP => {
            let m: basset_sei_rewards_dispatcher::msg::QueryMsg =
                from_json(msg).map_err(|e| e.to_string())?;
            basset_sei_rewards_dispatcher::contract::query(deps, env, m).map_err(|e| e.to_string())
        }
        REG => {
            let m: basset_sei_validators_registry::msg::QueryMsg =
                from_json(msg).map_err(|e| e.to_string())?;
            basset_sei_validators_registry::contract::query(deps, env, m)
                .map_err(|e| e.to_string())
        }
        BSEI => {
            let m: cw20_legacy::msg::QueryMsg = from_json(msg).map_err(|e| e.to_string())?;
            basset_sei_token_bsei::contract::query(deps, env, m).map_err(|e| e.to_string())
        }
        STSEI => {
            let m: cw20_base::msg::QueryMsg = from_json(msg).map_err(|e| e.to_string())?;
            basset_sei_token_stsei::contract::query(deps, env, m).map_err(|e| e.to_string())
        }
        _ => Err("no such contract".to_string()),
    }
}

/// Smart query against one of the six contracts (real `query` entry point), panics caught.
/// `Err` if the contract is not instantiated, the query returns Err, or it panics.
pub fn query_contract_raw(w: &World, idx: usize, msg: &Binary) -> Result<Binary, String> {
    if !w.inst[idx] {
        return Err("not instantiated".to_string());
    }
    match guarded(|| call_query(w, idx, msg)) {
        Ok(r) => r,
        Err(()) => Err("panic".to_string()),
    }
}

/// Typed smart query (serialises the request, deserialises the response)
pub fn query_contract<Q: Serialize, R: DeserializeOwned>(
    w: &World,
    idx: usize,
    q: &Q,
) -> Result<R, String> {
    let bin = to_json_binary(q).map_err(|e| e.to_string())?;
    let out = query_contract_raw(w, idx, &bin)?;
    from_json(&out).map_err(|e| e.to_string())
}

// ---------------------------------------------------------------------------------------------
// Querier
// ---------------------------------------------------------------------------------------------

pub struct WorldQuerier<'a> {
    pub w: &'a World,
}

fn q_ok<T: Serialize>(v: &T) -> QuerierResult {
    match to_json_binary(v) {
        Ok(b) => SystemResult::Ok(ContractResult::Ok(b)),
        Err(e) => SystemResult::Ok(ContractResult::Err(e.to_string())),
    }
}
fn q_err(msg: &str) -> QuerierResult {
    SystemResult::Ok(ContractResult::Err(msg.to_string()))
}

impl<'a> WorldQuerier<'a> {
    fn bank(&self, q: BankQuery) -> QuerierResult {
        note_env();
        match q {
            BankQuery::Balance { address, denom } => {
                let amount = self.w.balance(&address, &denom);
                q_ok(&BalanceResponse { amount: Coin { denom, amount: Uint128::new(amount) } })
            }
            BankQuery::AllBalances { address } => {
                let mut coins: Vec<Coin> = vec![];
                if let Some(m) = self.w.bank.get(&address) {
                    // DENOMS order first (== ascending byte order), then any other denom
                    for d in DENOMS.iter() {
                        if let Some(a) = m.get(*d) {
                            if *a > 0 {
                                coins.push(Coin { denom: d.to_string(), amount: Uint128::new(*a) });
                            }
                        }
                    }
                    for (d, a) in m.iter() {
                        if *a > 0 && denom_index(d).is_none() {
                            coins.push(Coin { denom: d.clone(), amount: Uint128::new(*a) });
                        }
                    }
                }
                q_ok(&AllBalanceResponse { amount: coins })
            }
            _ => SystemResult::Err(SystemError::UnsupportedRequest { kind: "bank".to_string() }),
        }
    }

    fn staking(&self, q: StakingQuery) -> QuerierResult {
        note_env();
        match q {
            StakingQuery::BondedDenom {} => {
                q_ok(&BondedDenomResponse { denom: BOND_DENOM.to_string() })
            }
            StakingQuery::AllDelegations { delegator } => {
                let mut v = vec![];
                for (vi, val) in VALS.iter().enumerate() {
                    if let Some(a) = self.w.delegations.get(&(delegator.clone(), vi)) {
                        v.push(Delegation {
                            delegator: Addr::unchecked(delegator.clone()),
                            validator: val.to_string(),
                            amount: Coin { denom: BOND_DENOM.to_string(), amount: Uint128::new(*a) },
                        });
                    }
                }
                q_ok(&AllDelegationsResponse { delegations: v })
            }
            StakingQuery::Delegation { delegator, validator } => {
                let d = val_index(&validator).and_then(|vi| {
                    self.w.delegations.get(&(delegator.clone(), vi)).map(|a| {
                        let can = if self.w.can_redelegate[vi] { *a } else { 0 };
                        FullDelegation {
                            delegator: Addr::unchecked(delegator.clone()),
                            validator: validator.clone(),
                            amount: Coin { denom: BOND_DENOM.to_string(), amount: Uint128::new(*a) },
                            can_redelegate: Coin {
                                denom: BOND_DENOM.to_string(),
                                amount: Uint128::new(can),
                            },
                            accumulated_rewards: vec![],
                        }
                    })
                });
                q_ok(&DelegationResponse { delegation: d })
            }
            _ => SystemResult::Err(SystemError::UnsupportedRequest { kind: "staking".to_string() }),
        }
    }

    fn wasm(&self, q: WasmQuery) -> QuerierResult {
        match q {
            WasmQuery::Smart { contract_addr, msg } => {
                if let Some(idx) = contract_index(&contract_addr) {
                    if !self.w.inst[idx] {
                        return SystemResult::Err(SystemError::NoSuchContract {
                            addr: contract_addr,
                        });
                    }
                    match query_contract_raw(self.w, idx, &msg) {
                        Ok(b) => SystemResult::Ok(ContractResult::Ok(b)),
                        Err(e) => SystemResult::Ok(ContractResult::Err(e)),
                    }
                } else if contract_addr == "swap" {
                    self.swap_query(&msg)
                } else if contract_addr == "oracle" {
                    self.oracle_query(&msg)
                } else if contract_addr == "airdrop" {
                    q_err("airdrop stub: no queries")
                } else {
                    SystemResult::Err(SystemError::NoSuchContract { addr: contract_addr })
                }
            }
            _ => SystemResult::Err(SystemError::UnsupportedRequest { kind: "wasm".to_string() }),
        }
    }

    fn swap_query(&self, msg: &Binary) -> QuerierResult {
        note_env();
        let q: SwapQueryMsg = match from_json(msg) {
            Ok(q) => q,
            Err(e) => return q_err(&e.to_string()),
        };
        match q {
            SwapQueryMsg::QuerySimulation { asset_infos, offer_asset } => {
                let ret = match self.w.swapmode {
                    SwapMode::Fail => return q_err("swap stub: fail mode"),
                    SwapMode::Garbage => 12345u128,
                    SwapMode::Ok => {
                        let ask = match &asset_infos[1] {
                            AssetInfo::NativeToken { denom } => denom.clone(),
                            _ => return q_err("swap stub: ask asset is not native"),
                        };
                        let offer = match &offer_asset.info {
                            AssetInfo::NativeToken { denom } => denom.clone(),
                            _ => return q_err("swap stub: offer asset is not native"),
                        };
                        let rate = stub_rate(self.w.price, &offer, &ask);
                        match stub_convert(offer_asset.amount.u128(), rate) {
                            Some(x) => x,
                            None => return q_err("swap stub: overflow"),
                        }
                    }
                };
                q_ok(&SimulationResponse {
                    return_amount: Uint128::new(ret),
                    spread_amount: Uint128::zero(),
                    commission_amount: Uint128::zero(),
                })
            }
            _ => q_err("swap stub: unsupported query"),
        }
    }

    fn oracle_query(&self, msg: &Binary) -> QuerierResult {
        note_env();
        let q: OracleQueryMsg = match from_json(msg) {
            Ok(q) => q,
            Err(e) => return q_err(&e.to_string()),
        };
        match q {
            OracleQueryMsg::QueryExchangeRateByAssetLabel { base_label, quote_label } => {
                match self.w.oraclemode {
                    OracleMode::Fail => q_err("oracle stub: fail mode"),
                    OracleMode::Zero => q_ok(&Decimal::zero()),
                    OracleMode::Ok => q_ok(&Decimal::new(Uint128::new(stub_rate(
                        self.w.price,
                        &base_label,
                        &quote_label,
                    )))),
                }
            }
        }
    }
}

impl<'a> Querier for WorldQuerier<'a> {
    fn raw_query(&self, bin_request: &[u8]) -> QuerierResult {
        let req: QueryRequest<Empty> = match from_json(bin_request) {
            Ok(r) => r,
            Err(e) => {
                return SystemResult::Err(SystemError::InvalidRequest {
                    error: e.to_string(),
                    request: bin_request.into(),
                })
            }
        };
        match req {
            QueryRequest::Bank(q) => self.bank(q),
            QueryRequest::Staking(q) => self.staking(q),
            QueryRequest::Wasm(q) => self.wasm(q),
            _ => SystemResult::Err(SystemError::UnsupportedRequest { kind: "other".to_string() }),
        }
    }
}

// ---------------------------------------------------------------------------------------------
// Message trace helpers
// ---------------------------------------------------------------------------------------------

pub fn coins_str(coins: &[Coin]) -> String {
    if coins.is_empty() {
        return "-".to_string();
    }
    let mut s = String::new();
    for (i, c) in coins.iter().enumerate() {
        if i > 0 {
            s.push(',');
        }
        s.push_str(&c.denom);
        s.push(':');
        s.push_str(&c.amount.u128().to_string());
    }
    s
}

/// serde variant name of a JSON message: the single key of a single-key object, else `opaque`
pub fn msg_tag(msg: &[u8]) -> String {
    match serde_json::from_slice::<serde_json::Value>(msg) {
        Ok(serde_json::Value::Object(m)) if m.len() == 1 => {
            let k = m.keys().next().unwrap();
            if !k.is_empty() && k.bytes().all(|b| b.is_ascii_graphic()) {
                k.clone()
            } else {
                "opaque".to_string()
            }
        }
        _ => "opaque".to_string(),
    }
}

// ---------------------------------------------------------------------------------------------
// Executor
// ---------------------------------------------------------------------------------------------

pub struct Executor<'w> {
    pub world: &'w mut World,
    pub trace: Vec<String>,
}

impl<'w> Executor<'w> {
    pub fn exec_wasm(
        &mut self,
        sender: &str,
        target: &str,
        msg: &Binary,
        funds: &[Coin],
        depth: usize,
    ) -> Result<(), String> {
        if depth > MAX_DEPTH {
            return Err("message nesting too deep".to_string());
        }
        self.trace.push(format!(
            "m wasm {} {} {} {}",
            sender,
            target,
            msg_tag(msg.as_slice()),
            coins_str(funds)
        ));
        // 1. target must be an instantiated contract or a stub
        if !self.world.is_instantiated_target(target) {
            return Err(format!("no such contract: {}", target));
        }
        // 2. funds
        self.world.send_coins(sender, target, funds)?;
        // 3. execute
        let messages: Vec<CosmosMsg> = match contract_index(target) {
            Some(idx) => {
                let w: &World = &*self.world;
                let env = w.env(target);
                let info =
                    MessageInfo { sender: Addr::unchecked(sender), funds: funds.to_vec() };
                let r = guarded(|| call_execute(w, idx, env, info, msg));
                let resp = match r {
                    Ok(Ok(resp)) => resp,
                    Ok(Err(e)) => return Err(e),
                    Err(()) => return Err("panic".to_string()),
                };
                // the environment model has no reply handlers (every sub-message of the contracts is
                // `SubMsg::new`, i.e. ReplyOn::Never): a sub-message that asks for a reply is outside it
                if resp.messages.iter().any(|s| s.reply_on != cosmwasm_std::ReplyOn::Never) {
                    return Err("sub-message with reply_on: reply handlers are outside the environment model".to_string());
                }
                resp.messages.into_iter().map(|s| s.msg).collect()
            }
            None => {
                self.exec_stub(sender, target, msg)?;
                vec![]
            }
        };
        // 4. sub-messages, depth first
        for m in messages {
            self.exec_cosmos(target, m, depth + 1)?;
        }
        Ok(())
    }

    fn exec_stub(&mut self, sender: &str, target: &str, msg: &Binary) -> Result<(), String> {
        match target {
            "airdrop" => Ok(()),
            "oracle" => Err("oracle stub: no execute".to_string()),
            "swap" => {
                let m: SwapExecteMsg = from_json(msg).map_err(|e| e.to_string())?;
                let SwapExecteMsg::SwapDenom { from_coin, target_denom, to_address } = m;
                let out = match self.world.swapmode {
                    SwapMode::Fail => return Err("swap stub: fail mode".to_string()),
                    SwapMode::Garbage => 1u128,
                    SwapMode::Ok => {
                        let rate = stub_rate(self.world.price, &from_coin.denom, &target_denom);
                        stub_convert(from_coin.amount.u128(), rate)
                            .ok_or_else(|| "swap stub: overflow".to_string())?
                    }
                };
                if out > 0 {
                    let to = to_address.unwrap_or_else(|| sender.to_string());
                    self.world.credit(&to, &target_denom, out)?;
                }
                Ok(())
            }
            _ => Err("no such stub".to_string()),
        }
    }

    pub fn exec_cosmos(&mut self, from: &str, msg: CosmosMsg, depth: usize) -> Result<(), String> {
        match msg {
            CosmosMsg::Wasm(WasmMsg::Execute { contract_addr, msg, funds }) => {
                self.exec_wasm(from, &contract_addr, &msg, &funds, depth)
            }
            CosmosMsg::Bank(BankMsg::Send { to_address, amount }) => {
                self.trace.push(format!("m bank {} {} {}", from, to_address, coins_str(&amount)));
                if amount.is_empty() {
                    return Err("empty coin list".to_string());
                }
                self.world.send_coins(from, &to_address, &amount)
            }
            CosmosMsg::Staking(StakingMsg::Delegate { validator, amount }) => {
                self.trace.push(format!("m delegate {} {} {}", from, validator, amount.amount.u128()));
                self.delegate(from, &validator, &amount)
            }
            CosmosMsg::Staking(StakingMsg::Undelegate { validator, amount }) => {
                self.trace
                    .push(format!("m undelegate {} {} {}", from, validator, amount.amount.u128()));
                self.undelegate(from, &validator, &amount)
            }
            CosmosMsg::Staking(StakingMsg::Redelegate { src_validator, dst_validator, amount }) => {
                self.trace.push(format!(
                    "m redelegate {} {} {} {}",
                    from,
                    src_validator,
                    dst_validator,
                    amount.amount.u128()
                ));
                self.redelegate(from, &src_validator, &dst_validator, &amount)
            }
            CosmosMsg::Distribution(DistributionMsg::WithdrawDelegatorReward { validator }) => {
                self.trace.push(format!("m withdraw {} {}", from, validator));
                let vi = val_index(&validator).ok_or("no such validator")?;
                if !self.world.delegations.contains_key(&(from.to_string(), vi)) {
                    return Err("no delegation".to_string());
                }
                self.world.payout(from, vi)
            }
            CosmosMsg::Distribution(DistributionMsg::SetWithdrawAddress { address }) => {
                self.trace.push(format!("m setwithdraw {} {}", from, address));
                self.world.withdraw_addr.insert(from.to_string(), address);
                Ok(())
            }
            _ => Err("unsupported message".to_string()),
        }
    }

    fn check_stake_coin(c: &Coin) -> Result<u128, String> {
        if c.denom != BOND_DENOM {
            return Err("wrong bond denom".to_string());
        }
        if c.amount.is_zero() {
            return Err("zero stake amount".to_string());
        }
        Ok(c.amount.u128())
    }

    fn delegate(&mut self, x: &str, validator: &str, c: &Coin) -> Result<(), String> {
        let amount = Self::check_stake_coin(c)?;
        let vi = val_index(validator).ok_or("no such validator")?;
        if self.world.balance(x, BOND_DENOM) < amount {
            return Err("insufficient funds to delegate".to_string());
        }
        let key = (x.to_string(), vi);
        if self.world.delegations.contains_key(&key) {
            self.world.payout(x, vi)?;
        }
        self.world.debit(x, BOND_DENOM, amount)?;
        let e = self.world.delegations.entry(key).or_insert(0);
        *e = e.checked_add(amount).ok_or("delegation overflow")?;
        Ok(())
    }

    fn undelegate(&mut self, x: &str, validator: &str, c: &Coin) -> Result<(), String> {
        let amount = Self::check_stake_coin(c)?;
        let vi = val_index(validator).ok_or("no such validator")?;
        let key = (x.to_string(), vi);
        let cur = *self.world.delegations.get(&key).ok_or("no delegation")?;
        if cur < amount {
            return Err("delegation too small".to_string());
        }
        self.world.payout(x, vi)?;
        if cur == amount {
            self.world.delegations.remove(&key);
        } else {
            self.world.delegations.insert(key, cur - amount);
        }
        let completion = self.world.now as u128 + self.world.ut as u128;
        self.world.unbonding.push(Unbonding {
            delegator: x.to_string(),
            validator: vi,
            amount,
            completion,
        });
        Ok(())
    }

    fn redelegate(&mut self, x: &str, src: &str, dst: &str, c: &Coin) -> Result<(), String> {
        let amount = Self::check_stake_coin(c)?;
        let si = val_index(src).ok_or("no such source validator")?;
        if !self.world.can_redelegate[si] {
            return Err("redelegation from source not allowed".to_string());
        }
        let skey = (x.to_string(), si);
        let cur = *self.world.delegations.get(&skey).ok_or("no source delegation")?;
        if cur < amount {
            return Err("source delegation too small".to_string());
        }
        let di = val_index(dst).ok_or("no such destination validator")?;
        let dkey = (x.to_string(), di);
        self.world.payout(x, si)?;
        if self.world.delegations.contains_key(&dkey) {
            self.world.payout(x, di)?;
        }
        if cur == amount {
            self.world.delegations.remove(&skey);
        } else {
            self.world.delegations.insert(skey, cur - amount);
        }
        let e = self.world.delegations.entry(dkey).or_insert(0);
        *e = e.checked_add(amount).ok_or("delegation overflow")?;
        Ok(())
    }
}

/// One atomic transaction: root wasm message `(sender, target, msg, funds)`.
/// Ok(trace) on success; on failure the world is restored and Err((reason, partial trace))
/// returned (the partial trace is for diagnostics only).
pub fn run_tx(
    world: &mut World,
    sender: &str,
    target: &str,
    msg: &Binary,
    funds: &[Coin],
) -> Result<Vec<String>, (String, Vec<String>)> {
    let snapshot = world.clone();
    let mut ex = Executor { world, trace: Vec::new() };
    match ex.exec_wasm(sender, target, msg, funds, 0) {
        Ok(()) => Ok(ex.trace),
        Err(e) => {
            let partial = std::mem::take(&mut ex.trace);
            *world = snapshot;
            Err((e, partial))
        }
    }
}

impl World {
    /// One atomic transaction whose root message is the raw JSON `json`, sent by `sender` to
    /// `contract` with `funds`: the same executor as every transaction operation (`run_tx`: real
    /// `execute` entry point, full message routing, world restored on failure).  Used by
    /// `surface-probe`, whose messages have no operation syntax.
    pub fn execute_raw(
        &mut self,
        contract: &str,
        sender: &str,
        json: &[u8],
        funds: &[(String, u128)],
    ) -> crate::ops::OpResult {
        let coins: Vec<Coin> = funds
            .iter()
            .map(|(d, a)| Coin { denom: d.clone(), amount: Uint128::new(*a) })
            .collect();
        match run_tx(self, sender, contract, &Binary::from(json.to_vec()), &coins) {
            Ok(trace) => crate::ops::OpResult { ok: true, trace, error: None, failed_trace: vec![] },
            Err((e, partial)) => {
                crate::ops::OpResult { ok: false, trace: vec![], error: Some(e), failed_trace: partial }
            }
        }
    }
}

/// `migrate C`: call the real `migrate` entry point of an instantiated contract on its current storage.
/// The result is `ok` only if it returns `Ok` with no messages; on `Err`, panic or emitted messages
/// the storage is restored (a migration that wants to send messages is outside the protocol).
pub fn run_migrate<F>(world: &mut World, idx: usize, f: F) -> Result<(), String>
where
    F: FnOnce(DepsMut, Env) -> Result<Response<Empty>, String>,
{
    if !world.inst[idx] {
        return Err("contract not instantiated".to_string());
    }
    let backup = world.stores[idx].clone();
    let r = {
        let w: &World = &*world;
        let api = api();
        let querier = WorldQuerier { w };
        let mut storage = StoreRef::new(w, idx);
        let env = w.env(ADDRS[idx]);
        guarded(|| {
            let deps =
                DepsMut { storage: &mut storage, api: &api, querier: QuerierWrapper::new(&querier) };
            f(deps, env)
        })
    };
    let res = match r {
        Ok(Ok(resp)) => {
            if resp.messages.is_empty() {
                Ok(())
            } else {
                Err("migrate emitted messages".to_string())
            }
        }
        Ok(Err(e)) => Err(e),
        Err(()) => Err("panic".to_string()),
    };
    if res.is_err() {
        world.stores[idx] = backup;
        world.stores[idx].touch();
    }
    res
}

/// `inst_*`: clear the storage, call the real `instantiate`; on failure the storage stays empty.
pub fn run_instantiate<F>(world: &mut World, idx: usize, sender: &str, f: F) -> Result<(), String>
where
    F: FnOnce(DepsMut, Env, MessageInfo) -> Result<Response<Empty>, String>,
{
    world.stores[idx].clear();
    world.inst[idx] = false;
    let r = {
        let w: &World = &*world;
        let api = api();
        let querier = WorldQuerier { w };
        let mut storage = StoreRef::new(w, idx);
        let env = w.env(ADDRS[idx]);
        let info = MessageInfo { sender: Addr::unchecked(sender), funds: vec![] };
        guarded(|| {
            let deps =
                DepsMut { storage: &mut storage, api: &api, querier: QuerierWrapper::new(&querier) };
            f(deps, env, info)
        })
    };
    match r {
        Ok(Ok(resp)) => {
            if !resp.messages.is_empty() {
                // no instantiate of the six contracts emits messages; one that does is outside the model
                world.stores[idx].clear();
                return Err("instantiate emitted messages: outside the environment model".to_string());
            }
            world.inst[idx] = true;
            Ok(())
        }
        Ok(Err(e)) => {
            world.stores[idx].clear();
            Err(e)
        }
        Err(()) => {
            world.stores[idx].clear();
            Err("panic".to_string())
        }
    }
}
