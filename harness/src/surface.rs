//! The message surface of the six contracts, derived at run time from the Rust types their real
//! entry points accept (`schemars::schema_for!`), and automatic probes of execute variants.
//!
//!   krp-harness surface [--defs]
//!       one line per message variant (structs: one line), sorted:
//!         `<contract>.<kind> <variant> <field>:<type> <field>:<type>? ...`
//!       contract = hub|reward|disp|reg|bsei|stsei, kind = instantiate|execute|query|migrate|hook,
//!       fields sorted by name, `?` = not required / nullable.  A newtype variant whose payload is
//!       a struct (`Receive(Cw20ReceiveMsg)`) prints the struct's fields (that is its wire form);
//!       any other payload prints as the single pseudo-field `=<type>`.  With `--defs` the named
//!       definitions the messages refer to are printed too, as `<contract>.def <Name> ...` (one
//!       line per struct / per variant of an enum, scalars as `=<type>`).
//!
//!   krp-harness surface-probe CONTRACT VARIANT [--why]
//!       builds a JSON instance of that execute variant from the schema (required fields only) and
//!       sends it through the real `execute` entry point, with full message routing, from several
//!       senders on clones of a standard wired world, running and with the hub paused:
//!         json <message>
//!         probe <situation> <sender> ok|err
//!         - <dump line before>            (only the lines of the canonical dump that differ)
//!         + <dump line after>
//!         end
//!       With `--why` the failure reason (`why ...`) resp. the message trace (`m ...`) follows the
//!       `probe` line (diagnostics only).
//!
//! Nothing here takes part in the model comparison.

use std::io::Write;

use cosmwasm_std::Binary;
use schemars::schema_for;
use serde_json::{json, Map, Value};

use crate::chain::World;
use crate::dump::dump;
use crate::ops::{apply_op, parse_op};

pub const CONTRACTS: [&str; 6] = ["hub", "reward", "disp", "reg", "bsei", "stsei"];

// ---------------------------------------------------------------------------------------------
// The types of the entry points
// ---------------------------------------------------------------------------------------------

fn root<T: schemars::JsonSchema>() -> Value {
    serde_json::to_value(schema_for!(T)).expect("schema to json")
}

/// (contract, kind, root schema) for every message type an entry point of /repo accepts (the
/// types named in the signatures of `contracts/*/src/contract.rs`), plus the hub's cw20 hook.
pub fn schemas() -> Vec<(&'static str, &'static str, Value)> {
    use basset_sei_rewards_dispatcher::msg as disp;
    use basset_sei_validators_registry::msg as reg;
    vec![
        ("hub", "instantiate", root::<basset::hub::InstantiateMsg>()),
        ("hub", "execute", root::<basset::hub::ExecuteMsg>()),
        ("hub", "query", root::<basset::hub::QueryMsg>()),
        ("hub", "migrate", root::<basset::hub::MigrateMsg>()),
        ("hub", "hook", root::<basset::hub::Cw20HookMsg>()),
        ("reward", "instantiate", root::<basset::reward::InstantiateMsg>()),
        ("reward", "execute", root::<basset::reward::ExecuteMsg>()),
        ("reward", "query", root::<basset::reward::QueryMsg>()),
        ("reward", "migrate", root::<basset::reward::MigrateMsg>()),
        ("disp", "instantiate", root::<disp::InstantiateMsg>()),
        ("disp", "execute", root::<disp::ExecuteMsg>()),
        ("disp", "query", root::<disp::QueryMsg>()),
        ("disp", "migrate", root::<disp::MigrateMsg>()),
        ("reg", "instantiate", root::<reg::InstantiateMsg>()),
        ("reg", "execute", root::<reg::ExecuteMsg>()),
        ("reg", "query", root::<reg::QueryMsg>()),
        ("reg", "migrate", root::<reg::MigrateMsg>()),
        ("bsei", "instantiate", root::<basset_sei_token_bsei::msg::TokenInitMsg>()),
        ("bsei", "execute", root::<cw20_legacy::msg::ExecuteMsg>()),
        ("bsei", "query", root::<cw20_legacy::msg::QueryMsg>()),
        ("bsei", "migrate", root::<basset_sei_token_bsei::msg::MigrateMsg>()),
        // the stSei token has no migrate entry point
        ("stsei", "instantiate", root::<basset_sei_token_stsei::msg::TokenInitMsg>()),
        ("stsei", "execute", root::<cw20_base::msg::ExecuteMsg>()),
        ("stsei", "query", root::<cw20_base::msg::QueryMsg>()),
    ]
}

// ---------------------------------------------------------------------------------------------
// Schema access
// ---------------------------------------------------------------------------------------------

fn defs(root: &Value) -> Option<&Map<String, Value>> {
    root.get("definitions").and_then(|d| d.as_object())
}

/// `Name` of `{"$ref": "#/definitions/Name"}`, also through the `allOf: [ref]` wrapper schemars
/// uses when a reference carries a description or a default
fn ref_name(s: &Value) -> Option<&str> {
    if let Some(r) = s.get("$ref").and_then(|r| r.as_str()) {
        return Some(r.rsplit('/').next().unwrap_or(r));
    }
    match s.get("allOf").and_then(|a| a.as_array()) {
        Some(a) if a.len() == 1 => ref_name(&a[0]),
        _ => None,
    }
}

/// follow references (at most 16 deep) to the schema that describes the value
fn resolve<'a>(root: &'a Value, s: &'a Value) -> &'a Value {
    let mut cur = s;
    for _ in 0..16 {
        match ref_name(cur).and_then(|n| defs(root).and_then(|d| d.get(n))) {
            Some(next) => cur = next,
            None => break,
        }
    }
    cur
}

fn is_null_schema(s: &Value) -> bool {
    s.get("type").and_then(|t| t.as_str()) == Some("null")
}

/// the alternatives of a sum (`oneOf` and `anyOf` together), if any
fn alternatives(s: &Value) -> Vec<&Value> {
    let mut v = vec![];
    for k in ["oneOf", "anyOf"] {
        if let Some(a) = s.get(k).and_then(|a| a.as_array()) {
            v.extend(a.iter());
        }
    }
    v
}

/// `Option<T>` renders as `anyOf [T, null]` or as `type: [T, "null"]`: (schema is nullable)
fn nullable(s: &Value) -> bool {
    if let Some(t) = s.get("type").and_then(|t| t.as_array()) {
        if t.iter().any(|x| x.as_str() == Some("null")) {
            return true;
        }
    }
    let alts = alternatives(s);
    !alts.is_empty() && alts.iter().any(|a| is_null_schema(a))
}

// ---------------------------------------------------------------------------------------------
// Canonical rendering of a field's type
// ---------------------------------------------------------------------------------------------

fn instance_type(s: &Value, name: &str) -> String {
    match name {
        "integer" | "number" => match s.get("format").and_then(|f| f.as_str()) {
            Some(f) => f.to_string(),
            None => name.to_string(),
        },
        "array" => match s.get("items") {
            Some(Value::Array(items)) => {
                let parts: Vec<String> = items.iter().map(type_str).collect();
                format!("tuple<{}>", parts.join(","))
            }
            Some(item) => format!("array<{}>", type_str(item)),
            None => "array<any>".to_string(),
        },
        "object" => match s.get("additionalProperties") {
            Some(ap) if ap.is_object() => format!("map<{}>", type_str(ap)),
            _ => "object".to_string(),
        },
        other => other.to_string(),
    }
}

/// short canonical rendering: the definition name of a reference, else the instance type (integers
/// by `format`, `array<..>`, `tuple<..>`, `map<..>`), sums as `a|b`; nullability is not part of it
pub fn type_str(s: &Value) -> String {
    if let Some(n) = ref_name(s) {
        return n.to_string();
    }
    match s {
        Value::Bool(true) => return "any".to_string(),
        Value::Bool(false) => return "never".to_string(),
        _ => {}
    }
    let alts: Vec<&Value> = alternatives(s).into_iter().filter(|a| !is_null_schema(a)).collect();
    if !alts.is_empty() {
        let mut parts: Vec<String> = alts.iter().map(|a| type_str(a)).collect();
        parts.sort();
        parts.dedup();
        return parts.join("|");
    }
    match s.get("type") {
        Some(Value::String(t)) => instance_type(s, t),
        Some(Value::Array(ts)) => {
            let mut parts: Vec<String> = ts
                .iter()
                .filter_map(|t| t.as_str())
                .filter(|t| *t != "null")
                .map(|t| instance_type(s, t))
                .collect();
            parts.sort();
            parts.join("|")
        }
        _ => {
            if s.get("enum").is_some() {
                "string".to_string()
            } else {
                "any".to_string()
            }
        }
    }
}

/// ` f:T f:T? ...` of an object schema (fields sorted by name)
fn fields_str(obj: &Value) -> String {
    let required: Vec<&str> = obj
        .get("required")
        .and_then(|r| r.as_array())
        .map(|r| r.iter().filter_map(|x| x.as_str()).collect())
        .unwrap_or_default();
    let mut names: Vec<(&String, &Value)> = match obj.get("properties").and_then(|p| p.as_object()) {
        Some(p) => p.iter().collect(),
        None => vec![],
    };
    names.sort_by(|a, b| a.0.cmp(b.0));
    let mut out = String::new();
    for (name, schema) in names {
        let optional = !required.contains(&name.as_str()) || nullable(schema);
        out.push(' ');
        out.push_str(name);
        out.push(':');
        out.push_str(&type_str(schema));
        if optional {
            out.push('?');
        }
    }
    out
}

fn is_struct_schema(s: &Value) -> bool {
    s.get("properties").is_some()
        || (s.get("type").and_then(|t| t.as_str()) == Some("object")
            && s.get("additionalProperties").map(|a| !a.is_object()).unwrap_or(true)
            && alternatives(s).is_empty())
}

/// the payload of a variant: a struct (inline, or a newtype of one) prints its fields, anything
/// else the pseudo-field `=<type>`
fn payload_str(root: &Value, payload: &Value) -> String {
    let target = resolve(root, payload);
    if is_struct_schema(target) {
        fields_str(target)
    } else {
        format!(" ={}", type_str(payload))
    }
}

/// One variant of an enum schema.
pub struct Variant<'a> {
    pub name: String,
    /// `None` = unit variant (a plain string on the wire)
    pub payload: Option<&'a Value>,
}

/// The variants of an enum schema: objects with exactly one required property (= the variant
/// name) in `oneOf` / `anyOf`, strings of an `enum` (unit variants), at the top level or inside
/// an alternative.  `None` if the schema is not of that shape (a struct).
pub fn variants(s: &Value) -> Option<Vec<Variant<'_>>> {
    fn units<'a>(v: &Value, out: &mut Vec<Variant<'a>>) {
        if let Some(e) = v.get("enum").and_then(|e| e.as_array()) {
            for x in e {
                if let Some(n) = x.as_str() {
                    out.push(Variant { name: n.to_string(), payload: None });
                }
            }
        }
    }
    let mut out = vec![];
    let alts = alternatives(s);
    if alts.is_empty() && s.get("enum").is_none() {
        return None;
    }
    units(s, &mut out);
    for a in alts {
        let req = a.get("required").and_then(|r| r.as_array());
        let props = a.get("properties").and_then(|p| p.as_object());
        match (req, props) {
            (Some(r), Some(p)) if r.len() == 1 && p.len() == 1 => {
                let n = r[0].as_str()?;
                out.push(Variant { name: n.to_string(), payload: Some(p.get(n)?) });
            }
            _ => {
                if a.get("enum").is_some() {
                    units(a, &mut out);
                } else {
                    return None;
                }
            }
        }
    }
    Some(out)
}

/// the surface lines of one message type (unsorted)
fn lines_of(contract: &str, kind: &str, root: &Value, s: &Value, name: &str, out: &mut Vec<String>) {
    match variants(s) {
        Some(vs) => {
            for v in vs {
                let rest = match v.payload {
                    Some(p) => payload_str(root, p),
                    None => String::new(),
                };
                out.push(format!("{}.{} {}{}", contract, kind, v.name, rest));
            }
        }
        None => {
            let rest =
                if is_struct_schema(s) { fields_str(s) } else { format!(" ={}", type_str(s)) };
            out.push(format!("{}.{} {}{}", contract, kind, name, rest));
        }
    }
}

/// The whole surface, sorted.  `with_defs`: also the named definitions (`<contract>.def`).
pub fn surface_lines(with_defs: bool) -> Vec<String> {
    let mut out: Vec<String> = vec![];
    for (contract, kind, root) in schemas() {
        let title = root.get("title").and_then(|t| t.as_str()).unwrap_or("?").to_string();
        lines_of(contract, kind, &root, &root, &title, &mut out);
        if with_defs {
            if let Some(d) = defs(&root) {
                for (name, s) in d {
                    match variants(s) {
                        // `Name.variant` keeps the lines of one definition together
                        Some(vs) => {
                            for v in vs {
                                let rest = match v.payload {
                                    Some(p) => payload_str(&root, p),
                                    None => String::new(),
                                };
                                out.push(format!("{}.def {}.{}{}", contract, name, v.name, rest));
                            }
                        }
                        None => lines_of(contract, "def", &root, s, name, &mut out),
                    }
                }
            }
        }
    }
    out.sort();
    out.dedup();
    out
}

// ---------------------------------------------------------------------------------------------
// Sample instances
// ---------------------------------------------------------------------------------------------

const SAMPLE_STRING: &str = "user1";

fn sample_binary() -> String {
    Binary::from(b"{}".to_vec()).to_base64()
}

/// a value of the named definition, by the conventions of the cosmwasm scalar types
fn sample_named(root: &Value, name: &str, s: &Value, depth: usize) -> Value {
    if name == "Binary" {
        return json!(sample_binary());
    }
    if name.starts_with("Decimal") || name.starts_with("SignedDecimal") {
        return json!("0.1");
    }
    if name.starts_with("Uint") || name.starts_with("Int") || name == "Timestamp" {
        return json!("1");
    }
    sample(root, s, depth + 1)
}

/// a sample value of a schema: required fields only
pub fn sample(root: &Value, s: &Value, depth: usize) -> Value {
    if depth > 16 {
        return Value::Null;
    }
    if let Some(n) = ref_name(s) {
        return match defs(root).and_then(|d| d.get(n)) {
            Some(t) => sample_named(root, n, t, depth),
            None => Value::Null,
        };
    }
    if let Some(vs) = variants(s) {
        // an enum: its first variant (null alternatives are not variants, so `variants` is None
        // for an `Option`, handled below)
        if let Some(v) = vs.first() {
            return match v.payload {
                None => json!(v.name),
                Some(p) => {
                    let mut m = Map::new();
                    m.insert(v.name.clone(), sample(root, p, depth + 1));
                    Value::Object(m)
                }
            };
        }
    }
    let alts: Vec<&Value> = alternatives(s).into_iter().filter(|a| !is_null_schema(a)).collect();
    if nullable(s) {
        return Value::Null;
    }
    if let Some(a) = alts.first() {
        return sample(root, a, depth + 1);
    }
    let t = match s.get("type") {
        Some(Value::String(t)) => t.as_str(),
        Some(Value::Array(ts)) => ts.iter().filter_map(|t| t.as_str()).find(|t| *t != "null").unwrap_or(""),
        _ => "",
    };
    match t {
        "string" => json!(SAMPLE_STRING),
        "integer" | "number" => json!(1),
        "boolean" => json!(false),
        "array" => match s.get("items") {
            // a tuple has a fixed length
            Some(Value::Array(items)) => {
                Value::Array(items.iter().map(|i| sample(root, i, depth + 1)).collect())
            }
            _ => json!([]),
        },
        "object" => {
            let mut m = Map::new();
            let required: Vec<&str> = s
                .get("required")
                .and_then(|r| r.as_array())
                .map(|r| r.iter().filter_map(|x| x.as_str()).collect())
                .unwrap_or_default();
            if let Some(p) = s.get("properties").and_then(|p| p.as_object()) {
                let mut names: Vec<&String> = p.keys().collect();
                names.sort();
                for n in names {
                    if required.contains(&n.as_str()) {
                        m.insert(n.clone(), sample(root, &p[n], depth + 1));
                    }
                }
            }
            Value::Object(m)
        }
        _ => Value::Null,
    }
}

/// the JSON message of execute variant `variant` of `contract`
pub fn sample_execute(contract: &str, variant: &str) -> Result<String, String> {
    let (_, _, root) = schemas()
        .into_iter()
        .find(|(c, k, _)| *c == contract && *k == "execute")
        .ok_or_else(|| format!("no such contract: {}", contract))?;
    let vs = variants(&root).ok_or("execute message is not an enum")?;
    let v = vs
        .iter()
        .find(|v| v.name == variant)
        .ok_or_else(|| format!("{} has no execute variant {}", contract, variant))?;
    let msg = match v.payload {
        None => json!(v.name),
        Some(p) => {
            let mut m = Map::new();
            m.insert(v.name.clone(), sample(&root, p, 0));
            Value::Object(m)
        }
    };
    serde_json::to_string(&msg).map_err(|e| e.to_string())
}

// ---------------------------------------------------------------------------------------------
// Probes
// ---------------------------------------------------------------------------------------------

/// two bonds of each kind on top of the grid's wiring script: user0 and user1 hold both tokens
const PRELUDE_BONDS: &[&str] = &[
    "bond b user0 1 usei 100000000",
    "bond st user1 1 usei 200000000",
    "bond b user1 1 usei 60000000",
    "bond st user0 1 usei 70000000",
];

const PAUSE: &str = "hub owner params - - - - 1 -";

pub const RUNNING_SENDERS: [&str; 5] = ["nobody", "user0", "owner", "hub", "updater"];
pub const PAUSED_SENDERS: [&str; 3] = ["nobody", "user0", "owner"];

fn must(world: &mut World, line: &str) -> Result<(), String> {
    let op = parse_op(line).map_err(|e| format!("prelude line `{}`: {}", line, e))?;
    let r = apply_op(world, &op);
    if r.ok {
        Ok(())
    } else {
        Err(format!("prelude line `{}` failed: {}", line, r.error.unwrap_or_default()))
    }
}

/// the standard wired world (`grid::SETUP`: reset, liquid coins, the six contracts instantiated
/// and wired) after a few bonds
pub fn prelude_world() -> Result<World, String> {
    let mut w = World::new(0);
    for l in crate::grid::SETUP.iter().chain(PRELUDE_BONDS.iter()) {
        must(&mut w, l)?;
    }
    Ok(w)
}

/// `- old` / `+ new` for the lines that differ (longest common subsequence of the two dumps)
pub fn diff_lines(a: &[String], b: &[String]) -> Vec<String> {
    let mut pre = 0;
    while pre < a.len() && pre < b.len() && a[pre] == b[pre] {
        pre += 1;
    }
    let mut suf = 0;
    while suf < a.len() - pre && suf < b.len() - pre && a[a.len() - 1 - suf] == b[b.len() - 1 - suf] {
        suf += 1;
    }
    let a = &a[pre..a.len() - suf];
    let b = &b[pre..b.len() - suf];
    let (n, m) = (a.len(), b.len());
    // l[i][j] = length of the LCS of a[i..] and b[j..]
    let mut l = vec![vec![0u32; m + 1]; n + 1];
    for i in (0..n).rev() {
        for j in (0..m).rev() {
            l[i][j] = if a[i] == b[j] { l[i + 1][j + 1] + 1 } else { l[i + 1][j].max(l[i][j + 1]) };
        }
    }
    let mut out = vec![];
    let (mut i, mut j) = (0, 0);
    while i < n || j < m {
        if i < n && j < m && a[i] == b[j] {
            i += 1;
            j += 1;
        } else if i < n && (j == m || l[i + 1][j] >= l[i][j + 1]) {
            out.push(format!("- {}", a[i]));
            i += 1;
        } else {
            out.push(format!("+ {}", b[j]));
            j += 1;
        }
    }
    out
}

fn probe_one<W: Write>(
    base: &World,
    situation: &str,
    sender: &str,
    contract: &str,
    msg: &str,
    why: bool,
    out: &mut W,
) {
    let mut w = base.clone();
    let before = dump(&w);
    let res = w.execute_raw(contract, sender, msg.as_bytes(), &[]);
    let after = dump(&w);
    writeln!(out, "probe {} {} {}", situation, sender, if res.ok { "ok" } else { "err" }).unwrap();
    if why {
        if let Some(e) = &res.error {
            writeln!(out, "why {}", e.replace('\n', " ")).unwrap();
        }
        for l in &res.trace {
            writeln!(out, "{}", l).unwrap();
        }
    }
    for l in diff_lines(&before, &after) {
        writeln!(out, "{}", l).unwrap();
    }
    writeln!(out, "end").unwrap();
}

/// `surface-probe CONTRACT VARIANT`
pub fn probe<W: Write>(contract: &str, variant: &str, why: bool, out: &mut W) -> Result<(), String> {
    if !CONTRACTS.contains(&contract) {
        return Err(format!("no such contract: {}", contract));
    }
    let msg = sample_execute(contract, variant)?;
    writeln!(out, "json {}", msg).unwrap();
    let running = prelude_world()?;
    for sender in RUNNING_SENDERS.iter() {
        probe_one(&running, "running", sender, contract, &msg, why, out);
    }
    let mut paused = running.clone();
    must(&mut paused, PAUSE)?;
    for sender in PAUSED_SENDERS.iter() {
        probe_one(&paused, "paused", sender, contract, &msg, why, out);
    }
    Ok(())
}
