//! The authorisation grid (`krp-harness grid OPSFILE OBSFILE`): every message variant of every
//! contract x every sender class x four world kinds.  Deterministic, no PRNG.
//!
//! Each grid cell is conceptually its own history (`reset`, the world's script, the cell).  To keep
//! the files small the script is replayed once and cells are emitted one after the other as long
//! as they fail (a failed transaction leaves the state unchanged); after every cell that succeeds
//! -- and after every cell that needed a preceding `gift` -- a new history is started.

use std::io::Write;

use crate::gen::Emitter;

pub const SENDERS: [&str; 12] = [
    "owner", "user5", "user6", "hub", "reward", "disp", "reg", "bsei", "stsei", "updater", "keeper",
    "airdrop",
];

pub const WORLDS: [&str; 8] = ["fresh", "evolved", "transferred", "abandoned", "pending", "repointed", "noreg", "split"];

/// the standard wiring script (also the prelude of `surface-probe`)
pub const SETUP: &[&str] = &[
    "reset 100",
    "gift user0 usei 1000000000",
    "gift user1 usei 1000000000",
    "gift user5 usei 1000000000",
    "gift user6 usei 1000000000",
    "inst_hub owner 30 100 5000000000000000 1000000000000000000 updater usei uusd",
    "inst_reward owner hub uusd swap 2 uAtom usei",
    "inst_disp owner hub reward usei uusd keeper 50000000000000000 swap oracle 3 uAtom usei uusd",
    "inst_reg owner hub 3 val0 val1 val2",
    "inst_bsei owner hub 0",
    "inst_stsei owner hub 2 0",
    "hub owner config disp reg bsei stsei airdrop reward -",
];

/// bonds of both kinds, transfers (also to the hub, so that hub-originated token messages can
/// succeed), accrue + updateglobal, an unbond of each token, advance past the epoch, another
/// unbond (closes batch 1), a slash, advance past the unbonding period, one withdrawal, allowances
const EVOLVE: &[&str] = &[
    "bond b user0 1 usei 100000000",
    "bond st user1 1 usei 200000000",
    "bond b user1 1 usei 60000000",
    "bond st user0 1 usei 70000000",
    "bond b user5 1 usei 50000000",
    "bond st user5 1 usei 30000000",
    "bond b user6 1 usei 40000000",
    "bond st user6 1 usei 20000000",
    "cw bsei user0 transfer user2 10000000",
    "cw bsei user0 transfer hub 1000",
    "cw stsei user1 transfer hub 1000",
    "accrue val0 usei 1000000",
    "accrue val1 uusd 500000",
    "hub updater updateglobal 0",
    "cw bsei user0 send hub 20000000 unbond",
    "cw stsei user1 send hub 50000000 unbond",
    "cw bsei user5 send hub 1000000 unbond",
    "cw stsei user6 send hub 1000000 unbond",
    "advance 31",
    "cw bsei user1 send hub 5000000 unbond",
    "slash val1 1 10 1",
    "advance 100",
    "hub user0 withdraw",
    "accrue val2 uusd 300000",
    "cw bsei user0 incallow user5 1000000 -",
    "cw stsei user0 incallow user5 1000000 -",
    // so that `decallow user7` can succeed for the two plain users of the sender list
    "cw bsei user5 incallow user7 100 -",
    "cw bsei user6 incallow user7 100 -",
    "cw stsei user5 incallow user7 100 -",
    "cw stsei user6 incallow user7 100 -",
];

const TRANSFER: &[&str] = &[
    "hub owner setowner user5",
    "hub user5 accept",
    "reward owner setowner user5",
    "reward user5 accept",
    "disp owner setowner user5",
    "disp user5 accept",
    "reg owner setowner user5",
    "reg user5 accept",
];

/// every ownable contract handed to a DIFFERENT account (hub: user5, reward: user6, dispatcher: hub's old
/// owner keeps it, registry: user0): the owner of one contract is a stranger to the others
const SPLIT: &[&str] = &[
    "hub owner setowner user5",
    "hub user5 accept",
    "reward owner setowner user6",
    "reward user6 accept",
    "reg owner setowner user0",
    "reg user0 accept",
];

const ABANDON: &[&str] = &[
    "hub owner setowner user5",
    "hub owner setowner owner",
    "reward owner setowner user5",
    "reward owner setowner owner",
    "disp owner setowner user5",
    "disp owner setowner owner",
    "reg owner setowner user5",
    "reg owner setowner owner",
];

/// (operation template with `S` = sender, needs a preceding `gift S usei 1000000`)
/// nominations outstanding: user5 is the nominee of all four contracts and has not accepted
const PENDING: &[&str] = &[
    "hub owner setowner user5",
    "reward owner setowner user5",
    "disp owner setowner user5",
    "reg owner setowner user5",
];

/// every configurable counterpart address re-pointed at plain accounts (user5 / user6) AFTER the
/// contracts have talked to each other: authorisation must follow the configuration in force now,
/// not the one that was in force when a contract first saw its counterpart
const REPOINT: &[&str] = &[
    "reward owner config user5 - -",
    "disp owner config user5 user6 - - - -",
    "reg owner config user5",
    "hub owner config user6 user5 - - user5 user6 user5",
];

const CELLS: &[(&str, bool)] = &[
    // hub
    ("bond b S 1 usei 1000", true),
    ("bond st S 1 usei 1000", true),
    ("bond rw S 1 usei 1000", true),
    ("hub S withdraw", false),
    ("hub S checkslashing", false),
    ("hub S updateglobal 0", false),
    ("hub S updateglobal 1", false),
    ("hub S params 30 100 5000000000000000 1000000000000000000 0 uusd", false),
    ("hub S params - - - - 1 -", false),
    ("hub S config disp reg - - airdrop reward updater", false),
    ("hub S config - - bsei - - - -", false),
    ("hub S setowner user5", false),
    ("hub S accept", false),
    ("hub S redelproxy val0 1 val1 5", false),
    ("hub S swaphook bsei airdrop", false),
    ("hub S claimairdrop bsei airdrop airdrop", false),
    ("hub S migrate -", false),
    ("hub S receive user0 5 unbond", false),
    ("hub S receive user0 5 convert", false),
    // bsei token
    ("cw bsei S transfer user1 5", false),
    ("cw bsei S burn 5", false),
    ("cw bsei S mint user0 5", false),
    ("cw bsei S send hub 5 unbond", false),
    ("cw bsei S send hub 5 convert", false),
    ("cw bsei S incallow user7 5 -", false),
    ("cw bsei S decallow user7 5 -", false),
    ("cw bsei S transferfrom user0 user2 5", false),
    ("cw bsei S burnfrom user0 5", false),
    ("cw bsei S sendfrom user0 hub 5 unbond", false),
    // stsei token
    ("cw stsei S transfer user1 5", false),
    ("cw stsei S burn 5", false),
    ("cw stsei S mint user0 5", false),
    ("cw stsei S send hub 5 unbond", false),
    ("cw stsei S send hub 5 convert", false),
    ("cw stsei S incallow user7 5 -", false),
    ("cw stsei S decallow user7 5 -", false),
    ("cw stsei S transferfrom user0 user2 5", false),
    ("cw stsei S burnfrom user0 5", false),
    ("cw stsei S sendfrom user0 hub 5 unbond", false),
    ("cw stsei S updminter hub", false),
    // reward
    ("reward S claim -", false),
    ("reward S config hub uusd swap", false),
    ("reward S setowner user5", false),
    ("reward S accept", false),
    ("reward S swap", false),
    ("reward S updateindex", false),
    ("reward S inc user0 5", false),
    ("reward S dec user0 5", false),
    ("reward S swapdenom ujunk 1", false),
    // dispatcher
    ("disp S swap 1000 1000", false),
    ("disp S dispatch", false),
    ("disp S config hub reward - uusd keeper 50000000000000000", false),
    ("disp S setowner user5", false),
    ("disp S accept", false),
    ("disp S swapcontract swap", false),
    ("disp S swapdenom ujunk 1", false),
    ("disp S oracle oracle", false),
    // registry
    ("reg S add val7", false),
    ("reg S remove val1", false),
    ("reg S config hub", false),
    ("reg S redelegations val3", false),
    ("reg S setowner user5", false),
    ("reg S accept", false),
];

fn replay<A: Write, B: Write>(em: &mut Emitter<A, B>, world: &str, cell_note: &str) {
    em.comment(&format!("grid world {} {}", world, cell_note));
    for l in SETUP {
        if world == "noreg" && l.starts_with("hub owner config") {
            // a deployment that has not registered the validators registry yet (the hub's
            // `validators_registry_contract` is still unset) and whose rewards dispatcher is a contract that
            // accepts every message (the airdrop stub): nobody may be let through by default
            em.emit_line("hub owner config airdrop - bsei stsei airdrop reward -");
        } else {
            em.emit_line(l);
        }
    }
    if world != "fresh" && world != "noreg" {
        for l in EVOLVE {
            em.emit_line(l);
        }
    }
    match world {
        "transferred" => {
            for l in TRANSFER {
                em.emit_line(l);
            }
        }
        "split" => {
            for l in SPLIT {
                em.emit_line(l);
            }
        }
        "abandoned" => {
            for l in ABANDON {
                em.emit_line(l);
            }
        }
        "pending" => {
            for l in PENDING {
                em.emit_line(l);
            }
        }
        "repointed" => {
            for l in REPOINT {
                em.emit_line(l);
            }
        }
        _ => {}
    }
}

/// Number of grid cells and how many succeeded are reported through `em.stats`; the returned pair
/// is (cells, successful cells).
pub fn generate<A: Write, B: Write>(em: &mut Emitter<A, B>) -> (u64, u64) {
    let mut cells = 0u64;
    let mut succeeded = 0u64;
    for world in WORLDS.iter() {
        let mut dirty = true; // a new history is needed before the next cell
        for (template, needs_funds) in CELLS.iter() {
            for sender in SENDERS.iter() {
                let line = template.replace(" S ", &format!(" {} ", sender));
                if dirty {
                    replay(em, world, &format!("from cell `{}`", line));
                    dirty = false;
                }
                if *needs_funds {
                    em.emit_line(&format!("gift {} usei 1000000", sender));
                }
                let res = em.emit_line(&line);
                cells += 1;
                if res.ok {
                    succeeded += 1;
                }
                if res.ok || *needs_funds {
                    dirty = true;
                }
            }
        }
    }
    em.finish();
    (cells, succeeded)
}
