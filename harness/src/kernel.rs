//! Kernel streams (T1) of PROTOCOL.md section 6: the arithmetic kernels of /repo called directly
//! on structured pseudo-random inputs.  One line per case: `ARGS => RESULT`.

use std::io::Write;
use std::str::FromStr;

use cosmwasm_bignumber::Uint256;
use cosmwasm_std::{Decimal, Uint128};
use signed_integer::SignedInt;

use basset_sei_validators_registry::common::{calculate_delegations, calculate_undelegations};
use basset_sei_validators_registry::registry::ValidatorResponse;

use crate::chain::guarded;

pub const KERNELS: [&str; 6] = ["deleg", "undeleg", "ddiv", "nwr", "swapinfo", "drewards"];

const E18: u128 = 1_000_000_000_000_000_000;

// ---------------------------------------------------------------------------------------------
// PRNG (splitmix64) and structured generators
// ---------------------------------------------------------------------------------------------

pub struct Rng(pub u64);

impl Rng {
    pub fn new(seed: u64) -> Rng {
        Rng(seed)
    }
    pub fn next_u64(&mut self) -> u64 {
        self.0 = self.0.wrapping_add(0x9E37_79B9_7F4A_7C15);
        let mut z = self.0;
        z = (z ^ (z >> 30)).wrapping_mul(0xBF58_476D_1CE4_E5B9);
        z = (z ^ (z >> 27)).wrapping_mul(0x94D0_49BB_1331_11EB);
        z ^ (z >> 31)
    }
    pub fn next_u128(&mut self) -> u128 {
        ((self.next_u64() as u128) << 64) | self.next_u64() as u128
    }
    /// uniform in 0..n (n > 0)
    pub fn below(&mut self, n: u64) -> u64 {
        self.next_u64() % n
    }
    pub fn below128(&mut self, n: u128) -> u128 {
        self.next_u128() % n
    }
    /// uniform in lo..=hi
    pub fn range(&mut self, lo: u64, hi: u64) -> u64 {
        lo + self.below(hi - lo + 1)
    }
    pub fn pct(&mut self, p: u64) -> bool {
        self.below(100) < p
    }
    pub fn pick<T: Copy>(&mut self, xs: &[T]) -> T {
        xs[self.below(xs.len() as u64) as usize]
    }
    /// a number with a uniformly chosen bit length in 0..=max_bits
    pub fn bits(&mut self, max_bits: u32) -> u128 {
        let b = self.below(max_bits as u64 + 1) as u32;
        if b == 0 {
            0
        } else if b == 128 {
            self.next_u128() | (1u128 << 127)
        } else {
            (self.next_u128() & ((1u128 << b) - 1)) | (1u128 << (b - 1))
        }
    }
    /// 10^k for k in lo..=hi times a random mantissa in [1,10)
    pub fn log10(&mut self, lo: u32, hi: u32) -> u128 {
        let k = self.range(lo as u64, hi as u64) as u32;
        let base = 10u128.pow(k);
        if self.pct(30) {
            base
        } else if k >= 3 {
            base / 1000 * self.range(1000, 9999) as u128
        } else {
            base * self.range(1, 9) as u128
        }
    }
}

const BOUNDARY: [u128; 24] = [
    0,
    1,
    2,
    3,
    E18 - 1,
    E18,
    E18 + 1,
    2 * E18,
    (1u128 << 63) - 1,
    1u128 << 63,
    (1u128 << 64) - 1,
    1u128 << 64,
    (1u128 << 64) + 1,
    1_000_000,
    1_000_000_000_000,
    1_000_000_000_000_000_000_000_000_000_000, // 1e30
    1_000_000_000_000_000_000_000_000_000_000_000_000, // 1e36
    (1u128 << 127) - 1,
    1u128 << 127,
    (1u128 << 127) + 1,
    u128::MAX - 2,
    u128::MAX - 1,
    u128::MAX,
    u128::MAX / E18,
];

/// token / coin amounts
pub fn gen_amount(r: &mut Rng) -> u128 {
    match r.below(100) {
        0..=24 => r.below(11) as u128,                // tiny, many ties
        25..=44 => r.below(1_000_000_000) as u128,    // small
        45..=64 => r.below128(E18 + 1),               // envelope
        65..=76 => r.log10(0, 18),                    // round-ish numbers
        77..=88 => r.pick(&BOUNDARY),                 // boundaries
        89..=94 => r.bits(128),                       // anywhere
        _ => {
            // just around a boundary
            let b = r.pick(&BOUNDARY);
            let dlt = r.below(3) as u128;
            if r.pct(50) {
                b.saturating_add(dlt)
            } else {
                b.saturating_sub(dlt)
            }
        }
    }
}

/// Decimal atomics: rates, prices, indices
/// a decimal with EXACTLY k significant fractional digits, k uniform in 0..=18 (its decimal string, through
/// which every Decimal <-> Decimal256 conversion of the contracts goes, has k digits after the point)
pub fn short_fraction(r: &mut Rng) -> u128 {
    let k = r.below(19) as u32;
    let unit = 10u128.pow(18 - k);
    let mut m = 1 + r.below128(10u128.pow(k.min(12) + 3));
    if k > 0 && m % 10 == 0 {
        m += 1 + r.below(9) as u128;
    }
    m.saturating_mul(unit)
}

pub fn gen_rate(r: &mut Rng) -> u128 {
    match r.below(100) {
        0..=5 => r.pick(&[0u128, 1, E18 - 1, E18, E18 + 1]),
        6..=9 => short_fraction(r),
        10..=39 => {
            // around 1.0 : 1e18 +- up to 10%
            let dlt = r.below128(E18 / 10);
            if r.pct(60) {
                E18 - dlt
            } else {
                E18 + dlt
            }
        }
        40..=49 => {
            // very close to 1.0
            let dlt = r.below(1000) as u128;
            if r.pct(50) {
                E18 - dlt
            } else {
                E18 + dlt
            }
        }
        50..=79 => r.log10(6, 30),
        80..=87 => r.pick(&BOUNDARY),
        88..=93 => r.below128(E18),
        _ => r.bits(128),
    }
}

/// validator delegation lists: length 0..=12, several shapes
pub fn gen_list(r: &mut Rng) -> Vec<u128> {
    let len = match r.below(100) {
        0..=4 => 0,
        5..=19 => 1,
        _ => r.range(2, 12),
    } as usize;
    let shape = r.below(100);
    let mut v: Vec<u128> = (0..len)
        .map(|_| match shape {
            0..=29 => r.below(4) as u128,                 // heavy ties
            30..=49 => r.below(1000) as u128,
            50..=64 => r.below128(E18 + 1),
            65..=74 => gen_amount(r),
            75..=79 => r.pick(&[0u128, 1, 1u128 << 127, u128::MAX, u128::MAX / 2, u128::MAX / 3]),
            80..=89 => {
                // nearly equal values
                1_000_000 + r.below(3) as u128
            }
            _ => r.log10(0, 30),
        })
        .collect();
    match r.below(4) {
        0 => v.sort(),
        1 => {
            v.sort();
            v.reverse();
        }
        _ => {}
    }
    v
}

fn sum_sat(v: &[u128]) -> u128 {
    v.iter().fold(0u128, |a, b| a.saturating_add(*b))
}

fn list_str(v: &[u128]) -> String {
    let mut s = String::from("[");
    for (i, x) in v.iter().enumerate() {
        if i > 0 {
            s.push(',');
        }
        s.push_str(&x.to_string());
    }
    s.push(']');
    s
}
fn list_str_u(v: &[Uint128]) -> String {
    list_str(&v.iter().map(|x| x.u128()).collect::<Vec<_>>())
}

fn validators(ds: &[u128]) -> Vec<ValidatorResponse> {
    ds.iter()
        .enumerate()
        .map(|(i, d)| ValidatorResponse { total_delegated: Uint128::new(*d), address: format!("v{}", i) })
        .collect()
}

fn dec(a: u128) -> Decimal {
    Decimal::new(Uint128::new(a))
}

// ---------------------------------------------------------------------------------------------
// Kernels: evaluate one case (also usable by other tools)
// ---------------------------------------------------------------------------------------------

pub fn k_deleg(amount: u128, ds: &[u128]) -> String {
    let vs = validators(ds);
    match guarded(|| calculate_delegations(Uint128::new(amount), &vs)) {
        Ok(Ok((rem, xs))) => format!("{} {}", rem, list_str_u(&xs)),
        _ => "err".to_string(),
    }
}

pub fn k_undeleg(amount: u128, ds: &[u128]) -> String {
    let vs = validators(ds);
    match guarded(|| calculate_undelegations(Uint128::new(amount), vs)) {
        Ok(Ok(ys)) => list_str_u(&ys),
        _ => "err".to_string(),
    }
}

pub fn k_ddiv(a: u128, rate: u128) -> String {
    match guarded(|| basset_sei_hub::verif_decimal_division(Uint128::new(a), dec(rate))) {
        Ok(x) => x.to_string(),
        Err(()) => "err".to_string(),
    }
}

pub fn k_nwr(amount: u128, rate: u128, total: Uint256, slashed: u128, neg: bool) -> String {
    match guarded(|| {
        basset_sei_hub::verif_calculate_new_withdraw_rate(
            Uint128::new(amount),
            dec(rate),
            total,
            SignedInt(Uint128::new(slashed), neg),
        )
    }) {
        Ok(x) => x.atomics().to_string(),
        Err(()) => "err".to_string(),
    }
}

pub fn swapinfo_config() -> basset_sei_rewards_dispatcher::state::Config {
    use cosmwasm_std::CanonicalAddr;
    let z = || CanonicalAddr::from(vec![0u8; 4]);
    basset_sei_rewards_dispatcher::state::Config {
        owner: z(),
        hub_contract: z(),
        bsei_reward_contract: z(),
        stsei_reward_denom: "usei".to_string(),
        bsei_reward_denom: "uusd".to_string(),
        krp_keeper_address: z(),
        krp_keeper_rate: Decimal::zero(),
        swap_contract: z(),
        swap_denoms: vec![],
        oracle_contract: z(),
    }
}

pub fn k_swapinfo(stb: u128, bb: u128, rst: u128, rb: u128, x_b2st: u128, x_st2b: u128) -> String {
    match guarded(|| {
        basset_sei_rewards_dispatcher::contract::verif_get_swap_info(
            swapinfo_config(),
            Uint128::new(stb),
            Uint128::new(bb),
            Uint128::new(rst),
            Uint128::new(rb),
            dec(x_b2st),
            dec(x_st2b),
        )
    }) {
        Ok(Ok((coin, ask))) => format!("{} {} {}", coin.denom, coin.amount, ask),
        _ => "err".to_string(),
    }
}

pub fn k_drewards(global: u128, user: u128, balance: u128) -> String {
    match guarded(|| {
        basset_sei_reward::verif_calculate_decimal_rewards(dec(global), dec(user), Uint128::new(balance))
    }) {
        Ok(x) => x.atomics().to_string(),
        Err(()) => "err".to_string(),
    }
}

// ---------------------------------------------------------------------------------------------
// Case generators: one line `ARGS => RESULT`
// ---------------------------------------------------------------------------------------------

fn case_deleg(r: &mut Rng) -> String {
    let ds = gen_list(r);
    let amount = match r.below(10) {
        0 => 0,
        1 => r.below(ds.len() as u64 + 3) as u128,
        _ => gen_amount(r),
    };
    format!("{} {} => {}", amount, list_str(&ds), k_deleg(amount, &ds))
}

fn case_undeleg(r: &mut Rng) -> String {
    let ds = gen_list(r);
    let total = sum_sat(&ds);
    let amount = match r.below(100) {
        0..=9 => 0,
        10..=19 => total,
        20..=29 => total.saturating_add(1 + r.below(3) as u128),
        30..=39 => total.saturating_sub(r.below(3) as u128),
        40..=84 => {
            if total == 0 {
                0
            } else {
                r.below128(total) + 1
            }
        }
        85..=92 => r.below(ds.len() as u64 + 3) as u128,
        _ => gen_amount(r),
    };
    format!("{} {} => {}", amount, list_str(&ds), k_undeleg(amount, &ds))
}

fn case_ddiv(r: &mut Rng) -> String {
    let a = gen_amount(r);
    let rate = gen_rate(r);
    format!("{} {} => {}", a, rate, k_ddiv(a, rate))
}

type W256 = cosmwasm_std::Uint256;

fn w256(x: u128) -> W256 {
    W256::from(x)
}
fn to_big(x: W256) -> Uint256 {
    Uint256::from_str(&x.to_string()).expect("decimal string")
}
fn clamp128(x: W256) -> u128 {
    Uint128::try_from(x).map(|v| v.u128()).unwrap_or(u128::MAX)
}

fn case_nwr(r: &mut Rng) -> String {
    let amount = gen_amount(r);
    let rate = match r.below(10) {
        0..=5 => {
            // withdraw rates live in (0, 1] mostly
            let dlt = r.below128(E18 / 5);
            E18 - dlt
        }
        _ => gen_rate(r),
    };
    // unbonded amount of this batch = floor(amount * rate / 1e18)   (< 2^256 / 1e18)
    let own: W256 = w256(amount) * w256(rate) / w256(E18);
    let total: W256 = match r.below(100) {
        0..=7 => W256::zero(),
        8..=37 => own,                                         // single-batch group
        38..=72 => own + w256(gen_amount(r) % (E18 + 1)),      // several batches
        73..=82 => w256(gen_amount(r)),                        // unrelated
        83..=90 => own + own,                                  // two equal batches
        91..=95 => w256(u128::MAX) * w256(r.range(1, 1000) as u128), // beyond 128 bits
        _ => {
            // smaller than own (inconsistent input)
            let o = clamp128(own);
            w256(if o == 0 { 0 } else { r.below128(o) })
        }
    };
    let total_u128 = clamp128(total);
    let slashed = match r.below(100) {
        0..=19 => 0,
        20..=34 => r.below(5) as u128,
        35..=69 => {
            if total_u128 == 0 {
                0
            } else {
                r.below128(total_u128) / (1 + r.below(100) as u128)
            }
        }
        70..=79 => total_u128,
        80..=87 => total_u128.saturating_add(r.below(3) as u128),
        _ => gen_amount(r),
    };
    let neg = r.pct(30);
    format!(
        "{} {} {} {} {} => {}",
        amount,
        rate,
        total,
        slashed,
        if neg { 1 } else { 0 },
        k_nwr(amount, rate, to_big(total), slashed, neg)
    )
}

fn case_swapinfo(r: &mut Rng) -> String {
    let bonded = |r: &mut Rng| match r.below(10) {
        0 => 0,
        1..=6 => r.below128(E18 + 1),
        _ => gen_amount(r),
    };
    let stb = bonded(r);
    let bb = bonded(r);
    let rewards = |r: &mut Rng| match r.below(10) {
        0..=1 => 0,
        2..=7 => r.below128(1_000_000_000_000 + 1),
        _ => gen_amount(r),
    };
    let rst = rewards(r);
    let rb = rewards(r);
    // x_st2b = price of 1 usei in uusd; x_b2st = its inverse (as Decimal::inv does), mostly
    let p = match r.below(10) {
        0..=5 => r.log10(6, 30),
        6..=7 => gen_rate(r),
        _ => E18,
    };
    let inv = if p == 0 { 0 } else { (E18 * E18) / p };
    let (x_b2st, x_st2b) = match r.below(10) {
        0..=6 => (inv, p),
        7 => (p, inv),
        _ => (gen_rate(r), gen_rate(r)),
    };
    format!(
        "{} {} {} {} {} {} => {}",
        stb,
        bb,
        rst,
        rb,
        x_b2st,
        x_st2b,
        k_swapinfo(stb, bb, rst, rb, x_b2st, x_st2b)
    )
}

fn case_drewards(r: &mut Rng) -> String {
    let index = |r: &mut Rng| match r.below(20) {
        0 => 0,
        1..=9 => r.below128(10 * E18),
        10..=12 => r.below128(1000 * E18),
        13..=14 => r.log10(0, 30),
        15..=16 => gen_rate(r),
        17 => short_fraction(r),
        _ => r.below(1_000_000) as u128,
    };
    let a = index(r);
    let b = index(r);
    let (global, user) = match r.below(20) {
        0..=1 => (a, a),
        2 => (a.min(b), a.max(b)), // user index above global: underflow
        _ => (a.max(b), a.min(b)),
    };
    let balance = match r.below(20) {
        0..=8 => r.below(1_000_000_000) as u128,
        9..=14 => r.below128(E18 + 1),
        _ => gen_amount(r),
    };
    format!("{} {} {} => {}", global, user, balance, k_drewards(global, user, balance))
}

pub fn case(name: &str, r: &mut Rng) -> Option<String> {
    Some(match name {
        "deleg" => case_deleg(r),
        "undeleg" => case_undeleg(r),
        "ddiv" => case_ddiv(r),
        "nwr" => case_nwr(r),
        "swapinfo" => case_swapinfo(r),
        "drewards" => case_drewards(r),
        _ => return None,
    })
}

pub fn stream<W: Write>(name: &str, seed: u64, count: u64, w: &mut W) -> Result<(), String> {
    if !KERNELS.contains(&name) {
        return Err(format!("unknown kernel `{}` (expected one of {})", name, KERNELS.join("|")));
    }
    // decorrelate streams of different kernels run with the same seed
    let mut h: u64 = seed ^ 0x6b72_702d_7665_7269;
    for b in name.bytes() {
        h = h.rotate_left(7) ^ (b as u64);
    }
    let mut r = Rng::new(h);
    // PROTOCOL.md section 6: lines are `ARGS => RESULT` (no kernel name).  KRP_KERNEL_PREFIX=1
    // prints `NAME ARGS => RESULT` instead, should the other side expect the name as first token.
    let prefix = std::env::var("KRP_KERNEL_PREFIX").map(|v| v == "1").unwrap_or(false);
    for _ in 0..count {
        let line = case(name, &mut r).unwrap();
        if prefix {
            writeln!(w, "{} {}", name, line).map_err(|e| e.to_string())?;
        } else {
            writeln!(w, "{}", line).map_err(|e| e.to_string())?;
        }
    }
    Ok(())
}

// ---------------------------------------------------------------------------------------------
// Evaluation of externally supplied cases (sweeps, replays)
// ---------------------------------------------------------------------------------------------

fn parse_list(t: &str) -> Result<Vec<u128>, String> {
    let inner = t
        .strip_prefix('[')
        .and_then(|x| x.strip_suffix(']'))
        .ok_or_else(|| format!("bad list `{}`", t))?;
    if inner.is_empty() {
        return Ok(vec![]);
    }
    inner.split(',').map(crate::ops::parse_u128).collect()
}

/// Evaluate one case given as `ARGS` (anything from ` =>` on is ignored); returns `ARGS => RESULT`.
pub fn eval_line(name: &str, line: &str) -> Result<String, String> {
    let args = match line.find("=>") {
        Some(i) => &line[..i],
        None => line,
    };
    let mut toks: Vec<&str> = args.split_whitespace().collect();
    if toks.first().copied() == Some(name) {
        toks.remove(0);
    }
    let n = |i: usize| -> Result<u128, String> {
        crate::ops::parse_u128(toks.get(i).copied().ok_or("missing argument")?)
    };
    let res = match name {
        "deleg" | "undeleg" => {
            if toks.len() != 2 {
                return Err("expected: AMOUNT [d0,..]".to_string());
            }
            let ds = parse_list(toks[1])?;
            if name == "deleg" {
                k_deleg(n(0)?, &ds)
            } else {
                k_undeleg(n(0)?, &ds)
            }
        }
        "ddiv" => {
            if toks.len() != 2 {
                return Err("expected: A RATE".to_string());
            }
            k_ddiv(n(0)?, n(1)?)
        }
        "nwr" => {
            if toks.len() != 5 {
                return Err("expected: AMOUNT RATE TOTAL SLASHED NEG".to_string());
            }
            let total = Uint256::from_str(toks[2]).map_err(|e| e.to_string())?;
            let neg = match toks[4] {
                "0" => false,
                "1" => true,
                _ => return Err("NEG must be 0|1".to_string()),
            };
            k_nwr(n(0)?, n(1)?, total, n(3)?, neg)
        }
        "swapinfo" => {
            if toks.len() != 6 {
                return Err("expected: STB BB RST RB X_B2ST X_ST2B".to_string());
            }
            k_swapinfo(n(0)?, n(1)?, n(2)?, n(3)?, n(4)?, n(5)?)
        }
        "drewards" => {
            if toks.len() != 3 {
                return Err("expected: GLOBAL USER BALANCE".to_string());
            }
            k_drewards(n(0)?, n(1)?, n(2)?)
        }
        _ => return Err(format!("unknown kernel `{}`", name)),
    };
    Ok(format!("{} => {}", toks.join(" "), res))
}
