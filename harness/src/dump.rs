#![allow(deprecated)]
//! The observation printer of PROTOCOL.md section 5.
//!
//! Every value comes from the real `query` entry points / the contracts' public state items, as
//! the protocol prescribes.  A dump issues > 1000 queries (the allowance matrix alone is
//! 2 x 21 x 21), so the output is produced in small *fragments* that are memoised soundly:
//! while a fragment is computed every storage read it performs (directly or through nested
//! contract queries) is recorded with its result; the fragment's lines are reused later only if
//! the block time and the `instantiated` flags are the same and every recorded read still returns
//! the recorded result (short-cut: the stores it read still carry the same content version).
//! A fragment that consulted anything else (bank, staking, stub contracts) is never reused.
//! Since the contracts are deterministic functions of (message, env, storage reads, querier
//! answers) the memoised text is exactly what re-running the queries would give.
//! `KRP_NO_CACHE=1` (or `set_cache_enabled(false)`) disables the memoisation.

use std::cell::RefCell;
use std::collections::HashMap;
use std::fmt::Write;

use cosmwasm_std::{Decimal, Order, Uint128};
use cosmwasm_storage::ReadonlyBucket;
use cw20::{
    AllAccountsResponse, AllAllowancesResponse, AllSpenderAllowancesResponse, AllowanceResponse,
    BalanceResponse, DownloadLogoResponse, Expiration, LogoInfo, MarketingInfoResponse,
    MinterResponse, TokenInfoResponse,
};

use crate::chain::*;

fn d(x: Decimal) -> u128 {
    x.atomics().u128()
}
fn opt_addr(c: &Option<cosmwasm_std::CanonicalAddr>) -> String {
    match c {
        Some(a) => humanize(a),
        None => "-".to_string(),
    }
}
fn opt_str(c: &Option<String>) -> String {
    match c {
        Some(a) => word(a),
        None => "-".to_string(),
    }
}
/// a free-text value as one token: blanks become `_`, the empty string `""`
fn word(s: &str) -> String {
    if s.is_empty() {
        "\"\"".to_string()
    } else {
        s.replace(' ', "_")
    }
}
fn exp_str(e: &Expiration) -> String {
    match e {
        Expiration::Never {} => "never".to_string(),
        Expiration::AtHeight(h) => format!("h{}", h),
        Expiration::AtTime(t) => format!("t{}", t.seconds()),
    }
}

// ---------------------------------------------------------------------------------------------
// Fragment memoisation
// ---------------------------------------------------------------------------------------------

static CACHE_ENABLED: std::sync::atomic::AtomicBool = std::sync::atomic::AtomicBool::new(true);

pub fn set_cache_enabled(v: bool) {
    CACHE_ENABLED.store(v, std::sync::atomic::Ordering::Relaxed);
}
fn cache_enabled() -> bool {
    CACHE_ENABLED.load(std::sync::atomic::Ordering::Relaxed)
}

struct Entry {
    now: u64,
    inst: [bool; N_CONTRACTS],
    /// stores read (bit i = store i) and their versions when last validated
    mask: u8,
    vers: [u64; N_CONTRACTS],
    reads: Vec<Read>,
    lines: Vec<String>,
}

thread_local! {
    static CACHE: RefCell<HashMap<u32, Entry>> = RefCell::new(HashMap::new());
}

/// drop all memoised fragments (never needed for correctness)
pub fn clear_cache() {
    CACHE.with(|c| c.borrow_mut().clear());
}

// fragment kinds
const K_HUB_CFG: u32 = 1;
const K_HUB_NEWOWNER: u32 = 2;
const K_HUB_PARAMS: u32 = 3;
const K_HUB_STORED: u32 = 4;
const K_HUB_STATE: u32 = 5;
const K_HUB_BATCH: u32 = 6;
const K_HUB_HIST: u32 = 7;
const K_HUB_WAIT: u32 = 8;
const K_HUB_WD: u32 = 9;
const K_HUB_OLDWAIT: u32 = 10;
const K_TOK_INFO: u32 = 11;
const K_TOK_BAL: u32 = 12;
const K_TOK_ALLOW: u32 = 13;
const K_RW_CFG: u32 = 14;
const K_RW_NEWOWNER: u32 = 15;
const K_RW_STATE: u32 = 16;
const K_RW_HOLDER: u32 = 17;
const K_RW_ACCRUED: u32 = 18;
const K_DP_CFG: u32 = 19;
const K_DP_NEWOWNER: u32 = 20;
const K_RG_CFG: u32 = 21;
const K_RG_NEWOWNER: u32 = 22;
const K_RG_VALS: u32 = 23;
// observations obtained through the query entry points that the lines above read from storage,
// and the paged listings (PROTOCOL.md section 5, DESIGN.md 11.10)
const K_HUB_QCFG: u32 = 24;
const K_HUB_QNEWOWNER: u32 = 25;
const K_HUB_QPARAMS: u32 = 26;
const K_TOK_META: u32 = 28;
const K_TOK_ACCOUNTS: u32 = 29;
const K_TOK_ALLALLOW: u32 = 30;
const K_TOK_SPALLOW: u32 = 31;
const K_TOK_MARKETING: u32 = 32;
const K_RW_QCFG: u32 = 33;
const K_RW_QNEWOWNER: u32 = 34;
const K_RW_QSTATE: u32 = 35;
const K_RW_QHOLDERS: u32 = 36;
const K_DP_QCFG: u32 = 37;
const K_DP_QNEWOWNER: u32 = 38;
const K_RG_QCFG: u32 = 39;
const K_RG_QNEWOWNER: u32 = 40;
const K_HUB_QHIST: u32 = 41;

fn key(kind: u32, tok: usize, a: usize, b: usize) -> u32 {
    (kind << 24) | ((tok as u32) << 16) | ((a as u32) << 8) | b as u32
}

fn frag(w: &World, key: u32, out: &mut Vec<String>, f: impl FnOnce(&mut Vec<String>)) {
    if !cache_enabled() {
        f(out);
        return;
    }
    let hit = CACHE.with(|c| {
        let mut c = c.borrow_mut();
        if let Some(e) = c.get_mut(&key) {
            if e.now == w.now && e.inst == w.inst {
                let fast = (0..N_CONTRACTS)
                    .all(|i| e.mask & (1 << i) == 0 || e.vers[i] == w.stores[i].version());
                if fast || e.reads.iter().all(|r| r.still_valid(w)) {
                    if !fast {
                        for i in 0..N_CONTRACTS {
                            e.vers[i] = w.stores[i].version();
                        }
                    }
                    out.extend(e.lines.iter().cloned());
                    return true;
                }
            }
        }
        false
    });
    if hit {
        return;
    }
    let start = out.len();
    track_begin();
    f(out);
    let t = track_end();
    CACHE.with(|c| {
        let mut c = c.borrow_mut();
        if t.env {
            c.remove(&key);
        } else {
            let mut mask = 0u8;
            for r in &t.reads {
                mask |= 1 << r.store();
            }
            let mut vers = [0u64; N_CONTRACTS];
            for (i, v) in vers.iter_mut().enumerate() {
                *v = w.stores[i].version();
            }
            c.insert(
                key,
                Entry {
                    now: w.now,
                    inst: w.inst,
                    mask,
                    vers,
                    reads: t.reads,
                    lines: out[start..].to_vec(),
                },
            );
        }
    });
}

// ---------------------------------------------------------------------------------------------
// Paged listings (PROTOCOL.md section 5, "Paging")
// ---------------------------------------------------------------------------------------------

/// page K (0-based) of every address-cursor listing asks for 2 entries if K is even, 3 if odd
pub fn page_limit(k: usize) -> u32 {
    if k % 2 == 0 {
        2
    } else {
        3
    }
}
/// no listing of 21 names needs more than 10 pages; a contract whose cursor does not advance is
/// cut off here (`<key> overflow`)
const PAGE_CAP: usize = 24;

/// `hub.qhist`: number of small pages of the hub's AllHistory that are fetched
const HIST_PAGES: usize = 4;

enum PageEnd {
    Done,
    /// the query of page K failed (Err or panic)
    Failed(usize),
    Overflow,
}

/// Page through a listing the way a client does: first page without cursor, every further page
/// with `start_after` = the cursor of the last entry of the previous page, until a page comes back
/// with fewer entries than were asked for.  Returns the entries with their page numbers.
fn paged<T>(
    mut fetch: impl FnMut(Option<String>, u32) -> Result<Vec<T>, String>,
    cursor: impl Fn(&T) -> String,
) -> (Vec<(usize, T)>, PageEnd) {
    let mut all: Vec<(usize, T)> = Vec::new();
    let mut start: Option<String> = None;
    for k in 0..PAGE_CAP {
        let lim = page_limit(k);
        let items = match fetch(start.clone(), lim) {
            Ok(v) => v,
            Err(_) => return (all, PageEnd::Failed(k)),
        };
        let n = items.len();
        if let Some(last) = items.last() {
            start = Some(cursor(last));
        }
        all.extend(items.into_iter().map(|it| (k, it)));
        if (n as u32) < lim {
            return (all, PageEnd::Done);
        }
    }
    (all, PageEnd::Overflow)
}

fn page_end(prefix: &str, end: PageEnd, out: &mut Vec<String>) {
    match end {
        PageEnd::Done => {}
        PageEnd::Failed(k) => out.push(format!("{} err {}", prefix, k)),
        PageEnd::Overflow => out.push(format!("{} overflow", prefix)),
    }
}

// ---------------------------------------------------------------------------------------------
// The dump
// ---------------------------------------------------------------------------------------------

pub fn dump(w: &World) -> Vec<String> {
    let mut out: Vec<String> = Vec::with_capacity(64);
    out.push(format!("t {}", w.now));
    dump_hub(w, &mut out);
    dump_token(w, BSEI, "bsei", &mut out);
    dump_token(w, STSEI, "stsei", &mut out);
    dump_reward(w, &mut out);
    dump_disp(w, &mut out);
    dump_reg(w, &mut out);
    dump_env(w, &mut out);
    out
}

fn dump_hub(w: &World, out: &mut Vec<String>) {
    use basset::hub::*;
    use basset_sei_hub::state::{read_new_owner, CONFIG, PARAMETERS, STATE};
    if !w.inst[HUB] {
        out.push("hub.none".to_string());
        return;
    }
    frag(w, key(K_HUB_CFG, 0, 0, 0), out, |out| {
        let st = StoreRef::new(w, HUB);
        match CONFIG.load(&st) {
            Ok(c) => out.push(format!(
                "hub.cfg {} {} {} {} {} {} {} {}",
                humanize(&c.creator),
                humanize(&c.update_reward_index_addr),
                opt_addr(&c.reward_dispatcher_contract),
                opt_addr(&c.validators_registry_contract),
                opt_addr(&c.bsei_token_contract),
                opt_addr(&c.stsei_token_contract),
                opt_addr(&c.airdrop_registry_contract),
                opt_addr(&c.rewards_contract),
            )),
            Err(_) => out.push("hub.cfg err".to_string()),
        }
    });
    frag(w, key(K_HUB_QCFG, 0, 0, 0), out, |out| {
        match query_contract::<_, ConfigResponse>(w, HUB, &QueryMsg::Config {}) {
            Ok(c) => out.push(format!(
                "hub.qcfg {} {} {} {} {} {} {} {}",
                c.owner,
                c.update_reward_index_addr,
                opt_str(&c.reward_dispatcher_contract),
                opt_str(&c.validators_registry_contract),
                opt_str(&c.bsei_token_contract),
                opt_str(&c.stsei_token_contract),
                opt_str(&c.airdrop_registry_contract),
                opt_str(&c.token_contract),
            )),
            Err(_) => out.push("hub.qcfg err".to_string()),
        }
    });
    frag(w, key(K_HUB_NEWOWNER, 0, 0, 0), out, |out| {
        let st = StoreRef::new(w, HUB);
        match read_new_owner(&st) {
            Ok(n) => out.push(format!("hub.newowner {}", humanize(&n.new_owner_addr))),
            Err(_) => out.push("hub.newowner err".to_string()),
        }
    });
    frag(w, key(K_HUB_QNEWOWNER, 0, 0, 0), out, |out| {
        match query_contract::<_, NewOwnerResponse>(w, HUB, &QueryMsg::NewOwner {}) {
            Ok(n) => out.push(format!("hub.qnewowner {}", word(&n.new_owner))),
            Err(_) => out.push("hub.qnewowner err".to_string()),
        }
    });
    frag(w, key(K_HUB_PARAMS, 0, 0, 0), out, |out| {
        let st = StoreRef::new(w, HUB);
        match PARAMETERS.load(&st) {
            Ok(p) => out.push(format!(
                "hub.params {} {} {} {} {} {} {}",
                p.epoch_period,
                p.underlying_coin_denom,
                p.unbonding_period,
                d(p.peg_recovery_fee),
                d(p.er_threshold),
                p.reward_denom,
                match p.paused {
                    None => "-",
                    Some(false) => "0",
                    Some(true) => "1",
                }
            )),
            Err(_) => out.push("hub.params err".to_string()),
        }
    });
    frag(w, key(K_HUB_QPARAMS, 0, 0, 0), out, |out| {
        match query_contract::<_, Parameters>(w, HUB, &QueryMsg::Parameters {}) {
            Ok(p) => out.push(format!(
                "hub.qparams {} {} {} {} {} {} {}",
                p.epoch_period,
                word(&p.underlying_coin_denom),
                p.unbonding_period,
                d(p.peg_recovery_fee),
                d(p.er_threshold),
                word(&p.reward_denom),
                match p.paused {
                    None => "-",
                    Some(false) => "0",
                    Some(true) => "1",
                }
            )),
            Err(_) => out.push("hub.qparams err".to_string()),
        }
    });
    frag(w, key(K_HUB_STORED, 0, 0, 0), out, |out| {
        let st = StoreRef::new(w, HUB);
        match STATE.load(&st) {
            Ok(s) => out.push(format!(
                "hub.stored {} {} {} {} {} {} {} {}",
                d(s.bsei_exchange_rate),
                d(s.stsei_exchange_rate),
                s.total_bond_bsei_amount,
                s.total_bond_stsei_amount,
                s.last_index_modification,
                s.prev_hub_balance,
                s.last_unbonded_time,
                s.last_processed_batch
            )),
            Err(_) => out.push("hub.stored err".to_string()),
        }
    });
    frag(w, key(K_HUB_STATE, 0, 0, 0), out, |out| {
        // `hub.state` and `hub.qdep` (the deprecated alias fields `exchange_rate`,
        // `total_bond_amount` of the same State response and `requested_with_fee` of the
        // CurrentBatch response) share one State query: it consults bank and staking and is
        // therefore recomputed for every dump
        let (er, tb) = match query_contract::<_, StateResponse>(w, HUB, &QueryMsg::State {}) {
            Ok(s) => {
                out.push(format!(
                    "hub.state {} {} {} {} {} {} {} {}",
                    d(s.bsei_exchange_rate),
                    d(s.stsei_exchange_rate),
                    s.total_bond_bsei_amount,
                    s.total_bond_stsei_amount,
                    s.last_index_modification,
                    s.prev_hub_balance,
                    s.last_unbonded_time,
                    s.last_processed_batch
                ));
                (d(s.exchange_rate).to_string(), s.total_bond_amount.to_string())
            }
            Err(_) => {
                out.push("hub.state err".to_string());
                ("err".to_string(), "err".to_string())
            }
        };
        let rwf = match query_contract::<_, CurrentBatchResponse>(w, HUB, &QueryMsg::CurrentBatch {})
        {
            Ok(b) => b.requested_with_fee.to_string(),
            Err(_) => "err".to_string(),
        };
        out.push(format!("hub.qdep {} {} {}", er, tb, rwf));
    });
    frag(w, key(K_HUB_BATCH, 0, 0, 0), out, |out| {
        if let Ok(b) = query_contract::<_, CurrentBatchResponse>(w, HUB, &QueryMsg::CurrentBatch {})
        {
            out.push(format!(
                "hub.batch {} {} {}",
                b.id, b.requested_bsei_with_fee, b.requested_stsei
            ));
        }
    });
    frag(w, key(K_HUB_HIST, 0, 0, 0), out, |out| {
        // history, paged exactly as the API pages it
        let mut start_from: Option<u64> = None;
        loop {
            let page: AllHistoryResponse =
                match query_contract(w, HUB, &QueryMsg::AllHistory { start_from, limit: Some(100) }) {
                    Ok(p) => p,
                    Err(_) => break,
                };
            let n = page.history.len();
            for h in &page.history {
                out.push(format!(
                    "hub.hist {} {} {} {} {} {} {} {} {}",
                    h.batch_id,
                    h.time,
                    h.bsei_amount,
                    d(h.bsei_applied_exchange_rate),
                    d(h.bsei_withdraw_rate),
                    h.stsei_amount,
                    d(h.stsei_applied_exchange_rate),
                    d(h.stsei_withdraw_rate),
                    if h.released { 1 } else { 0 }
                ));
            }
            if n < 100 {
                break;
            }
            start_from = Some(page.history[n - 1].batch_id);
        }
    });
    frag(w, key(K_HUB_QHIST, 0, 0, 0), out, |out| {
        // AllHistory with the parameters `hub.hist` (limit 100, cursor only beyond 100 batches) does
        // not exercise: small pages through the `start_from` cursor (the first HIST_PAGES pages),
        // the default limit and the maximal limit; the paged lines print the deprecated alias
        // fields amount / applied_exchange_rate / withdraw_rate of the response
        let mut start_from: Option<u64> = None;
        for k in 0..HIST_PAGES {
            let lim = page_limit(k);
            let page: AllHistoryResponse = match query_contract(
                w,
                HUB,
                &QueryMsg::AllHistory { start_from, limit: Some(lim) },
            ) {
                Ok(p) => p,
                Err(_) => {
                    out.push(format!("hub.qhist err {}", k));
                    break;
                }
            };
            for h in &page.history {
                out.push(format!(
                    "hub.qhist {} {} {} {} {}",
                    k,
                    h.batch_id,
                    h.amount,
                    d(h.applied_exchange_rate),
                    d(h.withdraw_rate)
                ));
            }
            if (page.history.len() as u32) < lim {
                break;
            }
            start_from = page.history.last().map(|h| h.batch_id);
        }
        match query_contract::<_, AllHistoryResponse>(
            w,
            HUB,
            &QueryMsg::AllHistory { start_from: None, limit: None },
        ) {
            Ok(p) => {
                let mut s = "hub.qhist.def".to_string();
                for h in &p.history {
                    let _ = write!(s, " {}", h.batch_id);
                }
                out.push(s);
            }
            Err(_) => out.push("hub.qhist.def err".to_string()),
        }
        match query_contract::<_, AllHistoryResponse>(
            w,
            HUB,
            &QueryMsg::AllHistory { start_from: None, limit: Some(1000) },
        ) {
            Ok(p) => out.push(format!(
                "hub.qhist.max {} {}",
                p.history.len(),
                match p.history.last() {
                    Some(h) => h.batch_id.to_string(),
                    None => "-".to_string(),
                }
            )),
            Err(_) => out.push("hub.qhist.max err".to_string()),
        }
    });
    for (ai, a) in ADDRS.iter().enumerate() {
        frag(w, key(K_HUB_WAIT, 0, ai, 0), out, |out| {
            if let Ok(r) = query_contract::<_, UnbondRequestsResponse>(
                w,
                HUB,
                &QueryMsg::UnbondRequests { address: a.to_string() },
            ) {
                let mut reqs = r.requests;
                reqs.sort_by_key(|x| x.0);
                for (batch, b, s) in reqs {
                    out.push(format!("hub.wait {} {} {} {}", a, batch, b, s));
                }
            }
        });
    }
    for (ai, a) in ADDRS.iter().enumerate() {
        frag(w, key(K_HUB_WD, 0, ai, 0), out, |out| {
            match query_contract::<_, WithdrawableUnbondedResponse>(
                w,
                HUB,
                &QueryMsg::WithdrawableUnbonded { address: a.to_string() },
            ) {
                Ok(r) => {
                    if !r.withdrawable.is_zero() {
                        out.push(format!("hub.wd {} {}", a, r.withdrawable));
                    }
                }
                Err(_) => out.push(format!("hub.wd {} err", a)),
            }
        });
    }
    frag(w, key(K_HUB_OLDWAIT, 0, 0, 0), out, |out| {
        let st = StoreRef::new(w, HUB);
        let old: ReadonlyBucket<Uint128> = ReadonlyBucket::multilevel(&st, &[b"wait"]);
        let count = old.range(None, None, Order::Ascending).count();
        out.push(format!("hub.oldwait {}", count));
    });
}

/// The cw20 queries used by the dump, built with each contract's own `QueryMsg` type.
enum TokQ<'a> {
    TokenInfo,
    Minter,
    Balance(&'a str),
    Allowance(&'a str, &'a str),
    AllAccounts(Option<String>, Option<u32>),
    AllAllowances(&'a str, Option<String>, Option<u32>),
}

fn tok_query<R: serde::de::DeserializeOwned>(w: &World, idx: usize, q: TokQ) -> Result<R, String> {
    if idx == BSEI {
        use cw20_legacy::msg::QueryMsg as Q;
        let m = match q {
            TokQ::TokenInfo => Q::TokenInfo {},
            TokQ::Minter => Q::Minter {},
            TokQ::Balance(a) => Q::Balance { address: a.to_string() },
            TokQ::Allowance(o, s) => Q::Allowance { owner: o.to_string(), spender: s.to_string() },
            TokQ::AllAccounts(start_after, limit) => Q::AllAccounts { start_after, limit },
            TokQ::AllAllowances(o, start_after, limit) => {
                Q::AllAllowances { owner: o.to_string(), start_after, limit }
            }
        };
        query_contract(w, idx, &m)
    } else {
        use cw20_base::msg::QueryMsg as Q;
        let m = match q {
            TokQ::TokenInfo => Q::TokenInfo {},
            TokQ::Minter => Q::Minter {},
            TokQ::Balance(a) => Q::Balance { address: a.to_string() },
            TokQ::Allowance(o, s) => Q::Allowance { owner: o.to_string(), spender: s.to_string() },
            TokQ::AllAccounts(start_after, limit) => Q::AllAccounts { start_after, limit },
            TokQ::AllAllowances(o, start_after, limit) => {
                Q::AllAllowances { owner: o.to_string(), start_after, limit }
            }
        };
        query_contract(w, idx, &m)
    }
}

fn dump_token(w: &World, idx: usize, name: &str, out: &mut Vec<String>) {
    if !w.inst[idx] {
        out.push(format!("tok.{}.none", name));
        return;
    }
    frag(w, key(K_TOK_INFO, idx, 0, 0), out, |out| {
        let supply = tok_query::<TokenInfoResponse>(w, idx, TokQ::TokenInfo)
            .map(|t| t.total_supply.to_string())
            .unwrap_or_else(|_| "err".to_string());
        let (minter, cap) = match tok_query::<Option<MinterResponse>>(w, idx, TokQ::Minter) {
            Ok(Some(m)) => (
                m.minter,
                match m.cap {
                    Some(c) => c.to_string(),
                    None => "-".to_string(),
                },
            ),
            Ok(None) => ("-".to_string(), "-".to_string()),
            Err(_) => ("err".to_string(), "err".to_string()),
        };
        out.push(format!("tok.{}.info {} {} {}", name, supply, minter, cap));
    });
    frag(w, key(K_TOK_META, idx, 0, 0), out, |out| {
        match tok_query::<TokenInfoResponse>(w, idx, TokQ::TokenInfo) {
            Ok(t) => out.push(format!(
                "tok.{}.meta {} {} {}",
                name,
                word(&t.name),
                word(&t.symbol),
                t.decimals
            )),
            Err(_) => out.push(format!("tok.{}.meta err", name)),
        }
    });
    for (ai, a) in ADDRS.iter().enumerate() {
        frag(w, key(K_TOK_BAL, idx, ai, 0), out, |out| {
            if let Ok(b) = tok_query::<BalanceResponse>(w, idx, TokQ::Balance(a)) {
                if !b.balance.is_zero() {
                    out.push(format!("tok.{}.bal {} {}", name, a, b.balance));
                }
            }
        });
    }
    frag(w, key(K_TOK_ACCOUNTS, idx, 0, 0), out, |out| {
        // AllAccounts paged with the protocol's page sizes, then once with the default limit
        let pre = format!("tok.{}.accounts", name);
        let (items, end) = paged(
            |start_after, limit| {
                tok_query::<AllAccountsResponse>(w, idx, TokQ::AllAccounts(start_after, Some(limit)))
                    .map(|r| r.accounts)
            },
            |a: &String| a.clone(),
        );
        for (k, a) in &items {
            out.push(format!("{} {} {}", pre, k, word(a)));
        }
        page_end(&pre, end, out);
        match tok_query::<AllAccountsResponse>(w, idx, TokQ::AllAccounts(None, None)) {
            Ok(r) => {
                let mut s = format!("{}.def", pre);
                for a in &r.accounts {
                    let _ = write!(s, " {}", word(a));
                }
                out.push(s);
            }
            Err(_) => out.push(format!("{}.def err", pre)),
        }
    });
    for (oi, o) in ADDRS.iter().enumerate() {
        for (si, s) in ADDRS.iter().enumerate() {
            frag(w, key(K_TOK_ALLOW, idx, oi, si), out, |out| {
                if let Ok(al) = tok_query::<AllowanceResponse>(w, idx, TokQ::Allowance(o, s)) {
                    if al.allowance.is_zero() && matches!(al.expires, Expiration::Never {}) {
                        return;
                    }
                    out.push(format!(
                        "tok.{}.allow {} {} {} {}",
                        name,
                        o,
                        s,
                        al.allowance,
                        exp_str(&al.expires)
                    ));
                }
            });
        }
    }
    for (oi, o) in ADDRS.iter().enumerate() {
        frag(w, key(K_TOK_ALLALLOW, idx, oi, 0), out, |out| {
            // AllAllowances of owner O, paged; then once with the default limit (nz)
            let pre = format!("tok.{}.allallow {}", name, o);
            let (items, end) = paged(
                |start_after, limit| {
                    tok_query::<AllAllowancesResponse>(
                        w,
                        idx,
                        TokQ::AllAllowances(o, start_after, Some(limit)),
                    )
                    .map(|r| r.allowances)
                },
                |a: &cw20::AllowanceInfo| a.spender.clone(),
            );
            for (k, a) in &items {
                out.push(format!(
                    "{} {} {} {} {}",
                    pre,
                    k,
                    word(&a.spender),
                    a.allowance,
                    exp_str(&a.expires)
                ));
            }
            page_end(&pre, end, out);
            match tok_query::<AllAllowancesResponse>(w, idx, TokQ::AllAllowances(o, None, None)) {
                Ok(r) => {
                    if !r.allowances.is_empty() {
                        let mut s = format!("tok.{}.allallow.def {}", name, o);
                        for a in &r.allowances {
                            let _ = write!(s, " {}", word(&a.spender));
                        }
                        out.push(s);
                    }
                }
                Err(_) => out.push(format!("tok.{}.allallow.def {} err", name, o)),
            }
        });
    }
    if idx == STSEI {
        dump_stsei_extras(w, name, out);
    }
}

/// The queries only cw20-base (stSei) has: AllSpenderAllowances, MarketingInfo, DownloadLogo.
fn dump_stsei_extras(w: &World, name: &str, out: &mut Vec<String>) {
    use cw20_base::msg::QueryMsg as Q;
    let idx = STSEI;
    for (si, sp) in ADDRS.iter().enumerate() {
        frag(w, key(K_TOK_SPALLOW, idx, si, 0), out, |out| {
            let pre = format!("tok.{}.spallow {}", name, sp);
            let (items, end) = paged(
                |start_after, limit| {
                    query_contract::<_, AllSpenderAllowancesResponse>(
                        w,
                        idx,
                        &Q::AllSpenderAllowances {
                            spender: sp.to_string(),
                            start_after,
                            limit: Some(limit),
                        },
                    )
                    .map(|r| r.allowances)
                },
                |a: &cw20::SpenderAllowanceInfo| a.owner.clone(),
            );
            for (k, a) in &items {
                out.push(format!(
                    "{} {} {} {} {}",
                    pre,
                    k,
                    word(&a.owner),
                    a.allowance,
                    exp_str(&a.expires)
                ));
            }
            page_end(&pre, end, out);
        });
    }
    frag(w, key(K_TOK_MARKETING, idx, 0, 0), out, |out| {
        match query_contract::<_, MarketingInfoResponse>(w, idx, &Q::MarketingInfo {}) {
            Ok(m) => out.push(format!(
                "tok.{}.marketing {} {} {} {}",
                name,
                opt_str(&m.project),
                opt_str(&m.description),
                match &m.logo {
                    None => "-".to_string(),
                    Some(LogoInfo::Embedded) => "embedded".to_string(),
                    Some(LogoInfo::Url(u)) => format!("url:{}", word(u)),
                },
                match &m.marketing {
                    None => "-".to_string(),
                    Some(a) => word(a.as_str()),
                }
            )),
            Err(_) => out.push(format!("tok.{}.marketing err", name)),
        }
        // DownloadLogo fails while no logo is stored (always: UploadLogo is not an operation)
        match query_contract::<_, DownloadLogoResponse>(w, idx, &Q::DownloadLogo {}) {
            Ok(l) => out.push(format!("tok.{}.logo {}:{}", name, word(&l.mime_type), l.data.len())),
            Err(_) => out.push(format!("tok.{}.logo -", name)),
        }
    });
}

fn dump_reward(w: &World, out: &mut Vec<String>) {
    use basset::reward::*;
    use basset_sei_reward::state::{read_config, read_new_owner, read_state};
    if !w.inst[REWARD] {
        out.push("rw.none".to_string());
        return;
    }
    frag(w, key(K_RW_CFG, 0, 0, 0), out, |out| {
        let st = StoreRef::new(w, REWARD);
        match read_config(&st) {
            Ok(c) => {
                let mut s = format!(
                    "rw.cfg {} {} {} {} {}",
                    humanize(&c.owner),
                    humanize(&c.hub_contract),
                    c.reward_denom,
                    humanize(&c.swap_contract),
                    c.swap_denoms.len()
                );
                for dn in &c.swap_denoms {
                    let _ = write!(s, " {}", dn);
                }
                out.push(s);
            }
            Err(_) => out.push("rw.cfg err".to_string()),
        }
    });
    frag(w, key(K_RW_QCFG, 0, 0, 0), out, |out| {
        // the Config response has no swap_denoms
        match query_contract::<_, ConfigResponse>(w, REWARD, &QueryMsg::Config {}) {
            Ok(c) => out.push(format!(
                "rw.qcfg {} {} {} {}",
                word(&c.owner),
                word(&c.hub_contract),
                word(&c.reward_denom),
                word(&c.swap_contract)
            )),
            Err(_) => out.push("rw.qcfg err".to_string()),
        }
    });
    frag(w, key(K_RW_NEWOWNER, 0, 0, 0), out, |out| {
        let st = StoreRef::new(w, REWARD);
        match read_new_owner(&st) {
            Ok(n) => out.push(format!("rw.newowner {}", humanize(&n.new_owner_addr))),
            Err(_) => out.push("rw.newowner err".to_string()),
        }
    });
    frag(w, key(K_RW_QNEWOWNER, 0, 0, 0), out, |out| {
        match query_contract::<_, NewOwnerResponse>(w, REWARD, &QueryMsg::NewOwner {}) {
            Ok(n) => out.push(format!("rw.qnewowner {}", word(&n.new_owner))),
            Err(_) => out.push("rw.qnewowner err".to_string()),
        }
    });
    frag(w, key(K_RW_STATE, 0, 0, 0), out, |out| {
        let st = StoreRef::new(w, REWARD);
        match read_state(&st) {
            Ok(s) => out.push(format!(
                "rw.state {} {} {}",
                d(s.global_index),
                s.total_balance,
                s.prev_reward_balance
            )),
            Err(_) => out.push("rw.state err".to_string()),
        }
    });
    frag(w, key(K_RW_QSTATE, 0, 0, 0), out, |out| {
        match query_contract::<_, StateResponse>(w, REWARD, &QueryMsg::State {}) {
            Ok(s) => out.push(format!(
                "rw.qstate {} {} {}",
                d(s.global_index),
                s.total_balance,
                s.prev_reward_balance
            )),
            Err(_) => out.push("rw.qstate err".to_string()),
        }
    });
    for (ai, a) in ADDRS.iter().enumerate() {
        frag(w, key(K_RW_HOLDER, 0, ai, 0), out, |out| {
            if let Ok(h) = query_contract::<_, HolderResponse>(
                w,
                REWARD,
                &QueryMsg::Holder { address: a.to_string() },
            ) {
                if h.balance.is_zero() && h.index.is_zero() && h.pending_rewards.is_zero() {
                    return;
                }
                out.push(format!(
                    "rw.holder {} {} {} {}",
                    a,
                    h.balance,
                    d(h.index),
                    d(h.pending_rewards)
                ));
            }
        });
    }
    frag(w, key(K_RW_QHOLDERS, 0, 0, 0), out, |out| {
        // Holders paged with the protocol's page sizes, then once with the default limit
        let (items, end) = paged(
            |start_after, limit| {
                query_contract::<_, HoldersResponse>(
                    w,
                    REWARD,
                    &QueryMsg::Holders { start_after, limit: Some(limit) },
                )
                .map(|r| r.holders)
            },
            |h: &HolderResponse| h.address.clone(),
        );
        for (k, h) in &items {
            out.push(format!(
                "rw.qholders {} {} {} {} {}",
                k,
                word(&h.address),
                h.balance,
                d(h.index),
                d(h.pending_rewards)
            ));
        }
        page_end("rw.qholders", end, out);
        match query_contract::<_, HoldersResponse>(
            w,
            REWARD,
            &QueryMsg::Holders { start_after: None, limit: None },
        ) {
            Ok(r) => {
                let mut s = "rw.qholders.def".to_string();
                for h in &r.holders {
                    let _ = write!(s, " {}", word(&h.address));
                }
                out.push(s);
            }
            Err(_) => out.push("rw.qholders.def err".to_string()),
        }
    });
    for (ai, a) in ADDRS.iter().enumerate() {
        frag(w, key(K_RW_ACCRUED, 0, ai, 0), out, |out| {
            if let Ok(r) = query_contract::<_, AccruedRewardsResponse>(
                w,
                REWARD,
                &QueryMsg::AccruedRewards { address: a.to_string() },
            ) {
                if !r.rewards.is_zero() {
                    out.push(format!("rw.accrued {} {}", a, r.rewards));
                }
            }
        });
    }
}

fn dump_disp(w: &World, out: &mut Vec<String>) {
    use basset::dispatcher::{ConfigResponse, NewOwnerResponse};
    use basset_sei_rewards_dispatcher::msg::QueryMsg;
    use basset_sei_rewards_dispatcher::state::{read_config, read_new_owner};
    if !w.inst[DISP] {
        out.push("dp.none".to_string());
        return;
    }
    frag(w, key(K_DP_CFG, 0, 0, 0), out, |out| {
        let st = StoreRef::new(w, DISP);
        match read_config(&st) {
            Ok(c) => {
                let mut s = format!(
                    "dp.cfg {} {} {} {} {} {} {} {} {} {}",
                    humanize(&c.owner),
                    humanize(&c.hub_contract),
                    humanize(&c.bsei_reward_contract),
                    c.stsei_reward_denom,
                    c.bsei_reward_denom,
                    humanize(&c.krp_keeper_address),
                    d(c.krp_keeper_rate),
                    humanize(&c.swap_contract),
                    humanize(&c.oracle_contract),
                    c.swap_denoms.len()
                );
                for dn in &c.swap_denoms {
                    let _ = write!(s, " {}", dn);
                }
                out.push(s);
            }
            Err(_) => out.push("dp.cfg err".to_string()),
        }
    });
    frag(w, key(K_DP_QCFG, 0, 0, 0), out, |out| {
        match query_contract::<_, ConfigResponse>(w, DISP, &QueryMsg::Config {}) {
            Ok(c) => {
                let mut s = format!(
                    "dp.qcfg {} {} {} {} {} {} {} {} {} {}",
                    word(&c.owner),
                    word(&c.hub_contract),
                    word(&c.bsei_reward_contract),
                    word(&c.stsei_reward_denom),
                    word(&c.bsei_reward_denom),
                    word(&c.krp_keeper_address),
                    d(c.krp_keeper_rate),
                    word(&c.swap_contract),
                    word(&c.oracle_contract),
                    c.swap_denoms.len()
                );
                for dn in &c.swap_denoms {
                    let _ = write!(s, " {}", word(dn));
                }
                out.push(s);
            }
            Err(_) => out.push("dp.qcfg err".to_string()),
        }
    });
    frag(w, key(K_DP_NEWOWNER, 0, 0, 0), out, |out| {
        let st = StoreRef::new(w, DISP);
        match read_new_owner(&st) {
            Ok(n) => out.push(format!("dp.newowner {}", humanize(&n.new_owner_addr))),
            Err(_) => out.push("dp.newowner err".to_string()),
        }
    });
    frag(w, key(K_DP_QNEWOWNER, 0, 0, 0), out, |out| {
        match query_contract::<_, NewOwnerResponse>(w, DISP, &QueryMsg::NewOwner {}) {
            Ok(n) => out.push(format!("dp.qnewowner {}", word(&n.new_owner))),
            Err(_) => out.push("dp.qnewowner err".to_string()),
        }
    });
}

fn dump_reg(w: &World, out: &mut Vec<String>) {
    use basset_sei_validators_registry::msg::QueryMsg;
    use basset_sei_validators_registry::registry::{
        read_new_owner, Config, NewOwnerResponse, ValidatorResponse, CONFIG,
    };
    if !w.inst[REG] {
        out.push("rg.none".to_string());
        return;
    }
    frag(w, key(K_RG_CFG, 0, 0, 0), out, |out| {
        let st = StoreRef::new(w, REG);
        match CONFIG.load(&st) {
            Ok(c) => {
                out.push(format!("rg.cfg {} {}", humanize(&c.owner), humanize(&c.hub_contract)))
            }
            Err(_) => out.push("rg.cfg err".to_string()),
        }
    });
    frag(w, key(K_RG_QCFG, 0, 0, 0), out, |out| {
        // the Config query answers with the stored struct (canonical addresses)
        match query_contract::<_, Config>(w, REG, &QueryMsg::Config {}) {
            Ok(c) => {
                out.push(format!("rg.qcfg {} {}", humanize(&c.owner), humanize(&c.hub_contract)))
            }
            Err(_) => out.push("rg.qcfg err".to_string()),
        }
    });
    frag(w, key(K_RG_NEWOWNER, 0, 0, 0), out, |out| {
        let st = StoreRef::new(w, REG);
        match read_new_owner(&st) {
            Ok(n) => out.push(format!("rg.newowner {}", humanize(&n.new_owner_addr))),
            Err(_) => out.push("rg.newowner err".to_string()),
        }
    });
    frag(w, key(K_RG_QNEWOWNER, 0, 0, 0), out, |out| {
        match query_contract::<_, NewOwnerResponse>(w, REG, &QueryMsg::NewOwner {}) {
            Ok(n) => out.push(format!("rg.qnewowner {}", word(&n.new_owner))),
            Err(_) => out.push("rg.qnewowner err".to_string()),
        }
    });
    frag(w, key(K_RG_VALS, 0, 0, 0), out, |out| {
        match query_contract::<_, Vec<ValidatorResponse>>(
            w,
            REG,
            &QueryMsg::GetValidatorsForDelegation {},
        ) {
            Ok(vs) => {
                let mut s = "rg.vals".to_string();
                for v in vs {
                    let _ = write!(s, " {}:{}", v.address, v.total_delegated);
                }
                out.push(s);
            }
            Err(_) => out.push("rg.vals err".to_string()),
        }
    });
}

fn addr_pos(a: &str) -> Option<usize> {
    ADDRS.iter().position(|x| *x == a)
}

fn dump_env(w: &World, out: &mut Vec<String>) {
    for a in ADDRS.iter() {
        if let Some(m) = w.bank.get(*a) {
            for dn in DENOMS.iter() {
                if let Some(x) = m.get(*dn) {
                    if *x > 0 {
                        out.push(format!("bank {} {} {}", a, dn, x));
                    }
                }
            }
        }
    }
    // delegations: for A (ADDRS order), for VAL (VALS order)
    let mut dels: Vec<(usize, usize, u128)> = w
        .delegations
        .iter()
        .filter_map(|((a, vi), x)| addr_pos(a).map(|ai| (ai, *vi, *x)))
        .collect();
    dels.sort();
    for (ai, vi, x) in dels {
        out.push(format!("del {} {} {}", ADDRS[ai], VALS[vi], x));
    }
    for u in &w.unbonding {
        out.push(format!("unb {} {} {} {}", u.delegator, VALS[u.validator], u.amount, u.completion));
    }
    let mut pend: Vec<(usize, usize, usize, u128)> = w
        .pending
        .iter()
        .filter(|(_, x)| **x > 0)
        .filter_map(|((a, vi, di), x)| addr_pos(a).map(|ai| (ai, *vi, *di, *x)))
        .collect();
    pend.sort();
    for (ai, vi, di, x) in pend {
        out.push(format!("pend {} {} {} {}", ADDRS[ai], VALS[vi], DENOMS[di], x));
    }
    for a in ADDRS.iter() {
        if let Some(t) = w.withdraw_addr.get(*a) {
            if t != a {
                out.push(format!("wdaddr {} {}", a, t));
            }
        }
    }
    let mut cr = String::with_capacity(VALS.len());
    for f in w.can_redelegate.iter() {
        cr.push(if *f { '1' } else { '0' });
    }
    out.push(format!(
        "env {} {} {} {} {}",
        w.ut,
        w.price,
        w.swapmode.as_str(),
        w.oraclemode.as_str(),
        cr
    ));
}
