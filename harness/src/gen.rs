#![allow(deprecated)]
//! Random-history generators (`krp-harness gen PROFILE SEED NHIST LEN OPSFILE OBSFILE`).
//!
//! Every operation is applied to the real world as it is generated, so the samplers can look at
//! the current state (balances, allowances, batches, queue ...).  The operation lines go to
//! OPSFILE (`Op::to_line`), the observation blocks -- exactly what `run OPSFILE` prints -- to
//! OBSFILE.  All randomness comes from `kernel::Rng` (splitmix64) seeded from SEED.

use std::collections::BTreeMap;
use std::io::Write;

use cosmwasm_std::Uint128;

use crate::chain::*;
use crate::kernel::Rng;
use crate::ops::*;
use crate::{observe_op, World};

// ---------------------------------------------------------------------------------------------
// Statistics and the emitter shared with grid.rs
// ---------------------------------------------------------------------------------------------

#[derive(Default, Debug)]
pub struct Stats {
    pub histories: u64,
    pub ops: u64,
    pub ok: u64,
    pub err: u64,
    pub by_kind: BTreeMap<String, u64>,
    /// profile `synth` only: distribution of the synthesised states (`state:*`), outcomes of the
    /// follow-up operations (`follow:KIND:ok|err`) and notable events (`event:*`)
    pub synth: BTreeMap<String, u64>,
}

/// kind of an operation = its first token(s): `bond b`, `cw bsei send`, `hub withdraw`, `advance`
pub fn op_kind(op: &Op) -> String {
    let line = op.to_line();
    let t: Vec<&str> = line.split(' ').collect();
    match t[0] {
        "bond" => format!("bond {}", t[1]),
        "hub" | "reward" | "disp" | "reg" => format!("{} {}", t[0], t[2]),
        "cw" => format!("cw {} {}", t[1], t[3]),
        x => x.to_string(),
    }
}

impl Stats {
    pub fn record(&mut self, op: &Op, ok: bool) {
        self.ops += 1;
        if ok {
            self.ok += 1;
        } else {
            self.err += 1;
        }
        let k = format!("{}:{}", op_kind(op), if ok { "ok" } else { "err" });
        *self.by_kind.entry(k).or_insert(0) += 1;
    }
    pub fn to_json(&self) -> String {
        let mut s = format!(
            "{{\"histories\":{},\"ops\":{},\"ok\":{},\"err\":{},\"by_kind\":{{",
            self.histories, self.ops, self.ok, self.err
        );
        for (i, (k, v)) in self.by_kind.iter().enumerate() {
            if i > 0 {
                s.push(',');
            }
            s.push_str(&format!("\"{}\":{}", k, v));
        }
        s.push('}');
        if !self.synth.is_empty() {
            s.push_str(",\"synth\":{");
            for (i, (k, v)) in self.synth.iter().enumerate() {
                if i > 0 {
                    s.push(',');
                }
                s.push_str(&format!("\"{}\":{}", k, v));
            }
            s.push('}');
        }
        s.push('}');
        s
    }
    pub fn count(&mut self, key: &str) {
        *self.synth.entry(key.to_string()).or_insert(0) += 1;
    }
}

/// Applies operations to a world and writes the operation / observation files.
pub struct Emitter<A: Write, B: Write> {
    pub world: World,
    pub index: u64,
    pub ops_out: A,
    pub obs_out: B,
    pub stats: Stats,
    buf: String,
}

impl<A: Write, B: Write> Emitter<A, B> {
    pub fn new(ops_out: A, obs_out: B) -> Self {
        Emitter {
            world: World::new(0),
            index: 0,
            ops_out,
            obs_out,
            stats: Stats::default(),
            buf: String::new(),
        }
    }
    pub fn comment(&mut self, text: &str) {
        writeln!(self.ops_out, "# {}", text).expect("write ops file");
    }
    pub fn emit(&mut self, op: &Op) -> OpResult {
        if op.is_reset() {
            self.index = 0;
            self.stats.histories += 1;
        }
        writeln!(self.ops_out, "{}", op.to_line()).expect("write ops file");
        self.buf.clear();
        let res = observe_op(&mut self.world, op, self.index, &mut self.buf);
        self.obs_out.write_all(self.buf.as_bytes()).expect("write obs file");
        self.index += 1;
        self.stats.record(op, res.ok);
        res
    }
    pub fn emit_line(&mut self, line: &str) -> OpResult {
        let op = parse_op(line).unwrap_or_else(|e| panic!("internal script line: {}", e));
        self.emit(&op)
    }
    pub fn finish(&mut self) {
        self.ops_out.flush().expect("flush ops file");
        self.obs_out.flush().expect("flush obs file");
    }
}

// ---------------------------------------------------------------------------------------------
// Views of the current world (all through the real queries / public state items)
// ---------------------------------------------------------------------------------------------

pub const USERS: [&str; 8] = ["user0", "user1", "user2", "user3", "user4", "user5", "user6", "user7"];
const EXTRA: [&str; 4] = ["owner", "nobody", "keeper", "updater"];
/// plain accounts (candidates for "holder" style choices)
const ACCOUNTS: [&str; 12] = [
    "user0", "user1", "user2", "user3", "user4", "user5", "user6", "user7", "owner", "nobody",
    "keeper", "updater",
];
const E18: u128 = ONE;

fn hub_state(w: &World) -> Option<basset::hub::State> {
    if !w.inst[HUB] {
        return None;
    }
    basset_sei_hub::state::STATE.load(&StoreRef::new(w, HUB)).ok()
}
fn hub_params(w: &World) -> Option<basset::hub::Parameters> {
    if !w.inst[HUB] {
        return None;
    }
    basset_sei_hub::state::PARAMETERS.load(&StoreRef::new(w, HUB)).ok()
}
fn hub_config(w: &World) -> Option<basset::hub::Config> {
    if !w.inst[HUB] {
        return None;
    }
    basset_sei_hub::state::CONFIG.load(&StoreRef::new(w, HUB)).ok()
}
fn hub_history(w: &World) -> Vec<basset::hub::UnbondHistoryResponse> {
    let mut out = vec![];
    let mut start_from = None;
    loop {
        let page: basset::hub::AllHistoryResponse = match query_contract(
            w,
            HUB,
            &basset::hub::QueryMsg::AllHistory { start_from, limit: Some(100) },
        ) {
            Ok(p) => p,
            Err(_) => break,
        };
        let n = page.history.len();
        out.extend(page.history);
        if n < 100 {
            break;
        }
        start_from = out.last().map(|h| h.batch_id);
    }
    out
}
fn tok_idx(t: Tok) -> usize {
    t.index()
}
fn tok_bal(w: &World, t: Tok, a: &str) -> u128 {
    query_contract::<_, cw20::BalanceResponse>(
        w,
        tok_idx(t),
        &cw20::Cw20QueryMsg::Balance { address: a.to_string() },
    )
    .map(|b| b.balance.u128())
    .unwrap_or(0)
}
fn holders(w: &World, t: Tok, pool: &[&str]) -> Vec<(String, u128)> {
    pool.iter()
        .map(|a| (a.to_string(), tok_bal(w, t, a)))
        .filter(|(_, b)| *b > 0)
        .collect()
}
/// existing allowances (owner, spender, amount) with owner among the plain accounts
fn allowances(w: &World, t: Tok) -> Vec<(String, String, u128)> {
    allowances_ext(w, t).into_iter().map(|(o, s, a, _)| (o, s, a)).collect()
}

/// like `allowances`, with a flag "not expired at the current block"
fn allowances_ext(w: &World, t: Tok) -> Vec<(String, String, u128, bool)> {
    let block = w.env("x").block;
    allowances_raw(w, t)
        .into_iter()
        .map(|(o, s, a, e)| (o, s, a, !e.is_expired(&block)))
        .collect()
}

fn allowances_raw(w: &World, t: Tok) -> Vec<(String, String, u128, cw20::Expiration)> {
    let mut out = vec![];
    for o in ACCOUNTS.iter() {
        if let Ok(r) = query_contract::<_, cw20::AllAllowancesResponse>(
            w,
            tok_idx(t),
            &cw20::Cw20QueryMsg::AllAllowances {
                owner: o.to_string(),
                start_after: None,
                limit: Some(30),
            },
        ) {
            for a in r.allowances {
                if is_addr(&a.spender) {
                    out.push((o.to_string(), a.spender, a.allowance.u128(), a.expires));
                }
            }
        }
    }
    out
}
fn wait_users(w: &World) -> Vec<String> {
    ACCOUNTS
        .iter()
        .filter(|a| {
            query_contract::<_, basset::hub::UnbondRequestsResponse>(
                w,
                HUB,
                &basset::hub::QueryMsg::UnbondRequests { address: a.to_string() },
            )
            .map(|r| !r.requests.is_empty())
            .unwrap_or(false)
        })
        .map(|a| a.to_string())
        .collect()
}
fn accrued_users(w: &World) -> Vec<String> {
    ACCOUNTS
        .iter()
        .filter(|a| {
            query_contract::<_, basset::reward::AccruedRewardsResponse>(
                w,
                REWARD,
                &basset::reward::QueryMsg::AccruedRewards { address: a.to_string() },
            )
            .map(|r| !r.rewards.is_zero())
            .unwrap_or(false)
        })
        .map(|a| a.to_string())
        .collect()
}
fn reg_vals(w: &World) -> Vec<String> {
    query_contract::<_, Vec<basset_sei_validators_registry::registry::ValidatorResponse>>(
        w,
        REG,
        &basset_sei_validators_registry::msg::QueryMsg::GetValidatorsForDelegation {},
    )
    .map(|v| v.into_iter().map(|x| x.address).collect())
    .unwrap_or_default()
}
fn hub_delegation_vals(w: &World) -> Vec<String> {
    w.delegations
        .iter()
        .filter(|((d, _), _)| d == "hub")
        .map(|((_, vi), _)| VALS[*vi].to_string())
        .collect()
}
/// (current owner, current nominee) of hub / reward / disp / reg
fn owner_nominee(w: &World, c: usize) -> (String, String) {
    let st = StoreRef::new(w, c);
    let dflt = ("owner".to_string(), "owner".to_string());
    if !w.inst[c] {
        return dflt;
    }
    match c {
        HUB => {
            let o = basset_sei_hub::state::CONFIG.load(&st).map(|c| humanize(&c.creator));
            let n = basset_sei_hub::state::read_new_owner(&st).map(|n| humanize(&n.new_owner_addr));
            (o.unwrap_or(dflt.0), n.unwrap_or(dflt.1))
        }
        REWARD => {
            let o = basset_sei_reward::state::read_config(&st).map(|c| humanize(&c.owner));
            let n =
                basset_sei_reward::state::read_new_owner(&st).map(|n| humanize(&n.new_owner_addr));
            (o.unwrap_or(dflt.0), n.unwrap_or(dflt.1))
        }
        DISP => {
            let o =
                basset_sei_rewards_dispatcher::state::read_config(&st).map(|c| humanize(&c.owner));
            let n = basset_sei_rewards_dispatcher::state::read_new_owner(&st)
                .map(|n| humanize(&n.new_owner_addr));
            (o.unwrap_or(dflt.0), n.unwrap_or(dflt.1))
        }
        REG => {
            let o = basset_sei_validators_registry::registry::CONFIG
                .load(&st)
                .map(|c| humanize(&c.owner));
            let n = basset_sei_validators_registry::registry::read_new_owner(&st)
                .map(|n| humanize(&n.new_owner_addr));
            (o.unwrap_or(dflt.0), n.unwrap_or(dflt.1))
        }
        _ => dflt,
    }
}
fn old_wait_count(w: &World) -> usize {
    if !w.inst[HUB] {
        return 0;
    }
    let st = StoreRef::new(w, HUB);
    let old: cosmwasm_storage::ReadonlyBucket<Uint128> =
        cosmwasm_storage::ReadonlyBucket::multilevel(&st, &[b"wait"]);
    old.range(None, None, cosmwasm_std::Order::Ascending).count()
}
/// batch ids of the legacy wait-list entries (trailing decimal digits of the storage keys)
fn old_wait_batches(w: &World) -> Vec<u64> {
    if !w.inst[HUB] {
        return vec![];
    }
    let st = StoreRef::new(w, HUB);
    let old: cosmwasm_storage::ReadonlyBucket<Uint128> =
        cosmwasm_storage::ReadonlyBucket::multilevel(&st, &[b"wait"]);
    old.range(None, None, cosmwasm_std::Order::Ascending)
        .filter_map(|r| r.ok())
        .map(|(k, _)| {
            let digits: Vec<u8> = k.iter().rev().take_while(|b| b.is_ascii_digit()).cloned().collect();
            digits.iter().rev().fold(0u64, |a, d| a * 10 + (*d - b'0') as u64)
        })
        .collect()
}
fn disp_swap_denoms(w: &World) -> Vec<String> {
    if !w.inst[DISP] {
        return vec![];
    }
    basset_sei_rewards_dispatcher::state::read_config(&StoreRef::new(w, DISP))
        .map(|c| c.swap_denoms)
        .unwrap_or_default()
}
fn reward_swap_denoms(w: &World) -> Vec<String> {
    if !w.inst[REWARD] {
        return vec![];
    }
    basset_sei_reward::state::read_config(&StoreRef::new(w, REWARD))
        .map(|c| c.swap_denoms)
        .unwrap_or_default()
}

// ---------------------------------------------------------------------------------------------
// Families and profiles
// ---------------------------------------------------------------------------------------------

#[derive(Clone, Copy, Debug, PartialEq, Eq)]
pub enum Fam {
    Bond,
    Unbond,
    Convert,
    Withdraw,
    Transfer,
    Allow,
    From,
    SlashChk,
    Advance,
    Slash,
    Accrue,
    Update,
    Claim,
    Gift,
    Price,
    Modes,
    Registry,
    Params,
    Pause,
    Owner,
    Cfg,
    Direct,
    Legacy,
    Inst,
}
use Fam::*;

const ALL_FAMS: [Fam; 24] = [
    Bond, Unbond, Convert, Withdraw, Transfer, Allow, From, SlashChk, Advance, Slash, Accrue, Update,
    Claim, Gift, Price, Modes, Registry, Params, Pause, Owner, Cfg, Direct, Legacy, Inst,
];

pub const PROFILES: [&str; 10] = [
    "general", "pricing", "unbond", "rewards", "registry", "token", "config", "pause", "exit", "synth",
];

const GENERAL: [(Fam, u32); 20] = [
    (Bond, 14),
    (Unbond, 12),
    (Convert, 6),
    (Withdraw, 10),
    (Transfer, 6),
    (Allow, 4),
    (From, 5),
    (SlashChk, 2),
    (Advance, 14),
    (Slash, 4),
    (Accrue, 4),
    (Update, 5),
    (Claim, 3),
    (Gift, 2),
    (Price, 1),
    (Registry, 3),
    (Params, 1),
    (Owner, 1),
    (Cfg, 1),
    (Direct, 3),
];

/// weights (in tenths of a percent-ish units; only ratios matter)
fn weights(profile: &str) -> Vec<(Fam, u32)> {
    let listed: Vec<(Fam, u32)> = match profile {
        "general" => GENERAL.to_vec(),
        "pricing" => vec![
            (Bond, 22),
            (Unbond, 14),
            (Convert, 16),
            (Withdraw, 5),
            (Advance, 10),
            (Slash, 9),
            (Accrue, 5),
            (Update, 7),
            (SlashChk, 3),
            (Params, 3),
            (Transfer, 2),
            (From, 2),
        ],
        "unbond" => vec![
            (Unbond, 24),
            (Withdraw, 20),
            (Advance, 22),
            (Bond, 8),
            (Slash, 7),
            (Gift, 4),
            (Transfer, 3),
            (From, 4),
            (Convert, 3),
            (Update, 2),
            (Accrue, 2),
        ],
        "rewards" => vec![
            (Accrue, 18),
            (Update, 18),
            (Claim, 8),
            (Bond, 10),
            (Unbond, 6),
            (Transfer, 8),
            (From, 4),
            (Price, 6),
            (Modes, 4),
            (Slash, 5),
            (Advance, 6),
            (Cfg, 4),
            (Gift, 3),
            (Registry, 2),
        ],
        "registry" => vec![
            (Registry, 25),
            (Bond, 18),
            (Unbond, 10),
            (Advance, 12),
            (Slash, 8),
            (Update, 6),
            (Accrue, 5),
            (Withdraw, 5),
            (SlashChk, 3),
            (Transfer, 2),
            (Convert, 2),
        ],
        "token" => vec![
            (Transfer, 18),
            (Allow, 16),
            (From, 22),
            (Bond, 10),
            (Unbond, 8),
            (Convert, 5),
            (Direct, 8),
            (Inst, 3),
            (Advance, 5),
            (Update, 2),
            (Accrue, 2),
        ],
        "config" => vec![
            (Params, 18),
            (Cfg, 22),
            (Owner, 14),
            (Inst, 10),
            (Bond, 8),
            (Unbond, 5),
            (Update, 5),
            (Accrue, 3),
            (Advance, 5),
            (Direct, 6),
            (Withdraw, 2),
        ],
        "pause" => {
            // pause 12, legacy 10, params 6, owner 3 (= 31 %), the general weights scaled to 69 %
            let mut v: Vec<(Fam, u32)> = vec![(Pause, 120), (Legacy, 100), (Params, 60), (Owner, 30)];
            for (f, x) in GENERAL.iter() {
                if !matches!(f, Params | Owner) {
                    v.push((*f, x * 7));
                }
            }
            // the unlisted families of `general` (weight 1 there)
            v.push((Modes, 7));
            return v;
        }
        "synth" => {
            // follow-up operations of the synthesised-state stream: user-facing operations only
            return vec![
                (Withdraw, 18),
                (Advance, 14),
                (Unbond, 17),
                (Convert, 10),
                (Bond, 10),
                (Slash, 7),
                (Update, 7),
                (Accrue, 4),
                (SlashChk, 5),
                (Transfer, 4),
                (From, 1),
                (Claim, 3),
                (Gift, 2),
                (Registry, 2),
            ];
        }
        "exit" => vec![
            (Modes, 14),
            (Price, 5),
            (Bond, 14),
            (Unbond, 16),
            (Convert, 8),
            (Withdraw, 12),
            (Advance, 14),
            (Transfer, 5),
            (Claim, 4),
            (Update, 6),
            (Accrue, 5),
            (Slash, 3),
        ],
        _ => vec![],
    };
    let mut v = listed.clone();
    for f in ALL_FAMS.iter() {
        if listed.iter().any(|(g, _)| g == f) {
            continue;
        }
        let allowed = match f {
            Pause | Legacy => false, // profile `pause` only (handled above)
            Inst => matches!(profile, "config" | "token"),
            _ => true,
        };
        if allowed {
            v.push((*f, 1));
        }
    }
    v
}

// ---------------------------------------------------------------------------------------------
// The generator of one history
// ---------------------------------------------------------------------------------------------

struct Gen<'a, A: Write, B: Write> {
    em: &'a mut Emitter<A, B>,
    r: Rng,
    profile: &'a str,
    weights: Vec<(Fam, u32)>,
    wsum: u32,
    ut: u64,
    advanced: u64,
    /// former nominees per contract (hub, reward, disp, reg)
    former: [Vec<String>; 4],
}

fn s(x: &str) -> String {
    x.to_string()
}

impl<'a, A: Write, B: Write> Gen<'a, A, B> {
    fn w(&self) -> &World {
        &self.em.world
    }

    // ---- general samplers ---------------------------------------------------------------------

    fn uniform(&mut self, lo: u128, hi: u128) -> u128 {
        if hi <= lo {
            return lo;
        }
        let span = hi - lo;
        if span == u128::MAX {
            return self.r.next_u128();
        }
        lo + self.r.below128(span + 1)
    }

    /// log-uniform in [lo, hi] (lo >= 1)
    fn log_uniform(&mut self, lo: u128, hi: u128) -> u128 {
        let lo = lo.max(1);
        if hi <= lo {
            return lo;
        }
        let bl = 128 - lo.leading_zeros();
        let bh = 128 - hi.leading_zeros();
        let b = self.r.range(bl as u64, bh as u64) as u32; // bit length of the result
        let from = if b == 0 { 0 } else { 1u128 << (b - 1) };
        let to = if b >= 128 { u128::MAX } else { (1u128 << b) - 1 };
        let from = from.max(lo);
        let to = to.min(hi);
        if from > to {
            return self.uniform(lo, hi);
        }
        self.uniform(from, to)
    }

    fn amount(&mut self, max: u128) -> u128 {
        if max == 0 {
            return self.r.pick(&[1u128, 0, 1000]);
        }
        match self.r.below(100) {
            0..=9 => 1,
            10..=12 => 2,
            13..=15 => 10,
            16..=30 => max,
            31..=33 => max - 1,
            34..=41 => max / 2,
            42..=69 => self.uniform(1, max),
            70..=92 => self.log_uniform(1, max),
            93..=96 => max.saturating_add(1),
            _ => 0,
        }
    }

    fn user(&mut self) -> String {
        if self.profile == "unbond" && !self.r.pct(4) {
            return s(USERS[self.r.below(4) as usize]);
        }
        match self.r.below(100) {
            0..=79 => s(USERS[self.r.below(4) as usize]),
            80..=94 => s(USERS[4 + self.r.below(4) as usize]),
            _ => s(self.r.pick(&EXTRA)),
        }
    }

    fn other_user(&mut self, x: &str) -> String {
        if self.r.pct(12) {
            return s(x);
        }
        for _ in 0..20 {
            let u = self.user();
            if u != x {
                return u;
            }
        }
        s(if x == "user1" { "user2" } else { "user1" })
    }

    fn any_addr(&mut self) -> String {
        s(self.r.pick(&ADDRS))
    }

    fn tok(&mut self) -> Tok {
        if self.r.pct(50) {
            Tok::Bsei
        } else {
            Tok::Stsei
        }
    }

    fn pick_str(&mut self, v: &[String]) -> Option<String> {
        if v.is_empty() {
            None
        } else {
            Some(v[self.r.below(v.len() as u64) as usize].clone())
        }
    }

    fn pool_size(&self) -> u128 {
        hub_state(self.w())
            .map(|st| st.total_bond_bsei_amount.u128().saturating_add(st.total_bond_stsei_amount.u128()))
            .unwrap_or(0)
    }

    /// in profile `pricing` amounts are comparable to the whole pool
    fn cap(&self, max: u128) -> u128 {
        if self.profile == "pricing" {
            let p = self.pool_size();
            if p > 0 {
                return max.min(p.saturating_mul(2));
            }
        }
        max
    }

    /// a token that has holders (random one if both / none have)
    fn tok_held(&mut self) -> Tok {
        let t = self.tok();
        if holders(self.w(), t, &ACCOUNTS).is_empty() {
            let t2 = if t == Tok::Bsei { Tok::Stsei } else { Tok::Bsei };
            if !holders(self.w(), t2, &ACCOUNTS).is_empty() {
                return t2;
            }
        }
        t
    }

    fn nobody_holds_tokens(&self) -> bool {
        holders(self.w(), Tok::Bsei, &ACCOUNTS).is_empty()
            && holders(self.w(), Tok::Stsei, &ACCOUNTS).is_empty()
    }

    /// a holder of `t` among the plain accounts when possible
    fn holder(&mut self, t: Tok) -> (String, u128) {
        let hs = holders(self.w(), t, &ACCOUNTS);
        if !hs.is_empty() && self.r.pct(92) {
            let i = self.r.below(hs.len() as u64) as usize;
            return hs[i].clone();
        }
        let u = self.user();
        let b = tok_bal(self.w(), t, &u);
        (u, b)
    }

    fn owner_of(&self, c: usize) -> String {
        owner_nominee(self.w(), c).0
    }

    fn exp(&mut self) -> Exp {
        let k = self.r.pick(&[1u64, 10, 1000]);
        let now = self.w().now;
        let h = self.w().height();
        match self.r.below(6) {
            0 => Exp::Absent,
            1 => Exp::Never,
            2 => Exp::Height(h + k),
            3 => Exp::Time((now + k).min(MAX_NOW)),
            4 => Exp::Height(h),
            _ => Exp::Time(now.saturating_sub(1)),
        }
    }

    fn hook_uc(&mut self) -> Hook {
        if self.r.pct(50) {
            Hook::Unbond
        } else {
            Hook::Convert
        }
    }

    fn any_val(&mut self) -> String {
        s(self.r.pick(&VALS))
    }

    /// address choice for config fields: the correct one (70 %), a user, another contract
    fn addr_choice(&mut self, correct: &str) -> String {
        match self.r.below(100) {
            0..=69 => s(correct),
            70..=84 => self.user(),
            _ => s(self.r.pick(&ADDRS[..9])),
        }
    }

    fn opt<T>(&mut self, p: u64, f: impl FnOnce(&mut Self) -> T) -> Option<T> {
        if self.r.pct(p) {
            Some(f(self))
        } else {
            None
        }
    }

    // ---- families -----------------------------------------------------------------------------

    fn f_bond(&mut self) -> Op {
        let kind = if self.r.pct(50) { BondKind::B } else { BondKind::St };
        let mut u = self.user();
        // mostly somebody who has coins
        for _ in 0..3 {
            if self.w().balance(&u, "usei") > 0 || self.r.pct(15) {
                break;
            }
            u = self.user();
        }
        let bal = self.w().balance(&u, "usei");
        let amt = if self.profile == "registry" && self.r.pct(30) {
            self.uniform(1, 5)
        } else {
            let m = self.cap(bal);
            self.amount(m)
        };
        Op::Bond { kind, sender: u, coins: vec![(s("usei"), amt)] }
    }

    fn f_unbond(&mut self) -> Op {
        if self.nobody_holds_tokens() && self.r.pct(60) {
            return self.f_bond();
        }
        let t = self.tok_held();
        let (u, b) = self.holder(t);
        let m = self.cap(b);
        let amt = self.amount(m);
        Op::Cw { tok: t, sender: u, msg: CwMsg::Send { contract: s("hub"), amt, hook: Hook::Unbond } }
    }

    fn f_convert(&mut self) -> Op {
        if self.nobody_holds_tokens() && self.r.pct(60) {
            return self.f_bond();
        }
        let t = self.tok_held();
        let (u, b) = self.holder(t);
        let m = self.cap(b);
        let amt = self.amount(m);
        Op::Cw { tok: t, sender: u, msg: CwMsg::Send { contract: s("hub"), amt, hook: Hook::Convert } }
    }

    /// users with a claim in a batch that is released or whose unbonding period has passed
    fn matured_users(&self) -> Vec<String> {
        let w = self.w();
        let unb = hub_params(w).map(|p| p.unbonding_period).unwrap_or(self.ut);
        let hist = hub_history(w);
        let mut out = vec![];
        for a in ACCOUNTS.iter() {
            if let Ok(r) = query_contract::<_, basset::hub::UnbondRequestsResponse>(
                w,
                HUB,
                &basset::hub::QueryMsg::UnbondRequests { address: a.to_string() },
            ) {
                let ripe = r.requests.iter().any(|(id, _, _)| {
                    hist.iter().any(|h| {
                        h.batch_id == *id && (h.released || h.time as u128 + unb as u128 <= w.now as u128)
                    })
                });
                if ripe {
                    out.push(a.to_string());
                }
            }
        }
        out
    }

    fn f_withdraw(&mut self) -> Op {
        let ripe = self.matured_users();
        if !ripe.is_empty() && self.r.pct(88) {
            return Op::Hub { sender: self.pick_str(&ripe).unwrap(), msg: HubMsg::Withdraw };
        }
        if ripe.is_empty() && self.r.pct(55) {
            // nobody can withdraw yet: move the clock towards the next maturity / epoch boundary
            return self.f_advance();
        }
        let ws = wait_users(self.w());
        let u = if !ws.is_empty() && self.r.pct(70) {
            self.pick_str(&ws).unwrap()
        } else {
            self.user()
        };
        Op::Hub { sender: u, msg: HubMsg::Withdraw }
    }

    fn f_transfer(&mut self) -> Op {
        if self.nobody_holds_tokens() && self.r.pct(60) {
            return self.f_bond();
        }
        let t = self.tok_held();
        let (u, b) = self.holder(t);
        let to = self.other_user(&u);
        let amt = self.amount(b);
        Op::Cw { tok: t, sender: u, msg: CwMsg::Transfer { to, amt } }
    }

    fn f_allow(&mut self) -> Op {
        let t = self.tok();
        let dec = self.r.pct(30);
        if dec {
            let al = allowances(self.w(), t);
            if !al.is_empty() && self.r.pct(80) {
                let (o, sp, a) = al[self.r.below(al.len() as u64) as usize].clone();
                let amt = self.amount(a);
                let exp = self.exp();
                return Op::Cw { tok: t, sender: o, msg: CwMsg::DecAllow { spender: sp, amt, exp } };
            }
        }
        let t = if self.r.pct(70) { self.tok_held() } else { t };
        let o = if self.r.pct(70) { self.holder(t).0 } else { self.user() };
        let sp = self.other_user(&o);
        let bal = tok_bal(self.w(), t, &o);
        let amt = self.amount(bal.saturating_mul(2).saturating_add(10));
        let exp = self.exp();
        let msg = if dec {
            CwMsg::DecAllow { spender: sp, amt, exp }
        } else {
            CwMsg::IncAllow { spender: sp, amt, exp }
        };
        Op::Cw { tok: t, sender: o, msg }
    }

    /// usable allowances of `t`: not expired, positive, owner holds tokens
    fn usable_allowances(&self, t: Tok) -> Vec<(String, String, u128)> {
        allowances_ext(self.w(), t)
            .into_iter()
            .filter(|(o, _, a, live)| *live && *a > 0 && tok_bal(self.w(), t, o) > 0)
            .map(|(o, sp, a, _)| (o, sp, a))
            .collect()
    }

    fn f_from(&mut self) -> Op {
        let mut t = self.tok();
        let mut usable = self.usable_allowances(t);
        if usable.is_empty() {
            let t2 = if t == Tok::Bsei { Tok::Stsei } else { Tok::Bsei };
            let u2 = self.usable_allowances(t2);
            if !u2.is_empty() {
                t = t2;
                usable = u2;
            }
        }
        if usable.is_empty() && self.nobody_holds_tokens() && self.r.pct(50) {
            return self.f_bond();
        }
        if usable.is_empty() && self.r.pct(65) {
            // nothing could succeed: create a generous, live allowance from a holder instead
            let t = self.tok_held();
            let (o, bal) = self.holder(t);
            let mut sp = self.other_user(&o);
            if sp == o {
                sp = if o == "user1" { s("user2") } else { s("user1") };
            }
            let amt = self.amount(bal.saturating_mul(2).saturating_add(10)).max(1);
            let k = self.r.pick(&[10u64, 1000]);
            let exp = match self.r.below(4) {
                0 => Exp::Absent,
                1 => Exp::Never,
                2 => Exp::Height(self.w().height() + k),
                _ => Exp::Time((self.w().now + k).min(MAX_NOW)),
            };
            return Op::Cw { tok: t, sender: o, msg: CwMsg::IncAllow { spender: sp, amt, exp } };
        }
        let all = allowances(self.w(), t);
        let (o, sp, a) = if !usable.is_empty() && self.r.pct(85) {
            usable[self.r.below(usable.len() as u64) as usize].clone()
        } else if !all.is_empty() && self.r.pct(70) {
            all[self.r.below(all.len() as u64) as usize].clone()
        } else {
            let o = self.holder(t).0;
            let sp = self.other_user(&o);
            (o, sp, 0)
        };
        let bal = tok_bal(self.w(), t, &o);
        let amt = self.amount(a.min(bal));
        let variant = if self.profile == "unbond" { 80 } else { self.r.below(100) };
        let msg = match variant {
            0..=49 => {
                let to = self.other_user(&o);
                CwMsg::TransferFrom { owner: o, to, amt }
            }
            50..=69 => CwMsg::BurnFrom { owner: o, amt },
            _ => {
                let hook = if self.profile == "unbond" { Hook::Unbond } else { self.hook_uc() };
                CwMsg::SendFrom { owner: o, contract: s("hub"), amt, hook }
            }
        };
        Op::Cw { tok: t, sender: sp, msg }
    }

    fn f_slashchk(&mut self) -> Op {
        Op::Hub { sender: self.user(), msg: HubMsg::CheckSlashing }
    }

    fn f_advance(&mut self) -> Op {
        const CAP: u64 = 10_000_000;
        let now = self.w().now;
        let left = CAP.saturating_sub(self.advanced);
        let (epoch, unb) = hub_params(self.w())
            .map(|p| (p.epoch_period, p.unbonding_period))
            .unwrap_or((30, self.ut));
        let mut cands: Vec<u128> = vec![];
        if let Some(st) = hub_state(self.w()) {
            let lut = st.last_unbonded_time as u128;
            cands.push(lut + epoch as u128);
            cands.push(lut + epoch as u128 + 1);
        }
        if self.w().inst[HUB] {
            for h in hub_history(self.w()) {
                if !h.released {
                    let b = h.time as u128 + unb as u128;
                    cands.push(b.saturating_sub(1));
                    cands.push(b);
                    cands.push(b + 1);
                }
            }
        }
        for u in &self.w().unbonding {
            cands.push(u.completion.saturating_sub(1));
            cands.push(u.completion);
            cands.push(u.completion + 1);
        }
        let cands: Vec<u64> = cands
            .into_iter()
            .filter(|c| *c > now as u128 && *c <= (now + left) as u128)
            .map(|c| c as u64)
            .collect();
        let dt = if !cands.is_empty() && self.r.pct(55) {
            cands[self.r.below(cands.len() as u64) as usize] - now
        } else {
            let e = epoch.min(1_000_000);
            let u = unb.min(1_000_000);
            match self.r.below(8) {
                0 => 1,
                1 => 2,
                2 => e / 2,
                3 => e,
                4 => e + 1,
                5 => u,
                6 => u + 1,
                _ => self.r.range(1, 3 * e + 3),
            }
        };
        let dt = dt.min(left);
        self.advanced += dt;
        Op::Advance { dt }
    }

    fn f_slash(&mut self) -> Op {
        let vs = hub_delegation_vals(self.w());
        let val = if !vs.is_empty() && self.r.pct(90) {
            self.pick_str(&vs).unwrap()
        } else {
            self.any_val()
        };
        let (num, den) = if self.r.pct(3) {
            (1, 1)
        } else {
            self.r.pick(&[(1u128, 10u128), (1, 100), (1, 2), (1, 1_000_000), (0, 1), (3, 7)])
        };
        let p = if self.profile == "unbond" { 70 } else { 50 };
        Op::Slash { val, num, den, unb: self.r.pct(p) }
    }

    fn f_accrue(&mut self) -> Op {
        let vs = hub_delegation_vals(self.w());
        let val = if !vs.is_empty() && self.r.pct(95) {
            self.pick_str(&vs).unwrap()
        } else {
            self.any_val()
        };
        let denom = s(self.r.pick(&["usei", "uusd", "uAtom"]));
        let amt = if self.r.pct(15) {
            self.r.pick(&[1u128, 19, 20])
        } else {
            self.log_uniform(1, 1_000_000_000)
        };
        Op::Accrue { val, denom, amt }
    }

    fn f_update(&mut self) -> Op {
        let sender = if self.r.pct(10) {
            self.user()
        } else {
            hub_config(self.w())
                .map(|c| humanize(&c.update_reward_index_addr))
                .unwrap_or_else(|| s("updater"))
        };
        Op::Hub { sender, msg: HubMsg::UpdateGlobal(0) }
    }

    fn f_claim(&mut self) -> Op {
        let us = accrued_users(self.w());
        if us.is_empty() {
            // nobody has a whole unit of rewards: feed the reward pipeline instead (mostly)
            match self.r.below(100) {
                0..=34 => {
                    let vs = hub_delegation_vals(self.w());
                    if let Some(val) = self.pick_str(&vs) {
                        let amt = self.log_uniform(1_000, 1_000_000_000);
                        return Op::Accrue { val, denom: s("uusd"), amt };
                    }
                }
                35..=69 => return self.f_update(),
                _ => {}
            }
        }
        let u = if !us.is_empty() && self.r.pct(85) {
            self.pick_str(&us).unwrap()
        } else {
            self.user()
        };
        let rcpt = if self.r.pct(60) { None } else { Some(self.other_user(&u)) };
        Op::Reward { sender: u, msg: RewardMsg::Claim(rcpt) }
    }

    fn f_gift(&mut self) -> Op {
        let addr = match self.profile {
            "unbond" => s("hub"),
            "rewards" => s(self.r.pick(&["disp", "reward"])),
            _ => match self.r.below(4) {
                0 => s("hub"),
                1 => s("reward"),
                2 => s("disp"),
                _ => s(USERS[self.r.below(8) as usize]),
            },
        };
        let denom = s(self.r.pick(&["usei", "uusd"]));
        let amt = self.log_uniform(1, 1_000_000);
        Op::Gift { addr, denom, amt }
    }

    fn f_price(&mut self) -> Op {
        if self.r.pct(20) {
            Op::SetPrice(E18)
        } else {
            Op::SetPrice(self.log_uniform(1_000_000_000_000, 1_000_000_000_000_000_000_000_000))
        }
    }

    fn f_modes(&mut self) -> Op {
        let ok = self.r.pct(60);
        if self.r.pct(50) {
            Op::SwapMode(if ok {
                SwapMode::Ok
            } else {
                self.r.pick(&[SwapMode::Fail, SwapMode::Garbage])
            })
        } else {
            Op::OracleMode(if ok {
                OracleMode::Ok
            } else {
                self.r.pick(&[OracleMode::Fail, OracleMode::Zero])
            })
        }
    }

    fn f_registry(&mut self) -> Op {
        let owner = self.owner_of(REG);
        let inreg = reg_vals(self.w());
        match self.r.below(100) {
            0..=29 => Op::Reg { sender: owner, msg: RegMsg::Add(self.any_val()) },
            30..=59 => {
                let v = if !inreg.is_empty() && self.r.pct(90) {
                    self.pick_str(&inreg).unwrap()
                } else {
                    self.any_val()
                };
                Op::Reg { sender: owner, msg: RegMsg::Remove(v) }
            }
            60..=74 => Op::CanRedel { val: self.any_val(), flag: self.r.pct(50) },
            _ => {
                // prefer a validator the hub still delegates to but that left the registry
                let cands: Vec<String> = hub_delegation_vals(self.w())
                    .into_iter()
                    .filter(|v| !inreg.contains(v))
                    .collect();
                let v = if !cands.is_empty() && self.r.pct(80) {
                    self.pick_str(&cands).unwrap()
                } else {
                    self.any_val()
                };
                Op::Reg { sender: self.user(), msg: RegMsg::Redelegations(v) }
            }
        }
    }

    fn params_fields(&mut self, allow_unbonding_change: bool) -> HubMsg {
        let epoch = self.opt(40, |g| g.r.pick(&[0u64, 10, 30, 100]));
        let ut = self.ut;
        let unbonding = self.opt(40, |g| {
            if allow_unbonding_change && g.r.pct(50) {
                g.r.pick(&[0u64, 7, 50, 100, 1000])
            } else {
                ut
            }
        });
        let pegfee = self.opt(40, |g| {
            g.r.pick(&[0u128, 5_000_000_000_000_000, 500_000_000_000_000_000, E18, E18 + 1])
        });
        let thr = self.opt(40, |g| g.r.pick(&[0u128, 500_000_000_000_000_000, E18, 2 * E18]));
        let paused = if self.profile == "pause" {
            self.r.pick(&[None, Some(false), Some(true)])
        } else {
            self.r.pick(&[None, Some(false)])
        };
        let reward_denom = self.opt(40, |_| s("uusd"));
        HubMsg::Params { epoch, unbonding, pegfee, thr, paused, reward_denom }
    }

    fn f_params(&mut self) -> Op {
        let sender = self.owner_of(HUB);
        let msg = self.params_fields(self.profile == "config");
        Op::Hub { sender, msg }
    }

    fn f_pause(&mut self) -> Op {
        let sender = self.owner_of(HUB);
        let paused_now =
            hub_params(self.w()).map(|p| p.paused.unwrap_or(false)).unwrap_or(false);
        if paused_now && old_wait_count(self.w()) > 0 && self.r.pct(60) {
            // un-pausing is refused while legacy entries exist: migrate them first
            let limit = self.r.pick(&[None, None, Some(2u32), Some(5)]);
            return Op::Hub { sender: self.user(), msg: HubMsg::Migrate(limit) };
        }
        let paused = if paused_now {
            if self.r.pct(50) {
                Some(false)
            } else {
                None
            }
        } else {
            Some(true)
        };
        Op::Hub {
            sender,
            msg: HubMsg::Params {
                epoch: None,
                unbonding: None,
                pegfee: None,
                thr: None,
                paused,
                reward_denom: None,
            },
        }
    }

    fn contract_op(&mut self, c: usize, sender: String, set: Option<String>) -> Op {
        match (c, set) {
            (HUB, Some(x)) => Op::Hub { sender, msg: HubMsg::SetOwner(x) },
            (HUB, None) => Op::Hub { sender, msg: HubMsg::Accept },
            (REWARD, Some(x)) => Op::Reward { sender, msg: RewardMsg::SetOwner(x) },
            (REWARD, None) => Op::Reward { sender, msg: RewardMsg::Accept },
            (DISP, Some(x)) => Op::Disp { sender, msg: DispMsg::SetOwner(x) },
            (DISP, None) => Op::Disp { sender, msg: DispMsg::Accept },
            (_, Some(x)) => Op::Reg { sender, msg: RegMsg::SetOwner(x) },
            (_, None) => Op::Reg { sender, msg: RegMsg::Accept },
        }
    }

    fn f_owner(&mut self) -> Op {
        let c = self.r.pick(&[HUB, REWARD, DISP, REG]);
        let (owner, nominee) = owner_nominee(self.w(), c);
        // an accept is more interesting when a nomination is pending
        let pending = owner != nominee;
        let do_set = if pending { self.r.pct(35) } else { self.r.pct(75) };
        if do_set {
            let sender = if self.r.pct(80) { owner.clone() } else { self.user() };
            let x = match self.r.below(100) {
                0..=69 => self.user(),
                70..=89 => owner.clone(), // abandon a pending transfer / nominate oneself
                _ => s(self.r.pick(&ADDRS[..9])),
            };
            self.contract_op(c, sender, Some(x))
        } else {
            let formers = self.former[c].clone();
            let x = match self.r.below(100) {
                0..=69 => nominee,
                70..=89 => self.pick_str(&formers).unwrap_or_else(|| self.user()),
                _ => self.user(),
            };
            self.contract_op(c, x, None)
        }
    }

    fn swapdenom_args(&mut self, present: &[String]) -> (String, bool) {
        let add = self.r.pct(50);
        if add {
            if !present.is_empty() && self.r.pct(30) {
                (present[self.r.below(present.len() as u64) as usize].clone(), true)
            } else {
                (s(self.r.pick(&DENOMS)), true)
            }
        } else if !present.is_empty() && self.r.pct(70) {
            (present[self.r.below(present.len() as u64) as usize].clone(), false)
        } else {
            (s(self.r.pick(&DENOMS)), false)
        }
    }

    fn disp_rate(&mut self) -> u128 {
        if self.profile == "rewards" {
            // rates 0 and 1 make every dispatch fail (zero-amount transfers): keep them rarer
            return match self.r.below(100) {
                0..=14 => 0,
                15..=54 => 50_000_000_000_000_000,
                55..=79 => 300_000_000_000_000_000,
                80..=89 => E18,
                90..=94 => E18 + 1,
                _ => 1_500_000_000_000_000_000,
            };
        }
        self.r.pick(&[0u128, 50_000_000_000_000_000, E18, E18 + 1, 1_500_000_000_000_000_000])
    }

    fn f_cfg(&mut self) -> Op {
        let which = if self.profile == "rewards" { 1 } else { self.r.below(4) };
        match which {
            0 => {
                let sender = self.owner_of(REWARD);
                if self.r.pct(50) {
                    let hub = self.opt(35, |g| g.addr_choice("hub"));
                    let denom = self.opt(35, |g| {
                        if g.r.pct(70) {
                            s("uusd")
                        } else {
                            s(g.r.pick(&DENOMS))
                        }
                    });
                    let swap = self.opt(35, |g| g.addr_choice("swap"));
                    Op::Reward { sender, msg: RewardMsg::Config { hub, denom, swap } }
                } else {
                    let present = reward_swap_denoms(self.w());
                    let (denom, add) = self.swapdenom_args(&present);
                    Op::Reward { sender, msg: RewardMsg::SwapDenom { denom, add } }
                }
            }
            1 => {
                let sender = self.owner_of(DISP);
                let sub = if self.profile == "rewards" {
                    self.r.pick(&[0u64, 0, 1, 1])
                } else {
                    self.r.below(5)
                };
                match sub {
                    0 if self.profile == "rewards" => Op::Disp {
                        sender,
                        msg: DispMsg::Config {
                            hub: None,
                            reward: None,
                            stdenom: None,
                            bdenom: None,
                            keeper: None,
                            rate: Some(self.disp_rate()),
                        },
                    },
                    0 | 4 => {
                        let hub = self.opt(35, |g| g.addr_choice("hub"));
                        let reward = self.opt(35, |g| g.addr_choice("reward"));
                        let stdenom = self.opt(15, |g| s(g.r.pick(&DENOMS)));
                        let bdenom = self.opt(35, |g| {
                            if g.r.pct(70) {
                                s("uusd")
                            } else {
                                s(g.r.pick(&DENOMS))
                            }
                        });
                        let keeper = self.opt(35, |g| g.addr_choice("keeper"));
                        let rate = self.opt(35, |g| g.disp_rate());
                        Op::Disp {
                            sender,
                            msg: DispMsg::Config { hub, reward, stdenom, bdenom, keeper, rate },
                        }
                    }
                    1 => {
                        let present = disp_swap_denoms(self.w());
                        let (denom, add) = self.swapdenom_args(&present);
                        Op::Disp { sender, msg: DispMsg::SwapDenom { denom, add } }
                    }
                    2 => Op::Disp { sender, msg: DispMsg::SwapContract(self.addr_choice("swap")) },
                    _ => Op::Disp { sender, msg: DispMsg::Oracle(self.addr_choice("oracle")) },
                }
            }
            2 => {
                let sender = self.owner_of(REG);
                let hub = self.opt(65, |g| g.addr_choice("hub"));
                Op::Reg { sender, msg: RegMsg::Config(hub) }
            }
            _ => {
                let sender = self.owner_of(HUB);
                let disp = self.opt(35, |g| g.addr_choice("disp"));
                let reg = self.opt(35, |g| g.addr_choice("reg"));
                let bsei = self.opt(35, |g| g.addr_choice("bsei"));
                let stsei = self.opt(35, |g| g.addr_choice("stsei"));
                let airdrop = self.opt(35, |g| g.addr_choice("airdrop"));
                let rewards = self.opt(35, |g| g.addr_choice("reward"));
                let updater = self.opt(35, |g| g.addr_choice("updater"));
                Op::Hub {
                    sender,
                    msg: HubMsg::Config { disp, reg, bsei, stsei, airdrop, rewards, updater },
                }
            }
        }
    }

    fn small(&mut self) -> u128 {
        self.r.pick(&[0u128, 1, 2, 5, 10, 100, 1000, 1_000_000])
    }

    fn f_direct(&mut self) -> Op {
        let u = if self.r.pct(25) { self.any_addr() } else { self.user() };
        let u2 = self.user();
        let t = self.tok();
        let amt = match self.r.below(3) {
            0 => self.small(),
            1 => self.amount(tok_bal(self.w(), t, &u2)),
            _ => self.log_uniform(1, 1_000_000_000),
        };
        match self.r.below(19) {
            0 => Op::Hub {
                sender: u,
                msg: HubMsg::Receive {
                    sender: u2,
                    amount: amt,
                    hook: self.r.pick(&[Hook::Unbond, Hook::Convert, Hook::Junk]),
                },
            },
            1 => Op::Bond { kind: BondKind::Rw, sender: u, coins: vec![(s("usei"), amt)] },
            2 => Op::Cw { tok: t, sender: u, msg: CwMsg::Mint { to: u2, amt } },
            3 => Op::Cw { tok: t, sender: u, msg: CwMsg::Burn { amt } },
            4 => Op::Disp { sender: u, msg: DispMsg::Dispatch },
            5 => Op::Disp {
                sender: u,
                msg: DispMsg::Swap { bsei_bonded: self.small(), stsei_bonded: self.small() },
            },
            6 => Op::Reward { sender: u, msg: RewardMsg::Inc { addr: u2, amt } },
            7 => Op::Reward { sender: u, msg: RewardMsg::Dec { addr: u2, amt } },
            8 => Op::Reward { sender: u, msg: RewardMsg::UpdateIndex },
            9 => Op::Reward { sender: u, msg: RewardMsg::Swap },
            10 => Op::Hub {
                sender: u,
                msg: HubMsg::RedelProxy { src: self.any_val(), dsts: vec![(self.any_val(), amt)] },
            },
            11 => Op::Hub { sender: u, msg: HubMsg::SwapHook { token: s("bsei"), swap: s("swap") } },
            12 => Op::Hub {
                sender: u,
                msg: HubMsg::ClaimAirdrop { token: s("bsei"), airdrop: s("airdrop"), swap: s("swap") },
            },
            13 => Op::Hub { sender: u, msg: HubMsg::Migrate(self.r.pick(&[None, Some(1), Some(2)])) },
            14 => {
                // the updater with airdrop hooks is the valid-for-the-right-principal form
                let sender = if self.r.pct(50) { s("updater") } else { u };
                Op::Hub { sender, msg: HubMsg::UpdateGlobal(2) }
            }
            15 => {
                let x = if self.r.pct(30) { None } else { Some(self.any_addr()) };
                Op::Cw { tok: Tok::Stsei, sender: u, msg: CwMsg::UpdMinter(x) }
            }
            16 => Op::Bond {
                kind: self.r.pick(&[BondKind::B, BondKind::St]),
                sender: u,
                coins: vec![(s("usei"), 0)],
            },
            17 => Op::Bond {
                kind: self.r.pick(&[BondKind::B, BondKind::St]),
                sender: u,
                coins: vec![(s("usei"), amt), (s(self.r.pick(&DENOMS)), self.small())],
            },
            _ => Op::Bond {
                kind: self.r.pick(&[BondKind::B, BondKind::St]),
                sender: u,
                coins: vec![(s(self.r.pick(&["uusd", "uAtom", "ujunk"])), amt)],
            },
        }
    }

    fn f_legacy(&mut self) -> Op {
        let paused_now =
            hub_params(self.w()).map(|p| p.paused.unwrap_or(false)).unwrap_or(false);
        let p_write = if paused_now && old_wait_count(self.w()) > 0 { 25 } else { 55 };
        if self.r.pct(6) {
            // a code upgrade of one of the contracts: all migrate entry points are no-ops
            return Op::Migrate { contract: s(self.r.pick(&["hub", "reward", "disp", "reg", "bsei"])) };
        }
        if self.r.pct(p_write) {
            Op::LegacyWait {
                addr: s(USERS[self.r.below(8) as usize]),
                // the storage orders entries by the DECIMAL STRING of the batch id, the model by its value:
                // a history uses either the ids 1..9 or the ids 1, 10..19 (one key a prefix of the
                // others) - within each set the two orders agree (PROTOCOL.md 3.1)
                batch: {
                    let have = old_wait_batches(self.w());
                    let two_digit = if have.iter().any(|b| *b >= 10) {
                        true
                    } else if have.iter().any(|b| *b >= 2) {
                        false
                    } else {
                        self.r.pct(30)
                    };
                    if two_digit {
                        if self.r.pct(25) {
                            1
                        } else {
                            self.r.range(10, 19)
                        }
                    } else {
                        self.r.range(1, 9)
                    }
                },
                // zero-amount entries exist too (a request eaten by the peg fee)
                amt: if self.r.pct(15) { 0 } else { self.log_uniform(1, 100_000) },
            }
        } else {
            Op::Hub {
                sender: self.user(),
                msg: HubMsg::Migrate(self.r.pick(&[None, Some(1), Some(2), Some(5)])),
            }
        }
    }

    fn token_rows(&mut self) -> Vec<(String, u128)> {
        let n = if self.r.pct(35) { 0 } else { self.r.below(6) as usize };
        let mut rows: Vec<(String, u128)> = vec![];
        for _ in 0..n {
            let a = if !rows.is_empty() && self.r.pct(30) {
                rows[self.r.below(rows.len() as u64) as usize].0.clone()
            } else {
                self.user()
            };
            let x = self.log_uniform(1, 1_000_000_000);
            rows.push((a, x));
        }
        rows
    }

    fn f_inst(&mut self) -> Op {
        let sender = if self.r.pct(90) { s("owner") } else { self.user() };
        let which = if self.profile == "token" { 4 + self.r.below(2) } else { self.r.below(6) };
        match which as usize {
            HUB => Op::InstHub {
                sender,
                epoch: self.r.pick(&[0u64, 10, 30, 100]),
                unbonding: self.ut,
                pegfee: self.r.pick(&[
                    0u128,
                    5_000_000_000_000_000,
                    500_000_000_000_000_000,
                    E18,
                    E18 + 1,
                ]),
                threshold: self.r.pick(&[0u128, 500_000_000_000_000_000, E18, 2 * E18]),
                updater: s("updater"),
                underlying: s("usei"),
                reward_denom: s("uusd"),
            },
            REWARD => Op::InstReward {
                sender,
                hub: s("hub"),
                reward_denom: s("uusd"),
                swap: s("swap"),
                denoms: vec![s("uAtom"), s("usei")],
            },
            DISP => Op::InstDisp {
                sender,
                hub: s("hub"),
                reward: s("reward"),
                stdenom: s("usei"),
                bdenom: s("uusd"),
                keeper: s("keeper"),
                rate: self.disp_rate(),
                swap: s("swap"),
                oracle: s("oracle"),
                denoms: vec![s("uAtom"), s("usei"), s("uusd")],
            },
            REG => {
                let n = self.r.below(5) as usize;
                let vals = self.val_subset(n);
                Op::InstReg { sender, hub: s("hub"), vals }
            }
            BSEI => {
                // some rows spell their address in upper case: the same account (canonical form)
                let mut rows = self.token_rows();
                for r in rows.iter_mut() {
                    if self.r.pct(15) {
                        r.0 = r.0.to_uppercase();
                    }
                }
                Op::InstBsei { sender, hub: s("hub"), balances: rows }
            }
            _ => Op::InstStsei {
                sender,
                hub: s("hub"),
                mk: self.r.pick(&[0u8, 1, 2, 2, 2]),
                balances: self.token_rows(),
            },
        }
    }

    fn val_subset(&mut self, n: usize) -> Vec<String> {
        let mut pool: Vec<&str> = VALS.to_vec();
        let mut out = vec![];
        for _ in 0..n.min(VALS.len()) {
            let i = self.r.below(pool.len() as u64) as usize;
            out.push(s(pool.remove(i)));
        }
        out
    }

    // ---- blind stream ---------------------------------------------------------------------------

    fn opt_any(&mut self) -> Option<String> {
        if self.r.pct(50) {
            None
        } else {
            Some(self.any_addr())
        }
    }

    fn blind(&mut self) -> Op {
        let sender = self.any_addr();
        let a = self.any_addr();
        let b = self.any_addr();
        let amt = self.small();
        let t = self.tok();
        let hook = self.r.pick(&[Hook::Unbond, Hook::Convert, Hook::Junk]);
        let n = self.r.below(56);
        match n {
            0 => Op::Bond { kind: BondKind::B, sender, coins: vec![(s("usei"), amt)] },
            1 => Op::Bond { kind: BondKind::St, sender, coins: vec![(s("usei"), amt)] },
            2 => Op::Bond { kind: BondKind::Rw, sender, coins: vec![(s("usei"), amt)] },
            3 => Op::Hub { sender, msg: HubMsg::Withdraw },
            4 => Op::Hub { sender, msg: HubMsg::CheckSlashing },
            5 => Op::Hub { sender, msg: HubMsg::UpdateGlobal(self.r.below(3) as u32) },
            6 => {
                let msg = self.params_fields(false);
                Op::Hub { sender, msg }
            }
            7 => Op::Hub {
                sender,
                msg: HubMsg::Config {
                    disp: self.opt_any(),
                    reg: self.opt_any(),
                    bsei: self.opt_any(),
                    stsei: self.opt_any(),
                    airdrop: self.opt_any(),
                    rewards: self.opt_any(),
                    updater: self.opt_any(),
                },
            },
            8 => Op::Hub { sender, msg: HubMsg::SetOwner(a) },
            9 => Op::Hub { sender, msg: HubMsg::Accept },
            10 => Op::Hub {
                sender,
                msg: HubMsg::RedelProxy { src: self.any_val(), dsts: vec![(self.any_val(), amt)] },
            },
            11 => Op::Hub { sender, msg: HubMsg::SwapHook { token: a, swap: b } },
            12 => Op::Hub { sender, msg: HubMsg::ClaimAirdrop { token: a, airdrop: s("airdrop"), swap: b } },
            13 => Op::Hub { sender, msg: HubMsg::Migrate(self.r.pick(&[None, Some(1), Some(3)])) },
            14 => Op::Hub { sender, msg: HubMsg::Receive { sender: a, amount: amt, hook } },
            15 => Op::Cw { tok: t, sender, msg: CwMsg::Transfer { to: a, amt } },
            16 => Op::Cw { tok: t, sender, msg: CwMsg::Burn { amt } },
            17 => Op::Cw { tok: t, sender, msg: CwMsg::Mint { to: a, amt } },
            18 => Op::Cw { tok: t, sender, msg: CwMsg::Send { contract: a, amt, hook } },
            19 => {
                let exp = self.exp();
                Op::Cw { tok: t, sender, msg: CwMsg::IncAllow { spender: a, amt, exp } }
            }
            20 => {
                let exp = self.exp();
                Op::Cw { tok: t, sender, msg: CwMsg::DecAllow { spender: a, amt, exp } }
            }
            21 => Op::Cw { tok: t, sender, msg: CwMsg::TransferFrom { owner: a, to: b, amt } },
            22 => Op::Cw { tok: t, sender, msg: CwMsg::BurnFrom { owner: a, amt } },
            23 => Op::Cw { tok: t, sender, msg: CwMsg::SendFrom { owner: a, contract: b, amt, hook } },
            24 => Op::Cw { tok: Tok::Stsei, sender, msg: CwMsg::UpdMinter(self.opt_any()) },
            25 => Op::Reward { sender, msg: RewardMsg::Claim(self.opt_any()) },
            26 => Op::Reward {
                sender,
                msg: RewardMsg::Config {
                    hub: self.opt_any(),
                    denom: self.opt(50, |g| s(g.r.pick(&DENOMS))),
                    swap: self.opt_any(),
                },
            },
            27 => Op::Reward { sender, msg: RewardMsg::SetOwner(a) },
            28 => Op::Reward { sender, msg: RewardMsg::Accept },
            29 => Op::Reward { sender, msg: RewardMsg::Swap },
            30 => Op::Reward { sender, msg: RewardMsg::UpdateIndex },
            31 => Op::Reward { sender, msg: RewardMsg::Inc { addr: a, amt } },
            32 => Op::Reward { sender, msg: RewardMsg::Dec { addr: a, amt } },
            33 => Op::Reward {
                sender,
                msg: RewardMsg::SwapDenom { denom: s(self.r.pick(&DENOMS)), add: self.r.pct(50) },
            },
            34 => Op::Disp {
                sender,
                msg: DispMsg::Swap { bsei_bonded: amt, stsei_bonded: self.small() },
            },
            35 => Op::Disp { sender, msg: DispMsg::Dispatch },
            36 => Op::Disp {
                sender,
                msg: DispMsg::Config {
                    hub: self.opt_any(),
                    reward: self.opt_any(),
                    stdenom: self.opt(20, |g| s(g.r.pick(&DENOMS))),
                    bdenom: self.opt(40, |g| s(g.r.pick(&DENOMS))),
                    keeper: self.opt_any(),
                    rate: self.opt(50, |g| g.disp_rate()),
                },
            },
            37 => Op::Disp { sender, msg: DispMsg::SetOwner(a) },
            38 => Op::Disp { sender, msg: DispMsg::Accept },
            39 => Op::Disp { sender, msg: DispMsg::SwapContract(a) },
            40 => Op::Disp {
                sender,
                msg: DispMsg::SwapDenom { denom: s(self.r.pick(&DENOMS)), add: self.r.pct(50) },
            },
            41 => Op::Disp { sender, msg: DispMsg::Oracle(a) },
            42 => Op::Reg { sender, msg: RegMsg::Add(self.any_val()) },
            43 => Op::Reg { sender, msg: RegMsg::Remove(self.any_val()) },
            44 => Op::Reg { sender, msg: RegMsg::Config(self.opt_any()) },
            45 => Op::Reg { sender, msg: RegMsg::Redelegations(self.any_val()) },
            46 => Op::Reg { sender, msg: RegMsg::SetOwner(a) },
            47 => Op::Reg { sender, msg: RegMsg::Accept },
            // a few more of the user-facing ones so that the blind stream is not all admin calls
            48 => Op::Cw { tok: t, sender, msg: CwMsg::Send { contract: s("hub"), amt, hook } },
            49 => Op::Cw { tok: t, sender, msg: CwMsg::Transfer { to: a, amt } },
            50 => Op::Bond {
                kind: BondKind::B,
                sender,
                coins: vec![(s(self.r.pick(&DENOMS)), amt)],
            },
            51 => Op::Hub { sender, msg: HubMsg::Withdraw },
            52 => Op::Reward { sender, msg: RewardMsg::Claim(None) },
            53 => Op::Hub { sender, msg: HubMsg::UpdateGlobal(0) },
            54 => Op::Reg { sender, msg: RegMsg::Add(s("valx")) },
            _ => Op::Hub { sender, msg: HubMsg::CheckSlashing },
        }
    }

    // ---- history ------------------------------------------------------------------------------

    fn sample(&mut self, f: Fam) -> Op {
        let op = self.sample_plain(f);
        self.maybe_attach_funds(op)
    }

    /// 4 % of the non-bond transactions carry coins on their root message (none of the contracts'
    /// messages rejects attached coins; they land on the target's bank account before it executes):
    /// one coin (85 %) or two, mostly a balance the sender can pay, sometimes more than it holds
    fn maybe_attach_funds(&mut self, op: Op) -> Op {
        let sender = match &op {
            Op::Hub { sender, .. }
            | Op::Cw { sender, .. }
            | Op::Reward { sender, .. }
            | Op::Disp { sender, .. }
            | Op::Reg { sender, .. } => sender.clone(),
            _ => return op,
        };
        if !self.r.pct(4) {
            return op;
        }
        let n = if self.r.pct(85) { 1 } else { 2 };
        let mut coins: Vec<(String, u128)> = Vec::new();
        for _ in 0..n {
            let denom = match self.r.range(0, 99) {
                0..=59 => "usei",
                60..=84 => "uusd",
                85..=94 => "uAtom",
                _ => "ujunk",
            };
            let have = self.w().balance(&sender, denom);
            let amt = match self.r.range(0, 99) {
                0..=24 => 1,
                25..=39 => 2,
                40..=54 => 1000,
                55..=74 => (have / 10).max(1),
                75..=89 => have.max(1),
                _ => have.saturating_add(1),
            };
            coins.push((s(denom), amt));
        }
        Op::WithFunds { coins, inner: Box::new(op) }
    }

    fn sample_plain(&mut self, f: Fam) -> Op {
        match f {
            Bond => self.f_bond(),
            Unbond => self.f_unbond(),
            Convert => self.f_convert(),
            Withdraw => self.f_withdraw(),
            Transfer => self.f_transfer(),
            Allow => self.f_allow(),
            From => self.f_from(),
            SlashChk => self.f_slashchk(),
            Advance => self.f_advance(),
            Slash => self.f_slash(),
            Accrue => self.f_accrue(),
            Update => self.f_update(),
            Claim => self.f_claim(),
            Gift => self.f_gift(),
            Price => self.f_price(),
            Modes => self.f_modes(),
            Registry => self.f_registry(),
            Params => self.f_params(),
            Pause => self.f_pause(),
            Owner => self.f_owner(),
            Cfg => self.f_cfg(),
            Direct => self.f_direct(),
            Legacy => self.f_legacy(),
            Inst => self.f_inst(),
        }
    }

    fn pick_family(&mut self) -> Fam {
        let mut x = self.r.below(self.wsum as u64) as u32;
        for (f, w) in &self.weights {
            if x < *w {
                return *f;
            }
            x -= *w;
        }
        Bond
    }

    /// apply an op; bookkeeping that needs the outcome
    fn emit(&mut self, op: Op) -> bool {
        // remember nominees that are about to be replaced
        let mut replaced: Option<(usize, String)> = None;
        let c = match &op {
            Op::Hub { msg: HubMsg::SetOwner(_), .. } => Some(HUB),
            Op::Reward { msg: RewardMsg::SetOwner(_), .. } => Some(REWARD),
            Op::Disp { msg: DispMsg::SetOwner(_), .. } => Some(DISP),
            Op::Reg { msg: RegMsg::SetOwner(_), .. } => Some(REG),
            _ => None,
        };
        if let Some(c) = c {
            let (o, n) = owner_nominee(self.w(), c);
            if o != n {
                replaced = Some((c, n));
            }
        }
        let res = self.em.emit(&op);
        if res.ok {
            if let Some((c, n)) = replaced {
                if !self.former[c].contains(&n) {
                    self.former[c].push(n);
                }
            }
        }
        res.ok
    }

    fn setup(&mut self) {
        let ut = match self.r.below(100) {
            0..=59 => 100,
            60..=72 => 50,
            73..=85 => 7,
            _ => 1000,
        };
        self.ut = ut;
        self.emit(Op::Reset { ut });
        let n_users = 8;
        for i in 0..n_users {
            if i < 4 || self.r.pct(50) {
                let amt = self.log_uniform(1_000, 10_000_000_000_000);
                self.emit(Op::Gift { addr: s(USERS[i]), denom: s("usei"), amt });
            }
            if self.r.pct(30) {
                let denom = s(self.r.pick(&["uusd", "uAtom"]));
                let amt = self.log_uniform(1, 1_000_000_000);
                self.emit(Op::Gift { addr: s(USERS[i]), denom, amt });
            }
        }
        if self.profile == "pricing" {
            // one very rich user
            let rich = s(USERS[self.r.below(4) as usize]);
            self.emit(Op::Gift { addr: rich, denom: s("usei"), amt: 10_000_000_000_000_000 });
        }
        let epoch = match self.r.below(100) {
            0..=49 => 30,
            50..=66 => 10,
            67..=82 => 0,
            _ => 100,
        };
        let pegfee = match self.r.below(100) {
            0..=39 => 5_000_000_000_000_000u128,
            40..=54 => 0,
            55..=69 => 50_000_000_000_000_000,
            70..=84 => 500_000_000_000_000_000,
            _ => E18,
        };
        let threshold = match self.r.below(100) {
            0..=59 => E18,
            60..=73 => 990_000_000_000_000_000,
            74..=86 => 500_000_000_000_000_000,
            _ => 0,
        };
        self.emit(Op::InstHub {
            sender: s("owner"),
            epoch,
            unbonding: ut,
            pegfee,
            threshold,
            updater: s("updater"),
            underlying: s("usei"),
            reward_denom: s("uusd"),
        });
        self.emit(Op::InstReward {
            sender: s("owner"),
            hub: s("hub"),
            reward_denom: s("uusd"),
            swap: s("swap"),
            denoms: vec![s("uAtom"), s("usei")],
        });
        let rate = match self.r.below(100) {
            0..=14 => 0u128,
            15..=59 => 50_000_000_000_000_000,
            60..=89 => 300_000_000_000_000_000,
            _ => E18,
        };
        self.emit(Op::InstDisp {
            sender: s("owner"),
            hub: s("hub"),
            reward: s("reward"),
            stdenom: s("usei"),
            bdenom: s("uusd"),
            keeper: s("keeper"),
            rate,
            swap: s("swap"),
            oracle: s("oracle"),
            denoms: vec![s("uAtom"), s("usei"), s("uusd")],
        });
        // about 15 % of the `registry` and `general` histories register nine to twelve validators
        // (plans longer than the "ten most-delegated" / "seven redelegations" cuts a change may add)
        let many = (self.profile == "registry" || self.profile == "general") && self.r.pct(15);
        let nvals = if many {
            self.r.range(9, VALS.len() as u64) as usize
        } else if self.profile == "registry" {
            self.r.range(1, 8) as usize
        } else {
            match self.r.below(100) {
                0..=9 => 1,
                10..=29 => 2,
                30..=69 => 3,
                70..=89 => 4,
                _ => 5,
            }
        };
        let vals = self.val_subset(nvals);
        self.emit(Op::InstReg { sender: s("owner"), hub: s("hub"), vals });
        self.emit(Op::InstBsei { sender: s("owner"), hub: s("hub"), balances: vec![] });
        self.emit(Op::InstStsei { sender: s("owner"), hub: s("hub"), mk: 2, balances: vec![] });
        self.emit(Op::Hub {
            sender: s("owner"),
            msg: HubMsg::Config {
                disp: Some(s("disp")),
                reg: Some(s("reg")),
                bsei: Some(s("bsei")),
                stsei: Some(s("stsei")),
                airdrop: Some(s("airdrop")),
                rewards: Some(s("reward")),
                updater: None,
            },
        });
        // initial phase: pools exist
        if !matches!(self.profile, "config" | "token") {
            let skip_b = self.profile == "rewards" && self.r.pct(30);
            for kind in [BondKind::B, BondKind::St] {
                if kind == BondKind::B && skip_b {
                    continue;
                }
                let n = self.r.range(1, 3);
                for _ in 0..n {
                    let u = s(USERS[self.r.below(4) as usize]);
                    let bal = self.w().balance(&u, "usei");
                    let amt = if bal >= 1000 { self.log_uniform(1000, bal) } else { bal.max(1) };
                    self.emit(Op::Bond { kind, sender: u, coins: vec![(s("usei"), amt)] });
                }
            }
        }
    }

    /// standard (valid) instantiation of contract `c`, as in the setup
    fn std_inst(&mut self, c: usize) -> Vec<Op> {
        let o = s("owner");
        match c {
            HUB => vec![
                Op::InstHub {
                    sender: o.clone(),
                    epoch: 30,
                    unbonding: self.ut,
                    pegfee: 5_000_000_000_000_000,
                    threshold: E18,
                    updater: s("updater"),
                    underlying: s("usei"),
                    reward_denom: s("uusd"),
                },
                self.wiring_op(),
            ],
            REWARD => vec![Op::InstReward {
                sender: o,
                hub: s("hub"),
                reward_denom: s("uusd"),
                swap: s("swap"),
                denoms: vec![s("uAtom"), s("usei")],
            }],
            DISP => vec![Op::InstDisp {
                sender: o,
                hub: s("hub"),
                reward: s("reward"),
                stdenom: s("usei"),
                bdenom: s("uusd"),
                keeper: s("keeper"),
                rate: 50_000_000_000_000_000,
                swap: s("swap"),
                oracle: s("oracle"),
                denoms: vec![s("uAtom"), s("usei"), s("uusd")],
            }],
            REG => vec![Op::InstReg {
                sender: o,
                hub: s("hub"),
                vals: vec![s("val0"), s("val1"), s("val2")],
            }],
            BSEI => vec![Op::InstBsei { sender: o, hub: s("hub"), balances: vec![] }],
            _ => vec![Op::InstStsei { sender: o, hub: s("hub"), mk: 2, balances: vec![] }],
        }
    }

    fn wiring_op(&self) -> Op {
        Op::Hub {
            sender: s("owner"),
            msg: HubMsg::Config {
                disp: Some(s("disp")),
                reg: Some(s("reg")),
                bsei: Some(s("bsei")),
                stsei: Some(s("stsei")),
                airdrop: Some(s("airdrop")),
                rewards: Some(s("reward")),
                updater: None,
            },
        }
    }

    /// a contract left uninstantiated by a failed `inst_*` is re-created soon (else the rest of
    /// the history is dead); returns the number of operations emitted
    fn repair(&mut self) -> u64 {
        let missing: Vec<usize> = (0..N_CONTRACTS).filter(|c| !self.w().inst[*c]).collect();
        if missing.is_empty() || !self.r.pct(50) {
            return 0;
        }
        let c = missing[self.r.below(missing.len() as u64) as usize];
        let ops = self.std_inst(c);
        let n = ops.len() as u64;
        for op in ops {
            self.emit(op);
        }
        n
    }

    fn probe(&mut self) {
        let t = self.tok();
        let mut hs = holders(self.w(), t, &ACCOUNTS);
        if hs.is_empty() {
            let t2 = if t == Tok::Bsei { Tok::Stsei } else { Tok::Bsei };
            hs = holders(self.w(), t2, &ACCOUNTS);
            if hs.is_empty() {
                return;
            }
            let (u, b) = hs[self.r.below(hs.len() as u64) as usize].clone();
            let amt = self.amount(b);
            self.emit(Op::Cw {
                tok: t2,
                sender: u,
                msg: CwMsg::Send { contract: s("hub"), amt, hook: Hook::Unbond },
            });
            return;
        }
        let (u, b) = hs[self.r.below(hs.len() as u64) as usize].clone();
        let amt = self.amount(b);
        self.emit(Op::Cw {
            tok: t,
            sender: u,
            msg: CwMsg::Send { contract: s("hub"), amt, hook: Hook::Unbond },
        });
    }

    fn run(&mut self, len: u64) {
        self.setup();
        let mut probes: Vec<u64> = vec![];
        if self.profile == "exit" && len > 0 {
            for _ in 0..10 {
                probes.push(self.r.below(len));
            }
        }
        for i in 0..len {
            for _ in probes.iter().filter(|p| **p == i).collect::<Vec<_>>() {
                self.probe();
            }
            if self.repair() > 0 {
                continue;
            }
            let op = if self.r.pct(15) {
                self.blind()
            } else {
                let f = self.pick_family();
                self.sample(f)
            };
            let is_inst_hub = matches!(op, Op::InstHub { .. });
            let ok = self.emit(op);
            if is_inst_hub && ok && self.r.pct(85) {
                // a re-instantiated hub has lost its wiring
                let w = self.wiring_op();
                self.emit(w);
            }
        }
    }
}

// ---------------------------------------------------------------------------------------------
// Profile `synth`: histories that start from a SYNTHESISED deep state (DESIGN.md section 11.6)
// ---------------------------------------------------------------------------------------------

fn mul_ratio(a: u128, num: u128, den: u128) -> u128 {
    Uint128::new(a).multiply_ratio(num, den).u128()
}
/// floor(amount * rate / 1e18) -- `Uint128 * Decimal`
fn mul_rate(amount: u128, rate: u128) -> u128 {
    mul_ratio(amount, rate, E18)
}
/// `State::update_*_exchange_rate`: 1 if either is 0, else floor(bonded * 1e18 / claims)
fn rate_of(bonded: u128, claims: u128) -> u128 {
    if bonded == 0 || claims == 0 {
        E18
    } else {
        mul_ratio(bonded, E18, claims)
    }
}
fn decade(x: u128) -> String {
    if x == 0 {
        return s("0");
    }
    format!("1e{:02}", x.to_string().len() - 1)
}

/// What the synthesiser decided (for the statistics)
#[derive(Default)]
struct SynthInfo {
    magnitude: u128,
    batches: u64,
    released: u64,
    matured: u64,
    immature: u64,
}

impl<'a, A: Write, B: Write> Gen<'a, A, B> {
    fn cnt(&mut self, key: &str) {
        self.em.stats.count(key);
    }

    /// log-uniform in 1..=max with spikes at small values; 0 if max == 0
    fn spiky(&mut self, max: u128) -> u128 {
        if max == 0 {
            return 0;
        }
        if self.r.pct(14) {
            let v = self.r.pick(&[1u128, 1, 2, 3, 999, 1_000_000]);
            if v <= max {
                return v;
            }
        }
        if self.r.pct(6) {
            return max;
        }
        self.log_uniform(1, max)
    }

    /// random partition of `total` into `n` parts (zeros allowed), sum exactly `total`
    fn split(&mut self, total: u128, n: usize) -> Vec<u128> {
        if n == 0 {
            return vec![];
        }
        if n == 1 {
            return vec![total];
        }
        let mut parts = vec![0u128; n];
        if self.r.pct(35) {
            // dust parts next to one large part
            let mut left = total;
            for p in parts.iter_mut().take(n - 1) {
                let x = self.r.pick(&[0u128, 1, 1, 2, 3, 999]).min(left);
                *p = x;
                left -= x;
            }
            parts[n - 1] = left;
            // random position of the large part
            let j = self.r.below(n as u64) as usize;
            parts.swap(j, n - 1);
            return parts;
        }
        let mut cuts: Vec<u128> = (0..n - 1).map(|_| self.uniform(0, total)).collect();
        cuts.sort();
        let mut prev = 0u128;
        for (i, c) in cuts.iter().enumerate() {
            parts[i] = c - prev;
            prev = *c;
        }
        parts[n - 1] = total - prev;
        parts
    }

    fn distinct_users(&mut self, pool: &[String], k: usize) -> Vec<String> {
        let mut p: Vec<String> = pool.to_vec();
        let mut out = vec![];
        for _ in 0..k.min(pool.len()) {
            let i = self.r.below(p.len() as u64) as usize;
            out.push(p.remove(i));
        }
        out
    }

    /// `reset`, liquid funds, the standard fully wired instantiate prelude, then the synthesised
    /// state written with `poke_*` operations.
    fn synth_setup(&mut self) -> SynthInfo {
        let ut: u64 = match self.r.below(100) {
            0..=49 => 100,
            50..=64 => 50,
            65..=79 => 7,
            _ => 1000,
        };
        self.ut = ut;
        self.emit(Op::Reset { ut });
        let now = self.w().now;

        // ---- magnitude of this world -------------------------------------------------------
        let m: u128 = if self.r.pct(8) {
            self.r.pick(&[1u128, 2, 3, 999, 1_000_000])
        } else {
            self.log_uniform(1, E18)
        };
        self.cnt(&format!("state:magnitude:{}", decade(m)));

        // ---- liquid funds ------------------------------------------------------------------
        let n_users = self.r.range(1, 8) as usize;
        let users: Vec<String> = {
            let all: Vec<String> = USERS.iter().map(|u| s(u)).collect();
            self.distinct_users(&all, n_users)
        };
        self.cnt(&format!("state:users:{}", n_users));
        for u in users.clone() {
            if self.r.pct(85) {
                let amt = self.log_uniform(1_000, m.max(1_000));
                self.emit(Op::Gift { addr: u, denom: s("usei"), amt });
            }
        }

        // ---- parameters and the wired prelude ----------------------------------------------
        let epoch: u64 = match self.r.below(100) {
            0..=49 => 30,
            50..=66 => 10,
            67..=82 => 0,
            _ => 100,
        };
        // {0, 0.1 %, 0.5 %, 5 %, 100 %}
        let pegfee: u128 = match self.r.below(100) {
            0..=14 => 0,
            15..=34 => 1_000_000_000_000_000,
            35..=64 => 5_000_000_000_000_000,
            65..=84 => 50_000_000_000_000_000,
            _ => E18,
        };
        // {1, 0.99, 0.5}
        let threshold: u128 = match self.r.below(100) {
            0..=59 => E18,
            60..=79 => 990_000_000_000_000_000,
            _ => 500_000_000_000_000_000,
        };
        self.cnt(&format!("state:pegfee:{}", pegfee));
        self.cnt(&format!("state:threshold:{}", threshold));
        self.emit(Op::InstHub {
            sender: s("owner"),
            epoch,
            unbonding: ut,
            pegfee,
            threshold,
            updater: s("updater"),
            underlying: s("usei"),
            reward_denom: s("uusd"),
        });
        self.emit(Op::InstReward {
            sender: s("owner"),
            hub: s("hub"),
            reward_denom: s("uusd"),
            swap: s("swap"),
            denoms: vec![s("uAtom"), s("usei")],
        });
        let keeper_rate = match self.r.below(100) {
            0..=9 => 0u128,
            10..=59 => 50_000_000_000_000_000,
            60..=89 => 300_000_000_000_000_000,
            _ => E18,
        };
        self.emit(Op::InstDisp {
            sender: s("owner"),
            hub: s("hub"),
            reward: s("reward"),
            stdenom: s("usei"),
            bdenom: s("uusd"),
            keeper: s("keeper"),
            rate: keeper_rate,
            swap: s("swap"),
            oracle: s("oracle"),
            denoms: vec![s("uAtom"), s("usei"), s("uusd")],
        });
        let nvals = match self.r.below(100) {
            0..=12 => 1,
            13..=30 => 2,
            31..=58 => 3,
            59..=76 => 4,
            77..=89 => 5,
            _ => self.r.range(9, VALS.len() as u64) as usize,
        };
        let reg: Vec<String> = self.val_subset(nvals);
        self.emit(Op::InstReg { sender: s("owner"), hub: s("hub"), vals: reg.clone() });
        self.emit(Op::InstBsei { sender: s("owner"), hub: s("hub"), balances: vec![] });
        self.emit(Op::InstStsei { sender: s("owner"), hub: s("hub"), mk: 2, balances: vec![] });
        let w = self.wiring_op();
        self.emit(w);

        // ---- token ledgers -----------------------------------------------------------------
        let supply_b = if self.r.pct(12) { 0 } else { self.spiky((m / 4).max(1)) };
        let supply_st = if self.r.pct(12) { 0 } else { self.spiky((m / 8).max(1)) };
        let mut bsei_bal: Vec<(String, u128)> = vec![];
        for (tok, supply) in [(Tok::Bsei, supply_b), (Tok::Stsei, supply_st)] {
            if supply == 0 {
                continue;
            }
            let k = self.r.range(1, users.len().min(5) as u64) as usize;
            let mut hs = self.distinct_users(&users, k);
            if self.r.pct(8) {
                // a plain account outside the user list holds tokens as well
                hs.push(s(self.r.pick(&["owner", "keeper", "nobody"])));
            }
            let parts = self.split(supply, hs.len());
            for (a, x) in hs.into_iter().zip(parts) {
                if x == 0 {
                    continue;
                }
                self.emit(Op::PokeTokBal { tok, addr: a.clone(), amt: x });
                if tok == Tok::Bsei {
                    bsei_bal.push((a, x));
                }
            }
        }
        self.cnt(&format!("state:bsei_holders:{}", bsei_bal.len()));

        // ---- reward contract: mirror of the bSei ledger, indexes, solvency -------------------
        let gi_max = (E18 * E18 / supply_b.max(1)).min(1_000_000 * E18);
        let gi = if self.r.pct(10) { 0 } else { self.log_uniform(1, gi_max.max(1)) };
        let mut accrued: u128 = 0; // sum of (gi - idx) * bal + pending, 18-decimal atomics
        let mut holders_rows: Vec<(String, u128, u128, u128)> = vec![];
        for (a, bal) in bsei_bal.iter() {
            let idx = match self.r.below(100) {
                0..=39 => gi,
                40..=54 => 0,
                _ => self.uniform(0, gi),
            };
            let pend = match self.r.below(100) {
                0..=49 => 0,
                50..=64 => self.uniform(0, E18 - 1),
                _ => self.log_uniform(1, 1_000_000 * E18),
            };
            accrued += (gi - idx) * bal + pend;
            holders_rows.push((a.clone(), *bal, idx, pend));
        }
        // former holders: no balance, an old index, rewards still pending
        let n_former = self.r.pick(&[0usize, 0, 1, 2]);
        for _ in 0..n_former {
            let a = s(USERS[self.r.below(8) as usize]);
            if holders_rows.iter().any(|(x, _, _, _)| *x == a) {
                continue;
            }
            let idx = self.uniform(0, gi);
            let pend = if self.r.pct(30) { 0 } else { self.log_uniform(1, 1_000 * E18) };
            accrued += pend;
            holders_rows.push((a, 0, idx, pend));
        }
        for (a, bal, idx, pend) in holders_rows {
            self.emit(Op::PokeHolder { addr: a, bal, index: idx, pending: pend });
        }
        let owed = accrued / E18 + if accrued % E18 == 0 { 0 } else { 1 };
        let prev_reward = owed + if self.r.pct(50) { 0 } else { self.spiky(1_000_000) };
        self.emit(Op::PokeRwState { gi, total: supply_b, prev: prev_reward });
        let fresh = if self.r.pct(60) { 0 } else { self.spiky(1_000_000_000) };
        if prev_reward + fresh > 0 {
            self.emit(Op::Gift { addr: s("reward"), denom: s("uusd"), amt: prev_reward + fresh });
        }

        // ---- batches: times -------------------------------------------------------------------
        // current batch id c; history entries 1..c-1, strictly increasing times spaced by more
        // than the epoch period, generated backwards from `now`
        let c: u64 = match self.r.below(100) {
            0..=7 => 1,
            8..=29 => self.r.range(2, 4),
            30..=64 => self.r.range(5, 12),
            65..=89 => self.r.range(13, 25),
            90..=95 => self.r.range(26, 40),
            // a long backlog (more than 100 batches: beyond every page size / default limit of the
            // hub's queries and with two- and three-digit batch ids), when the clock leaves room for it
            _ => {
                if 131u128 * (epoch as u128 + 3 * ut as u128 + 12) < now as u128 {
                    self.r.range(101, 130)
                } else {
                    self.r.range(26, 40)
                }
            }
        };
        let nh = (c - 1) as usize;
        let mut times: Vec<u64> = vec![0; nh + 1]; // index = batch id
        if nh > 0 {
            // distance of the last closed batch from now
            let d0 = match self.r.below(100) {
                0..=24 => 0,
                25..=44 => self.r.range(0, epoch),
                45..=59 => epoch + 1,
                60..=79 => self.r.range(epoch + 1, epoch + ut + 2),
                _ => self.r.range(0, 3 * (epoch + ut) + 3),
            };
            times[nh] = now - d0;
            for i in (1..nh).rev() {
                let extra = match self.r.below(100) {
                    0..=34 => 0,
                    35..=59 => self.r.range(0, 5),
                    60..=89 => self.r.range(0, epoch + ut / 2 + 1),
                    _ => self.r.range(0, 3 * ut + 10),
                };
                times[i] = times[i + 1] - (epoch + 1 + extra);
            }
            if self.r.pct(40) {
                // put one batch exactly on / next to the maturity boundary (time + UT = now -1|0|+1),
                // moving everything while the last entry stays in the past
                let k = self.r.range(1, nh as u64) as usize;
                let target = (now as i128) - (ut as i128) + self.r.pick(&[-1i128, 0, 0, 1]);
                let shift = target - times[k] as i128;
                if (times[nh] as i128) + shift <= now as i128 && (times[1] as i128) + shift > 0 {
                    for t in times.iter_mut().skip(1) {
                        *t = ((*t as i128) + shift) as u64;
                    }
                }
            }
        }
        // matured batches (time + UT <= now) form a prefix 1..mat; released ones a prefix 1..lpb of it
        let mat = (1..=nh).filter(|i| times[*i] as u128 + ut as u128 <= now as u128).count();
        let lpb = if mat == 0 {
            0
        } else {
            match self.r.below(100) {
                0..=39 => mat,
                40..=54 => 0,
                55..=74 => mat.saturating_sub(self.r.range(1, 3) as usize),
                _ => self.r.range(0, mat as u64) as usize,
            }
        };
        let info = SynthInfo {
            magnitude: m,
            batches: c,
            released: lpb as u64,
            matured: (mat - lpb) as u64,
            immature: (nh - mat) as u64,
        };

        // ---- batches: amounts and rates ---------------------------------------------------------
        let per_batch = (m / (4 * (nh.max(1) as u128))).max(1);
        struct Entry {
            bamt: u128,
            bapp: u128,
            bwd: u128,
            samt: u128,
            sapp: u128,
            swd: u128,
        }
        let mut entries: Vec<Entry> = vec![];
        for i in 1..=nh {
            let (mut bamt, mut samt) = (self.spiky(per_batch), self.spiky(per_batch));
            match self.r.below(100) {
                0..=19 => bamt = 0,
                20..=39 => samt = 0,
                _ => {}
            }
            let bapp = if self.r.pct(45) { E18 } else { self.uniform(E18 / 2, E18) };
            let sapp = if self.r.pct(25) { E18 } else { self.uniform(E18 / 5 * 4, 3 * E18) };
            let (mut bwd, mut swd) = (bapp, sapp);
            if i <= lpb && self.r.pct(30) {
                // released after a slashing of the unbonding stake: both rates lower
                let (num, den) = self.r.pick(&[(9u128, 10u128), (99, 100), (1, 2), (999_999, 1_000_000), (4, 7)]);
                bwd = mul_ratio(bapp, num, den);
                swd = mul_ratio(sapp, num, den);
                if self.r.pct(30) {
                    bwd = bwd.saturating_sub(self.r.range(0, 3) as u128);
                    swd = swd.saturating_sub(self.r.range(0, 3) as u128);
                }
            } else if i <= lpb && self.r.pct(30) {
                // the usual release dust: the recorded rate is a floor of (amount*rate - 1)/amount
                if bamt > 0 {
                    bwd = mul_ratio(mul_rate(bamt, bapp).saturating_sub(1), E18, bamt).min(bapp);
                }
                if samt > 0 {
                    swd = mul_ratio(mul_rate(samt, sapp).saturating_sub(1), E18, samt).min(sapp);
                }
            }
            entries.push(Entry { bamt, bapp, bwd, samt, sapp, swd });
        }
        for (k, e) in entries.iter().enumerate() {
            let id = (k + 1) as u64;
            self.emit(Op::PokeHist {
                id,
                time: times[k + 1],
                bamt: e.bamt,
                bapplied: e.bapp,
                bwithdraw: e.bwd,
                samt: e.samt,
                sapplied: e.sapp,
                swithdraw: e.swd,
                released: k < lpb,
            });
        }

        // ---- open batch --------------------------------------------------------------------------
        let (reqb, reqst) = match self.r.below(100) {
            0..=39 => (0, 0),
            40..=54 => (self.spiky((m / 16).max(1)), 0),
            55..=69 => (0, self.spiky((m / 16).max(1))),
            _ => (self.spiky((m / 16).max(1)), self.spiky((m / 16).max(1))),
        };
        self.emit(Op::PokeBatch { id: c, reqb, reqst });

        // ---- wait list ----------------------------------------------------------------------------
        // per user a cut-off: a withdrawal removes every released entry of the user, so a user's
        // remaining entries in released batches are those of the batches after his last withdrawal
        let cutoff: Vec<usize> = users
            .iter()
            .map(|_| match self.r.below(100) {
                0..=39 => 0,
                40..=64 => lpb,
                _ => self.r.range(0, lpb as u64) as usize,
            })
            .collect();
        let mut released_due: u128 = 0; // payouts still owed for released batches
        let mut wait_rows: Vec<(String, u64, u128, u128)> = vec![];
        for (k, e) in entries.iter().enumerate() {
            let id = k + 1;
            let n = self.r.range(1, users.len().min(3) as u64) as usize;
            let who = self.distinct_users(&users, n);
            let bs = self.split(e.bamt, who.len());
            let ss = self.split(e.samt, who.len());
            for (j, u) in who.iter().enumerate() {
                if bs[j] == 0 && ss[j] == 0 {
                    continue;
                }
                let ui = users.iter().position(|x| x == u).unwrap();
                if id <= lpb {
                    if cutoff[ui] >= id {
                        continue; // already paid
                    }
                    released_due += mul_rate(ss[j], e.swd) + mul_rate(bs[j], e.bwd);
                }
                wait_rows.push((u.clone(), id as u64, bs[j], ss[j]));
            }
        }
        if reqb > 0 || reqst > 0 {
            let n = self.r.range(1, users.len().min(3) as u64) as usize;
            let who = self.distinct_users(&users, n);
            let bs = self.split(reqb, who.len());
            let ss = self.split(reqst, who.len());
            for (j, u) in who.iter().enumerate() {
                if bs[j] > 0 || ss[j] > 0 {
                    wait_rows.push((u.clone(), c, bs[j], ss[j]));
                }
            }
        }
        let mut claimants: Vec<&String> = wait_rows.iter().map(|r| &r.0).collect();
        claimants.sort();
        claimants.dedup();
        self.cnt(&format!("state:claimants:{}", claimants.len()));
        for (u, id, b, st) in wait_rows {
            self.emit(Op::PokeWait { addr: u, batch: id, b, st });
        }

        // ---- pools, rates ---------------------------------------------------------------------------
        let claims_b = supply_b + reqb;
        let claims_st = supply_st + reqst;
        let bb = if claims_b == 0 {
            self.r.pick(&[0u128, 0, 0, 1, 3])
        } else if self.r.pct(45) {
            claims_b
        } else {
            let r = self.uniform(E18 / 2, E18);
            mul_rate(claims_b, r).max((claims_b + 1) / 2).max(1)
        };
        let bst = if claims_st == 0 {
            self.r.pick(&[0u128, 0, 0, 1, 3])
        } else if self.r.pct(25) {
            claims_st
        } else {
            let r = self.uniform(E18 / 5 * 4, 3 * E18);
            mul_rate(claims_st, r).max(1)
        };
        let (mut ber, mut ser) = (rate_of(bb, claims_b), rate_of(bst, claims_st));
        if self.r.pct(25) {
            // stale by a little (the stored rates are refreshed only by some handlers)
            let d = self.r.pick(&[1u128, 2, 1_000, 1_000_000_000_000]);
            ber = if self.r.pct(50) { ber.saturating_sub(d).max(E18 / 2) } else { (ber + d).min(E18) };
            let d = self.r.pick(&[1u128, 2, 1_000, 1_000_000_000_000]);
            ser = if self.r.pct(50) { ser.saturating_sub(d).max(E18 / 5 * 4) } else { (ser + d).min(3 * E18) };
            self.cnt("state:stored_rates:stale");
        } else {
            self.cnt("state:stored_rates:exact");
        }
        self.cnt(if ber == E18 { "state:bsei_rate:1" } else { "state:bsei_rate:<1" });
        self.cnt(if ser == E18 {
            "state:stsei_rate:1"
        } else if ser < E18 {
            "state:stsei_rate:<1"
        } else {
            "state:stsei_rate:>1"
        });

        // ---- delegations ------------------------------------------------------------------------------
        let books = bb + bst;
        let loss = if books >= 2 && self.r.pct(20) { self.spiky((books / 8).max(1)) } else { 0 };
        self.cnt(if loss > 0 { "state:unrecognised_slash:yes" } else { "state:unrecognised_slash:no" });
        let delegated = books - loss;
        let mut dvals: Vec<String> = reg.clone();
        let extra_val = self.r.pct(10);
        if extra_val {
            let others: Vec<String> =
                VALS.iter().map(|v| s(v)).filter(|v| !reg.contains(v)).collect();
            if let Some(v) = self.pick_str(&others) {
                dvals.push(v);
            }
        }
        self.cnt(if dvals.len() > reg.len() { "state:unregistered_delegation:yes" } else { "state:unregistered_delegation:no" });
        let parts = self.split(delegated, dvals.len());
        let mut have_del: Vec<String> = vec![];
        for (v, x) in dvals.iter().zip(parts) {
            if x == 0 && (delegated > 0 || self.r.pct(50)) && self.r.pct(60) {
                continue; // no entry at all
            }
            self.emit(Op::PokeDel { addr: s("hub"), val: v.clone(), amt: x });
            have_del.push(v.clone());
        }

        // ---- funding of the closed batches ----------------------------------------------------------------
        let phb = released_due + if self.r.pct(50) { 0 } else { self.spiky(1_000) };
        let mut hub_bank = phb;
        let all_vals: Vec<String> = VALS.iter().map(|v| s(v)).collect();
        let mut queue_slashed = false;
        for (k, e) in entries.iter().enumerate() {
            let id = k + 1;
            if id <= lpb {
                continue;
            }
            let mut arrive = mul_rate(e.bamt, e.bapp) + mul_rate(e.samt, e.sapp);
            if self.r.pct(15) {
                let (num, den) = self.r.pick(&[(9u128, 10u128), (99, 100), (1, 2), (999_999, 1_000_000)]);
                arrive = mul_ratio(arrive, num, den);
                queue_slashed = true;
            }
            if id <= mat {
                hub_bank += arrive; // delivered, not yet recognised by a withdrawal
            } else if arrive > 0 {
                let n = self.r.pick(&[1usize, 1, 1, 2, 3]);
                let vs = self.distinct_users(&all_vals, n);
                let parts = self.split(arrive, vs.len());
                for (v, x) in vs.into_iter().zip(parts) {
                    if x > 0 {
                        self.emit(Op::PokeUnb {
                            addr: s("hub"),
                            val: v,
                            amt: x,
                            completion: times[id] + ut,
                        });
                    }
                }
            }
        }
        self.cnt(if queue_slashed { "state:unbonding_slashed:yes" } else { "state:unbonding_slashed:no" });
        if self.r.pct(8) {
            hub_bank += self.spiky(1_000_000); // unsolicited transfer to the hub
            self.cnt("state:rogue_transfer:yes");
        } else {
            self.cnt("state:rogue_transfer:no");
        }
        if hub_bank > 0 {
            self.emit(Op::Gift { addr: s("hub"), denom: s("usei"), amt: hub_bank });
        }

        // ---- stored hub state ---------------------------------------------------------------------------------
        let lut = if nh > 0 { times[nh] } else { now };
        let lim = now - self.r.pick(&[0u64, 0, 1, 30, 1000]);
        self.emit(Op::PokeHubState { ber, ser, bb, bst, lim, phb, lut, lpb: lpb as u64 });

        // ---- staking rewards waiting on the delegations ---------------------------------------------------
        if !have_del.is_empty() {
            let n = self.r.pick(&[0usize, 0, 1, 2]);
            for _ in 0..n {
                let v = self.pick_str(&have_del).unwrap();
                let denom = s(self.r.pick(&["uusd", "usei", "uusd", "uAtom"]));
                let amt = self.spiky(1_000_000_000);
                self.emit(Op::PokePend { addr: s("hub"), val: v, denom, amt });
            }
        }
        info
    }

    /// Re-derive the invariants of DESIGN.md 11.6 from the synthesised world itself, through the
    /// real queries / storage items (a synthesiser bug must not go unnoticed: panics on violation).
    fn synth_selfcheck(&mut self) {
        let w = self.w();
        let q_hold = |a: &str| -> basset::reward::HolderResponse {
            query_contract(w, REWARD, &basset::reward::QueryMsg::Holder { address: s(a) }).expect("holder query")
        };
        // token ledgers: sum of balances = total supply
        let mut supply = [0u128; 2];
        for (i, t) in [Tok::Bsei, Tok::Stsei].into_iter().enumerate() {
            let sum: u128 = ADDRS.iter().map(|a| tok_bal(w, t, a)).sum();
            let info: cw20::TokenInfoResponse =
                query_contract(w, tok_idx(t), &cw20::Cw20QueryMsg::TokenInfo {}).expect("token info");
            assert_eq!(sum, info.total_supply.u128(), "synth: {} ledger", t.name());
            supply[i] = sum;
        }
        // reward mirror, indexes, solvency
        let rs = basset_sei_reward::state::read_state(&StoreRef::new(w, REWARD)).expect("reward state");
        assert_eq!(rs.total_balance.u128(), supply[0], "synth: reward total = bSei supply");
        let mut accrued = cosmwasm_std::Uint256::zero();
        for a in ADDRS.iter() {
            let h = q_hold(a);
            assert_eq!(h.balance.u128(), tok_bal(w, Tok::Bsei, a), "synth: mirror of {}", a);
            assert!(h.index <= rs.global_index, "synth: holder index <= global index");
            let d = rs.global_index.atomics().u128() - h.index.atomics().u128();
            accrued += cosmwasm_std::Uint256::from(d) * cosmwasm_std::Uint256::from(h.balance.u128())
                + cosmwasm_std::Uint256::from(h.pending_rewards.atomics().u128());
        }
        assert!(
            accrued <= cosmwasm_std::Uint256::from(rs.prev_reward_balance.u128()) * cosmwasm_std::Uint256::from(E18),
            "synth: accrued rewards <= prev_reward_balance"
        );
        assert!(rs.prev_reward_balance.u128() <= w.balance("reward", "uusd"), "synth: prev <= reward bank");
        // books, pools, rates
        let st = hub_state(w).expect("hub state");
        let p = hub_params(w).expect("hub params");
        let cb = basset_sei_hub::state::CURRENT_BATCH.load(&StoreRef::new(w, HUB)).expect("batch");
        let (bb, bst) = (st.total_bond_bsei_amount.u128(), st.total_bond_stsei_amount.u128());
        let delegated = self.hub_delegated();
        assert!(delegated <= bb + bst && bb + bst - delegated <= (bb + bst) / 8 + 1, "synth: books vs delegations");
        let regd = reg_vals(w);
        let unregistered = hub_delegation_vals(w).into_iter().filter(|v| !regd.contains(v)).count();
        assert!(unregistered <= 1, "synth: at most one unregistered validator");
        let claims_b = supply[0] + cb.requested_bsei_with_fee.u128();
        let claims_st = supply[1] + cb.requested_stsei.u128();
        assert!(claims_b == 0 || bb > 0, "synth: bSei claims backed");
        assert!(claims_st == 0 || bst > 0, "synth: stSei claims backed");
        let (ber, ser) = (st.bsei_exchange_rate.atomics().u128(), st.stsei_exchange_rate.atomics().u128());
        let near = |a: u128, b: u128| a.max(b) - a.min(b) <= 1_000_000_000_000;
        assert!(near(ber, rate_of(bb, claims_b)) || ber == E18 / 2 || ber == E18, "synth: stored bSei rate");
        assert!(near(ser, rate_of(bst, claims_st)) || ser == E18 / 5 * 4 || ser == 3 * E18, "synth: stored stSei rate");
        assert!(bb + bst <= E18 && supply[0] <= E18 && supply[1] <= E18, "synth: magnitudes");
        // batches
        let hist = hub_history(w);
        let c = cb.id;
        assert!((1..=130).contains(&c) && hist.len() as u64 == c - 1, "synth: history ids 1..c-1");
        let now = w.now;
        let mut due = 0u128; // payouts still owed for released batches
        let mut expect_queue: Vec<(u128, u128)> = vec![]; // (completion, amount) of immature batches
        let mut delivered = 0u128;
        for (k, h) in hist.iter().enumerate() {
            assert_eq!(h.batch_id, k as u64 + 1);
            if k > 0 {
                assert!(h.time > hist[k - 1].time + p.epoch_period, "synth: entries spaced by more than the epoch");
            }
            assert_eq!(h.released, h.batch_id <= st.last_processed_batch, "synth: released = prefix 1..LPB");
            let (mut sb, mut sst) = (0u128, 0u128);
            for a in ADDRS.iter() {
                if let Ok(e) = basset_sei_hub::state::read_unbond_wait_list(&StoreRef::new(w, HUB), h.batch_id, s(a)) {
                    sb += e.bsei_amount.u128();
                    sst += e.stsei_amount.u128();
                    if h.released {
                        due += mul_rate(e.stsei_amount.u128(), h.stsei_withdraw_rate.atomics().u128())
                            + mul_rate(e.bsei_amount.u128(), h.bsei_withdraw_rate.atomics().u128());
                    }
                }
            }
            let expected = mul_rate(h.bsei_amount.u128(), h.bsei_applied_exchange_rate.atomics().u128())
                + mul_rate(h.stsei_amount.u128(), h.stsei_applied_exchange_rate.atomics().u128());
            if h.released {
                assert!(sb <= h.bsei_amount.u128() && sst <= h.stsei_amount.u128(), "synth: released claims <= entry");
                assert!(h.bsei_withdraw_rate <= h.bsei_applied_exchange_rate && h.stsei_withdraw_rate <= h.stsei_applied_exchange_rate);
                assert!(h.time + p.unbonding_period <= now, "synth: released batches are matured");
            } else {
                assert!(sb == h.bsei_amount.u128() && sst == h.stsei_amount.u128(), "synth: unreleased claims = entry");
                assert!(h.bsei_withdraw_rate == h.bsei_applied_exchange_rate && h.stsei_withdraw_rate == h.stsei_applied_exchange_rate);
                if h.time + p.unbonding_period <= now {
                    delivered += expected; // upper bound (may have been slashed)
                } else {
                    expect_queue.push(((h.time + p.unbonding_period) as u128, expected));
                }
            }
        }
        assert_eq!(st.last_unbonded_time, hist.last().map(|h| h.time).unwrap_or(START_TIME), "synth: last_unbonded_time");
        // open batch
        let (mut ob, mut ost) = (0u128, 0u128);
        for a in ADDRS.iter() {
            if let Ok(e) = basset_sei_hub::state::read_unbond_wait_list(&StoreRef::new(w, HUB), c, s(a)) {
                ob += e.bsei_amount.u128();
                ost += e.stsei_amount.u128();
            }
        }
        assert!(ob == cb.requested_bsei_with_fee.u128() && ost == cb.requested_stsei.u128(), "synth: open batch sums");
        // funding
        let phb = st.prev_hub_balance.u128();
        let bank = w.balance("hub", "usei");
        assert!(bank >= phb && phb >= due, "synth: hub bank >= prev_hub_balance >= released claims");
        assert!(bank - phb <= delivered + 1_000_000, "synth: undistributed arrivals bounded by the matured batches");
        assert_eq!(w.ut, p.unbonding_period, "synth: chain unbonding time = hub unbonding period");
        for (t, amt) in expect_queue {
            let got: u128 = w.unbonding.iter().filter(|u| u.delegator == "hub" && u.completion == t).map(|u| u.amount).sum();
            assert!(got <= amt && (amt == 0 || got >= amt / 2), "synth: unbonding queue funds batch maturing at {}", t);
        }
        assert!(w.unbonding.iter().all(|u| u.completion > now as u128), "synth: queue entries are immature");
        self.cnt("state:selfcheck:ok");
    }

    /// 8-14 ordinary operations after the synthesised state, with outcome / event statistics
    fn synth_run(&mut self, len: u64) {
        let info = self.synth_setup();
        self.synth_selfcheck();
        let bucket = |x: u64| -> &'static str {
            match x {
                0 => "0",
                1 => "1",
                2..=4 => "2-4",
                5..=12 => "5-12",
                13..=25 => "13-25",
                _ => "26-40",
            }
        };
        self.cnt(&format!("state:current_batch:{}", bucket(info.batches)));
        self.cnt(&format!("state:released_batches:{}", bucket(info.released)));
        self.cnt(&format!("state:matured_unreleased:{}", bucket(info.matured)));
        self.cnt(&format!("state:immature:{}", bucket(info.immature)));
        let _ = info.magnitude;
        let n = if len == 0 { 0 } else { self.r.range(8, 14).min(len.max(8)) };
        for _ in 0..n {
            let f = self.pick_family();
            let mut op = self.sample(f);
            // keep most follow-up operations meaningful: an operation that would fail (dry run on
            // a clone of the world) is re-drawn, up to twice, with probability 60 %
            for _ in 0..2 {
                if !op.is_transaction() || !self.r.pct(60) {
                    break;
                }
                let mut probe = self.w().clone();
                if apply_op(&mut probe, &op).ok {
                    break;
                }
                let f = self.pick_family();
                op = self.sample(f);
            }
            // views before
            let st0 = hub_state(self.w());
            let cb0 = self.current_batch_id();
            let dels0 = self.hub_delegated();
            let fee_branch = match (&st0, hub_params(self.w())) {
                (Some(_), Some(p)) => {
                    let rep: Option<basset::hub::StateResponse> =
                        query_contract(self.w(), HUB, &basset::hub::QueryMsg::State {}).ok();
                    rep.map(|r| r.bsei_exchange_rate < p.er_threshold && !p.peg_recovery_fee.is_zero())
                        .unwrap_or(false)
                }
                _ => false,
            };
            let kind = op_kind(&op);
            let is_unbond = matches!(&op, Op::Cw { msg: CwMsg::Send { hook: Hook::Unbond, .. }, .. })
                || matches!(&op, Op::Cw { msg: CwMsg::SendFrom { hook: Hook::Unbond, .. }, .. });
            let is_convert = matches!(&op, Op::Cw { msg: CwMsg::Send { hook: Hook::Convert, .. }, .. })
                || matches!(&op, Op::Cw { msg: CwMsg::SendFrom { hook: Hook::Convert, .. }, .. });
            let is_withdraw = matches!(&op, Op::Hub { msg: HubMsg::Withdraw, .. });
            let is_tx = op.is_transaction();
            let ok = self.emit(op);
            let label = if is_unbond {
                s("unbond")
            } else if is_convert {
                s("convert")
            } else {
                kind
            };
            self.cnt(&format!("follow:{}:{}", label, if ok { "ok" } else { "err" }));
            if is_tx {
                self.cnt(if ok { "follow_tx:ok" } else { "follow_tx:err" });
            }
            if !ok {
                continue;
            }
            let st1 = hub_state(self.w());
            if let (Some(a), Some(b)) = (&st0, &st1) {
                let rel = b.last_processed_batch.saturating_sub(a.last_processed_batch);
                if is_withdraw {
                    self.cnt("event:withdraw:ok");
                    if rel == 1 {
                        self.cnt("event:release_group_of_1:ok");
                    } else if rel >= 2 {
                        self.cnt("event:release_group_of_2+:ok");
                    }
                }
                let books0 = a.total_bond_bsei_amount.u128() + a.total_bond_stsei_amount.u128();
                let books1 = b.total_bond_bsei_amount.u128() + b.total_bond_stsei_amount.u128();
                if is_tx && dels0 < books0 && books1 < books0 && !is_unbond {
                    self.cnt("event:slash_recognised:ok");
                }
                if is_tx && dels0 < books0 && is_unbond {
                    self.cnt("event:slash_recognised_in_unbond:ok");
                }
            }
            if is_unbond {
                if self.current_batch_id() > cb0 {
                    self.cnt("event:batch_closing_unbond:ok");
                } else {
                    self.cnt("event:unbond_into_open_batch:ok");
                }
            }
            if is_convert {
                self.cnt(if fee_branch { "event:convert_with_fee:ok" } else { "event:convert_no_fee:ok" });
            }
        }
    }

    fn current_batch_id(&self) -> u64 {
        if !self.w().inst[HUB] {
            return 0;
        }
        basset_sei_hub::state::CURRENT_BATCH.load(&StoreRef::new(self.w(), HUB)).map(|b| b.id).unwrap_or(0)
    }

    fn hub_delegated(&self) -> u128 {
        self.w().delegations.iter().filter(|((d, _), _)| d == "hub").map(|(_, a)| *a).sum()
    }
}

/// Generate `nhist` histories; returns the statistics (also left in `em.stats`).
pub fn generate<A: Write, B: Write>(
    em: &mut Emitter<A, B>,
    profile: &str,
    seed: u64,
    nhist: u64,
    len: u64,
) -> Result<(), String> {
    if !PROFILES.contains(&profile) {
        return Err(format!("unknown profile `{}` (expected one of {})", profile, PROFILES.join("|")));
    }
    let weights = weights(profile);
    let wsum: u32 = weights.iter().map(|(_, w)| *w).sum();
    for h in 0..nhist {
        // independent stream per (seed, profile, history)
        let mut x: u64 = seed ^ 0x6865_6e2d_6b72_7021;
        for b in profile.bytes() {
            x = x.rotate_left(9) ^ (b as u64);
        }
        x = x.wrapping_mul(0x9E37_79B9_7F4A_7C15).wrapping_add(h.wrapping_mul(0xD1B5_4A32_D192_ED03));
        em.comment(&format!("history {} profile {} seed {} len {}", h, profile, seed, len));
        let mut g = Gen {
            em,
            r: Rng::new(x),
            profile,
            weights: weights.clone(),
            wsum,
            ut: 100,
            advanced: 0,
            former: Default::default(),
        };
        if profile == "synth" {
            g.synth_run(len);
        } else {
            g.run(len);
        }
    }
    em.finish();
    Ok(())
}
