fn main() {}
