use std::io::Write;

use krp_harness::{chain, dump, kernel, ops, run_ops_text};

fn usage() -> ! {
    eprintln!(
        "usage:\n  krp-harness run OPSFILE          (OPSFILE `-` = stdin)\n  krp-harness kernel NAME SEED COUNT   (NAME = deleg|undeleg|ddiv|nwr|swapinfo|drewards)\n  krp-harness kernel-eval NAME     (stdin: `ARGS` lines; prints `ARGS => RESULT` from the real code)\n  krp-harness roundtrip OPSFILE    (parse and re-print every operation)\n  krp-harness explain OPSFILE      (like run, but prints op lines and failure reasons; diagnostics only)\nenvironment: KRP_NO_CACHE=1 disables the (sound) memoisation of dump fragments"
    );
    std::process::exit(2);
}

fn read_input(path: &str) -> String {
    if path == "-" {
        let mut s = String::new();
        std::io::Read::read_to_string(&mut std::io::stdin(), &mut s).unwrap_or_else(|e| {
            eprintln!("cannot read stdin: {}", e);
            std::process::exit(2);
        });
        s
    } else {
        std::fs::read_to_string(path).unwrap_or_else(|e| {
            eprintln!("cannot read {}: {}", path, e);
            std::process::exit(2);
        })
    }
}

fn main() {
    chain::install_panic_hook();
    if std::env::var("KRP_NO_CACHE").map(|v| v == "1").unwrap_or(false) {
        dump::set_cache_enabled(false);
    }
    let args: Vec<String> = std::env::args().collect();
    if args.len() < 2 {
        usage();
    }
    let stdout = std::io::stdout();
    let mut w = std::io::BufWriter::new(stdout.lock());
    match args[1].as_str() {
        "run" => {
            if args.len() != 3 {
                usage();
            }
            let text = read_input(&args[2]);
            match run_ops_text(&text) {
                Ok(out) => {
                    w.write_all(out.as_bytes()).unwrap();
                }
                Err(e) => {
                    eprintln!("krp-harness: unparsable operation: {}", e);
                    std::process::exit(2);
                }
            }
        }
        "roundtrip" => {
            if args.len() != 3 {
                usage();
            }
            let text = read_input(&args[2]);
            for (ln, line) in text.lines().enumerate() {
                if ops::is_blank(line) {
                    continue;
                }
                match ops::parse_op(line) {
                    Ok(op) => writeln!(w, "{}", op.to_line()).unwrap(),
                    Err(e) => {
                        eprintln!("krp-harness: line {}: {}", ln + 1, e);
                        std::process::exit(2);
                    }
                }
            }
        }
        "explain" => {
            if args.len() != 3 {
                usage();
            }
            let text = read_input(&args[2]);
            let mut world = krp_harness::World::new(0);
            let mut index = 0u64;
            for (ln, line) in text.lines().enumerate() {
                if ops::is_blank(line) {
                    continue;
                }
                let op = ops::parse_op(line).unwrap_or_else(|e| {
                    eprintln!("krp-harness: line {}: {}", ln + 1, e);
                    std::process::exit(2);
                });
                if op.is_reset() {
                    index = 0;
                }
                let res = ops::apply_op(&mut world, &op);
                writeln!(
                    w,
                    "op {} {} :: {}{}",
                    index,
                    if res.ok { "ok" } else { "err" },
                    op.to_line(),
                    match &res.error {
                        Some(e) => format!(" :: {}", e),
                        None => String::new(),
                    }
                )
                .unwrap();
                for l in &res.trace {
                    writeln!(w, "    {}", l).unwrap();
                }
                for l in &res.failed_trace {
                    writeln!(w, "    (failed tx) {}", l).unwrap();
                }
                index += 1;
            }
        }
        "kernel" => {
            if args.len() != 5 {
                usage();
            }
            let seed: u64 = args[3].parse().unwrap_or_else(|_| usage());
            let count: u64 = args[4].parse().unwrap_or_else(|_| usage());
            match kernel::stream(&args[2], seed, count, &mut w) {
                Ok(()) => {}
                Err(e) => {
                    eprintln!("krp-harness: {}", e);
                    std::process::exit(2);
                }
            }
        }
        "kernel-eval" => {
            // read `ARGS` lines (optionally `ARGS => anything`) on stdin, print `ARGS => RESULT`
            if args.len() != 3 {
                usage();
            }
            let text = read_input("-");
            for (ln, line) in text.lines().enumerate() {
                if line.trim().is_empty() || line.trim_start().starts_with('#') {
                    continue;
                }
                match kernel::eval_line(&args[2], line) {
                    Ok(l) => writeln!(w, "{}", l).unwrap(),
                    Err(e) => {
                        eprintln!("krp-harness: line {}: {}", ln + 1, e);
                        std::process::exit(2);
                    }
                }
            }
        }
        _ => usage(),
    }
    w.flush().unwrap();
}
