use std::io::Write;

use krp_harness::{chain, dump, gen, grid, kernel, ops, run_ops_text};

fn usage() -> ! {
    eprintln!(
        "usage:\n  krp-harness run OPSFILE          (OPSFILE `-` = stdin)\n  krp-harness kernel NAME SEED COUNT   (NAME = deleg|undeleg|ddiv|nwr|swapinfo|drewards)\n  krp-harness gen PROFILE SEED NHIST LEN OPSFILE OBSFILE   (PROFILE = general|pricing|unbond|rewards|registry|token|config|pause|exit|synth)\n  krp-harness grid OPSFILE OBSFILE   (authorisation grid)\n  krp-harness kernel-eval NAME     (stdin: `ARGS` lines; prints `ARGS => RESULT` from the real code)\n  krp-harness roundtrip OPSFILE    (parse and re-print every operation)\n  krp-harness explain OPSFILE      (like run, but prints op lines and failure reasons; diagnostics only)\n  krp-harness surface [--defs]     (message surface of the six contracts from the entry points' own types: `CONTRACT.KIND VARIANT FIELD:TYPE ...`, sorted; --defs: also the named definitions)\n  krp-harness surface-probe CONTRACT VARIANT [--why]   (send a schema-generated instance of that execute variant from several senders, running / hub paused; prints outcome and dump diff)\n  krp-harness canon-order          (ADDRS in ascending byte order of their canonical addresses: the iteration order of maps keyed by canonical address; table embedded in ocaml/driver.ml)\nenvironment: KRP_NO_CACHE=1 disables the (sound) memoisation of dump fragments"
    );
    std::process::exit(2);
}

fn read_input(path: &str) -> String {
    if path == "-" {
        let mut s = String::new();
        std::io::Read::read_to_string(&mut std::io::stdin(), &mut s).unwrap_or_else(|e| {
            eprintln!("cannot read stdin: {}", e);
            std::process::exit(2);
        });
        s
    } else {
        std::fs::read_to_string(path).unwrap_or_else(|e| {
            eprintln!("cannot read {}: {}", path, e);
            std::process::exit(2);
        })
    }
}

fn open_outputs(
    ops: &str,
    obs: &str,
) -> (std::io::BufWriter<std::fs::File>, std::io::BufWriter<std::fs::File>) {
    let open = |p: &str| {
        std::io::BufWriter::with_capacity(
            1 << 20,
            std::fs::File::create(p).unwrap_or_else(|e| {
                eprintln!("cannot create {}: {}", p, e);
                std::process::exit(2);
            }),
        )
    };
    (open(ops), open(obs))
}

fn main() {
    chain::install_panic_hook();
    if std::env::var("KRP_NO_CACHE").map(|v| v == "1").unwrap_or(false) {
        dump::set_cache_enabled(false);
    }
    let args: Vec<String> = std::env::args().collect();
    if args.len() < 2 {
        usage();
    }
    let stdout = std::io::stdout();
    let mut w = std::io::BufWriter::new(stdout.lock());
    match args[1].as_str() {
        "run" => {
            if args.len() != 3 {
                usage();
            }
            let text = read_input(&args[2]);
            match run_ops_text(&text) {
                Ok(out) => {
                    w.write_all(out.as_bytes()).unwrap();
                }
                Err(e) => {
                    eprintln!("krp-harness: unparsable operation: {}", e);
                    std::process::exit(2);
                }
            }
        }
        "roundtrip" => {
            if args.len() != 3 {
                usage();
            }
            let text = read_input(&args[2]);
            for (ln, line) in text.lines().enumerate() {
                if ops::is_blank(line) {
                    continue;
                }
                match ops::parse_op(line) {
                    Ok(op) => writeln!(w, "{}", op.to_line()).unwrap(),
                    Err(e) => {
                        eprintln!("krp-harness: line {}: {}", ln + 1, e);
                        std::process::exit(2);
                    }
                }
            }
        }
        "explain" => {
            if args.len() != 3 {
                usage();
            }
            let text = read_input(&args[2]);
            let mut world = krp_harness::World::new(0);
            let mut index = 0u64;
            for (ln, line) in text.lines().enumerate() {
                if ops::is_blank(line) {
                    continue;
                }
                let op = ops::parse_op(line).unwrap_or_else(|e| {
                    eprintln!("krp-harness: line {}: {}", ln + 1, e);
                    std::process::exit(2);
                });
                if op.is_reset() {
                    index = 0;
                }
                let res = ops::apply_op(&mut world, &op);
                writeln!(
                    w,
                    "op {} {} :: {}{}",
                    index,
                    if res.ok { "ok" } else { "err" },
                    op.to_line(),
                    match &res.error {
                        Some(e) => format!(" :: {}", e),
                        None => String::new(),
                    }
                )
                .unwrap();
                for l in &res.trace {
                    writeln!(w, "    {}", l).unwrap();
                }
                for l in &res.failed_trace {
                    writeln!(w, "    (failed tx) {}", l).unwrap();
                }
                index += 1;
            }
        }
        "kernel" => {
            if args.len() != 5 {
                usage();
            }
            let seed: u64 = args[3].parse().unwrap_or_else(|_| usage());
            let count: u64 = args[4].parse().unwrap_or_else(|_| usage());
            match kernel::stream(&args[2], seed, count, &mut w) {
                Ok(()) => {}
                Err(e) => {
                    eprintln!("krp-harness: {}", e);
                    std::process::exit(2);
                }
            }
        }
        "gen" => {
            // gen PROFILE SEED NHIST LEN OPSFILE OBSFILE
            if args.len() != 8 {
                usage();
            }
            let seed: u64 = args[3].parse().unwrap_or_else(|_| usage());
            let nhist: u64 = args[4].parse().unwrap_or_else(|_| usage());
            let len: u64 = args[5].parse().unwrap_or_else(|_| usage());
            let (fo, fb) = open_outputs(&args[6], &args[7]);
            let mut em = gen::Emitter::new(fo, fb);
            let t0 = std::time::Instant::now();
            if let Err(e) = gen::generate(&mut em, &args[2], seed, nhist, len) {
                eprintln!("krp-harness: {}", e);
                std::process::exit(2);
            }
            let dt = t0.elapsed().as_secs_f64();
            eprintln!(
                "gen: {} ops in {:.2} s ({:.0} ops/s)",
                em.stats.ops,
                dt,
                em.stats.ops as f64 / dt.max(1e-9)
            );
            writeln!(w, "{}", em.stats.to_json()).unwrap();
        }
        "grid" => {
            if args.len() != 4 {
                usage();
            }
            let (fo, fb) = open_outputs(&args[2], &args[3]);
            let mut em = gen::Emitter::new(fo, fb);
            let t0 = std::time::Instant::now();
            let (cells, succeeded) = grid::generate(&mut em);
            let dt = t0.elapsed().as_secs_f64();
            eprintln!(
                "grid: {} cells ({} succeeded), {} ops in {:.2} s ({:.0} ops/s)",
                cells,
                succeeded,
                em.stats.ops,
                dt,
                em.stats.ops as f64 / dt.max(1e-9)
            );
            writeln!(w, "{}", em.stats.to_json()).unwrap();
        }
        "probe" => {
            if args.len() != 3 && args.len() != 4 {
                usage();
            }
            let stride: u64 = if args.len() == 4 { args[3].parse().unwrap_or_else(|_| usage()) } else { 1 };
            let text = read_input(&args[2]);
            if let Err(e) = krp_harness::probe::run(&text, stride, &mut w) {
                eprintln!("krp-harness: {}", e);
                std::process::exit(2);
            }
        }
        "surface" => {
            // surface [--defs]
            let with_defs = match args.len() {
                2 => false,
                3 if args[2] == "--defs" => true,
                _ => usage(),
            };
            for l in krp_harness::surface::surface_lines(with_defs) {
                writeln!(w, "{}", l).unwrap();
            }
        }
        "surface-probe" => {
            // surface-probe CONTRACT VARIANT [--why]
            let why = match args.len() {
                4 => false,
                5 if args[4] == "--why" => true,
                _ => usage(),
            };
            if let Err(e) = krp_harness::surface::probe(&args[2], &args[3], why, &mut w) {
                eprintln!("krp-harness: {}", e);
                std::process::exit(2);
            }
        }
        "canon-order" => {
            // The 21 names of ADDRS sorted by the bytes of `Api::addr_canonicalize` (the key order
            // of cw20-legacy BALANCES / ALLOWANCES and of the reward HOLDERS map), one line
            // `RANK NAME HEX`, then the names on one line in OCaml array syntax.
            use cosmwasm_std::Api;
            let api = chain::api();
            let mut v: Vec<(Vec<u8>, &str)> = chain::ADDRS
                .iter()
                .map(|a| (api.addr_canonicalize(a).expect("canonicalize").as_slice().to_vec(), *a))
                .collect();
            v.sort();
            for (i, (c, a)) in v.iter().enumerate() {
                let hex: String = c.iter().map(|b| format!("{:02x}", b)).collect();
                writeln!(w, "{} {} {}", i, a, hex).unwrap();
            }
            let names: Vec<String> = v.iter().map(|(_, a)| format!("\"{}\"", a)).collect();
            writeln!(w, "[| {} |]", names.join("; ")).unwrap();
        }
        "kernel-eval" => {
            // read `ARGS` lines (optionally `ARGS => anything`) on stdin, print `ARGS => RESULT`
            if args.len() != 3 {
                usage();
            }
            let text = read_input("-");
            for (ln, line) in text.lines().enumerate() {
                if line.trim().is_empty() || line.trim_start().starts_with('#') {
                    continue;
                }
                match kernel::eval_line(&args[2], line) {
                    Ok(l) => writeln!(w, "{}", l).unwrap(),
                    Err(e) => {
                        eprintln!("krp-harness: line {}: {}", ln + 1, e);
                        std::process::exit(2);
                    }
                }
            }
        }
        _ => usage(),
    }
    w.flush().unwrap();
}
