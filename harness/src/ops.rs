#![allow(deprecated)]
//! Operations of PROTOCOL.md section 3: the `Op` type, its parser / printer, and its application
//! to a `World`.

use cosmwasm_std::{to_json_binary, Binary, Coin, Decimal, Timestamp, Uint128};
use cosmwasm_storage::Bucket;
use cw20::{Cw20Coin, Cw20ReceiveMsg, Expiration};

use crate::chain::*;

// ---------------------------------------------------------------------------------------------
// Op type
// ---------------------------------------------------------------------------------------------

#[derive(Clone, Copy, Debug, PartialEq, Eq)]
pub enum Exp {
    Absent,
    Never,
    Height(u64),
    Time(u64),
}

#[derive(Clone, Copy, Debug, PartialEq, Eq)]
pub enum Hook {
    Unbond,
    Convert,
    Junk,
}

#[derive(Clone, Copy, Debug, PartialEq, Eq)]
pub enum BondKind {
    B,
    St,
    Rw,
}

#[derive(Clone, Copy, Debug, PartialEq, Eq)]
pub enum Tok {
    Bsei,
    Stsei,
}

impl Tok {
    pub fn name(&self) -> &'static str {
        match self {
            Tok::Bsei => "bsei",
            Tok::Stsei => "stsei",
        }
    }
    pub fn index(&self) -> usize {
        match self {
            Tok::Bsei => BSEI,
            Tok::Stsei => STSEI,
        }
    }
}

type OptS = Option<String>;

#[derive(Clone, Debug, PartialEq, Eq)]
pub enum HubMsg {
    Withdraw,
    CheckSlashing,
    UpdateGlobal(u32),
    Params {
        epoch: Option<u64>,
        unbonding: Option<u64>,
        pegfee: Option<u128>,
        thr: Option<u128>,
        paused: Option<bool>,
        reward_denom: OptS,
    },
    Config { disp: OptS, reg: OptS, bsei: OptS, stsei: OptS, airdrop: OptS, rewards: OptS, updater: OptS },
    SetOwner(String),
    Accept,
    RedelProxy { src: String, dsts: Vec<(String, u128)> },
    SwapHook { token: String, swap: String },
    ClaimAirdrop { token: String, airdrop: String, swap: String },
    Migrate(Option<u32>),
    Receive { sender: String, amount: u128, hook: Hook },
}

#[derive(Clone, Debug, PartialEq, Eq)]
pub enum CwMsg {
    Transfer { to: String, amt: u128 },
    Burn { amt: u128 },
    Mint { to: String, amt: u128 },
    Send { contract: String, amt: u128, hook: Hook },
    IncAllow { spender: String, amt: u128, exp: Exp },
    DecAllow { spender: String, amt: u128, exp: Exp },
    TransferFrom { owner: String, to: String, amt: u128 },
    BurnFrom { owner: String, amt: u128 },
    SendFrom { owner: String, contract: String, amt: u128, hook: Hook },
    UpdMinter(OptS),
}

#[derive(Clone, Debug, PartialEq, Eq)]
pub enum RewardMsg {
    Claim(OptS),
    Config { hub: OptS, denom: OptS, swap: OptS },
    SetOwner(String),
    Accept,
    Swap,
    UpdateIndex,
    Inc { addr: String, amt: u128 },
    Dec { addr: String, amt: u128 },
    SwapDenom { denom: String, add: bool },
}

#[derive(Clone, Debug, PartialEq, Eq)]
pub enum DispMsg {
    Swap { bsei_bonded: u128, stsei_bonded: u128 },
    Dispatch,
    Config { hub: OptS, reward: OptS, stdenom: OptS, bdenom: OptS, keeper: OptS, rate: Option<u128> },
    SetOwner(String),
    Accept,
    SwapContract(String),
    SwapDenom { denom: String, add: bool },
    Oracle(String),
}

#[derive(Clone, Debug, PartialEq, Eq)]
pub enum RegMsg {
    Add(String),
    Remove(String),
    Config(OptS),
    Redelegations(String),
    SetOwner(String),
    Accept,
}

#[derive(Clone, Debug, PartialEq, Eq)]
pub enum Op {
    // 3.1 environment
    Reset { ut: u64 },
    Advance { dt: u64 },
    Slash { val: String, num: u128, den: u128, unb: bool },
    Accrue { val: String, denom: String, amt: u128 },
    Gift { addr: String, denom: String, amt: u128 },
    SetPrice(u128),
    SwapMode(SwapMode),
    OracleMode(OracleMode),
    CanRedel { val: String, flag: bool },
    LegacyWait { addr: String, batch: u64, amt: u128 },
    /// call the contract's `migrate` entry point (hub | reward | disp | reg | bsei)
    Migrate { contract: String },
    // 3.4 state injection (synthesised start states)
    PokeHubState { ber: u128, ser: u128, bb: u128, bst: u128, lim: u64, phb: u128, lut: u64, lpb: u64 },
    PokeBatch { id: u64, reqb: u128, reqst: u128 },
    PokeHist {
        id: u64,
        time: u64,
        bamt: u128,
        bapplied: u128,
        bwithdraw: u128,
        samt: u128,
        sapplied: u128,
        swithdraw: u128,
        released: bool,
    },
    PokeWait { addr: String, batch: u64, b: u128, st: u128 },
    PokeTokBal { tok: Tok, addr: String, amt: u128 },
    PokeHolder { addr: String, bal: u128, index: u128, pending: u128 },
    PokeRwState { gi: u128, total: u128, prev: u128 },
    PokeDel { addr: String, val: String, amt: u128 },
    PokeUnb { addr: String, val: String, amt: u128, completion: u64 },
    PokePend { addr: String, val: String, denom: String, amt: u128 },
    // 3.2 instantiate
    InstHub {
        sender: String,
        epoch: u64,
        unbonding: u64,
        pegfee: u128,
        threshold: u128,
        updater: String,
        underlying: String,
        reward_denom: String,
    },
    InstReward { sender: String, hub: String, reward_denom: String, swap: String, denoms: Vec<String> },
    InstDisp {
        sender: String,
        hub: String,
        reward: String,
        stdenom: String,
        bdenom: String,
        keeper: String,
        rate: u128,
        swap: String,
        oracle: String,
        denoms: Vec<String>,
    },
    InstReg { sender: String, hub: String, vals: Vec<String> },
    InstBsei { sender: String, hub: String, balances: Vec<(String, u128)> },
    InstStsei { sender: String, hub: String, mk: u8, balances: Vec<(String, u128)> },
    // 3.3 transactions
    Bond { kind: BondKind, sender: String, coins: Vec<(String, u128)> },
    Hub { sender: String, msg: HubMsg },
    Cw { tok: Tok, sender: String, msg: CwMsg },
    Reward { sender: String, msg: RewardMsg },
    Disp { sender: String, msg: DispMsg },
    Reg { sender: String, msg: RegMsg },
    /// `funds N DENOM AMT ... TRANSACTION`: the transaction of section 3.3 that follows, with these
    /// coins attached to its root message (in addition to the coins a `bond` carries itself)
    WithFunds { coins: Vec<(String, u128)>, inner: Box<Op> },
}

impl Op {
    pub fn is_reset(&self) -> bool {
        matches!(self, Op::Reset { .. })
    }
    /// state-injection operations of section 3.4
    pub fn is_poke(&self) -> bool {
        matches!(
            self,
            Op::PokeHubState { .. }
                | Op::PokeBatch { .. }
                | Op::PokeHist { .. }
                | Op::PokeWait { .. }
                | Op::PokeTokBal { .. }
                | Op::PokeHolder { .. }
                | Op::PokeRwState { .. }
                | Op::PokeDel { .. }
                | Op::PokeUnb { .. }
                | Op::PokePend { .. }
        )
    }
    /// transactions of section 3.3 (the only operations that print a message trace)
    pub fn is_transaction(&self) -> bool {
        matches!(
            self,
            Op::Bond { .. }
                | Op::Hub { .. }
                | Op::Cw { .. }
                | Op::Reward { .. }
                | Op::Disp { .. }
                | Op::Reg { .. }
                | Op::WithFunds { .. }
        )
    }
}

// ---------------------------------------------------------------------------------------------
// Parser
// ---------------------------------------------------------------------------------------------

struct Cur<'a> {
    toks: Vec<&'a str>,
    pos: usize,
}

impl<'a> Cur<'a> {
    fn next(&mut self) -> Result<&'a str, String> {
        let t = self.toks.get(self.pos).copied().ok_or_else(|| "missing token".to_string())?;
        self.pos += 1;
        Ok(t)
    }
    fn done(&self) -> Result<(), String> {
        if self.pos == self.toks.len() {
            Ok(())
        } else {
            Err(format!("trailing tokens starting at `{}`", self.toks[self.pos]))
        }
    }
    fn u128(&mut self) -> Result<u128, String> {
        parse_u128(self.next()?)
    }
    fn u64(&mut self) -> Result<u64, String> {
        let t = self.next()?;
        parse_digits(t)?;
        t.parse::<u64>().map_err(|_| format!("number out of range (u64): {}", t))
    }
    fn u32(&mut self) -> Result<u32, String> {
        let t = self.next()?;
        parse_digits(t)?;
        t.parse::<u32>().map_err(|_| format!("number out of range (u32): {}", t))
    }
    fn count(&mut self) -> Result<usize, String> {
        let n = self.u32()? as usize;
        if n > 10_000 {
            return Err("count too large".to_string());
        }
        Ok(n)
    }
    fn flag(&mut self) -> Result<bool, String> {
        match self.next()? {
            "0" => Ok(false),
            "1" => Ok(true),
            t => Err(format!("expected 0|1, got `{}`", t)),
        }
    }
    fn addr(&mut self) -> Result<String, String> {
        let t = self.next()?;
        if is_addr(t) {
            Ok(t.to_string())
        } else {
            Err(format!("unknown address `{}`", t))
        }
    }
    fn opt_addr(&mut self) -> Result<OptS, String> {
        let t = self.next()?;
        if t == "-" {
            Ok(None)
        } else if is_addr(t) {
            Ok(Some(t.to_string()))
        } else {
            Err(format!("unknown address `{}`", t))
        }
    }
    fn denom(&mut self) -> Result<String, String> {
        let t = self.next()?;
        if denom_index(t).is_some() {
            Ok(t.to_string())
        } else {
            Err(format!("unknown denom `{}`", t))
        }
    }
    fn opt_denom(&mut self) -> Result<OptS, String> {
        let t = self.next()?;
        if t == "-" {
            Ok(None)
        } else if denom_index(t).is_some() {
            Ok(Some(t.to_string()))
        } else {
            Err(format!("unknown denom `{}`", t))
        }
    }
    /// validator of the chain (environment operations): must be in VALS
    fn chain_val(&mut self) -> Result<String, String> {
        let t = self.next()?;
        if val_index(t).is_some() {
            Ok(t.to_string())
        } else {
            Err(format!("unknown validator `{}`", t))
        }
    }
    /// validator name inside a contract message: `val` + one character of VAL_ALPHABET (names
    /// outside VALS are allowed so that "validator not on chain" can be exercised; the model side
    /// reads the name as the index of that character)
    fn msg_val(&mut self) -> Result<String, String> {
        let t = self.next()?;
        if t.len() == 4 && t.starts_with("val") && VAL_ALPHABET.contains(&t[3..]) {
            Ok(t.to_string())
        } else {
            Err(format!("bad validator name `{}`", t))
        }
    }
    fn opt_u64(&mut self) -> Result<Option<u64>, String> {
        if self.toks.get(self.pos).copied() == Some("-") {
            self.pos += 1;
            return Ok(None);
        }
        Ok(Some(self.u64()?))
    }
    fn opt_u32(&mut self) -> Result<Option<u32>, String> {
        if self.toks.get(self.pos).copied() == Some("-") {
            self.pos += 1;
            return Ok(None);
        }
        Ok(Some(self.u32()?))
    }
    fn opt_u128(&mut self) -> Result<Option<u128>, String> {
        if self.toks.get(self.pos).copied() == Some("-") {
            self.pos += 1;
            return Ok(None);
        }
        Ok(Some(self.u128()?))
    }
    fn hook(&mut self) -> Result<Hook, String> {
        match self.next()? {
            "unbond" => Ok(Hook::Unbond),
            "convert" => Ok(Hook::Convert),
            "junk" => Ok(Hook::Junk),
            t => Err(format!("unknown hook `{}`", t)),
        }
    }
    fn exp(&mut self) -> Result<Exp, String> {
        let t = self.next()?;
        if t == "-" {
            return Ok(Exp::Absent);
        }
        if t == "never" {
            return Ok(Exp::Never);
        }
        if let Some(r) = t.strip_prefix('h') {
            parse_digits(r)?;
            return r.parse::<u64>().map(Exp::Height).map_err(|_| format!("bad expiration `{}`", t));
        }
        if let Some(r) = t.strip_prefix('t') {
            parse_digits(r)?;
            let n = r.parse::<u64>().map_err(|_| format!("bad expiration `{}`", t))?;
            if n > MAX_NOW {
                return Err(format!("expiration time out of Timestamp range `{}`", t));
            }
            return Ok(Exp::Time(n));
        }
        Err(format!("bad expiration `{}`", t))
    }
    fn addr_amounts(&mut self) -> Result<Vec<(String, u128)>, String> {
        let n = self.count()?;
        let mut v = Vec::with_capacity(n);
        for _ in 0..n {
            let a = self.addr()?;
            let x = self.u128()?;
            v.push((a, x));
        }
        Ok(v)
    }
    /// initial-balance rows of the bSei token: an address may also be written in UPPER CASE, which
    /// is a second spelling of the same account (bech32 / the mock API canonicalise case-insensitively)
    fn addr_amounts_alias(&mut self) -> Result<Vec<(String, u128)>, String> {
        let n = self.count()?;
        let mut v = Vec::with_capacity(n);
        for _ in 0..n {
            let t = self.next()?;
            let a = if is_addr(t) || (is_addr(&t.to_lowercase()) && t == t.to_uppercase()) {
                t.to_string()
            } else {
                return Err(format!("unknown address `{}`", t));
            };
            let x = self.u128()?;
            v.push((a, x));
        }
        Ok(v)
    }
    fn denoms(&mut self) -> Result<Vec<String>, String> {
        let n = self.count()?;
        let mut v = Vec::with_capacity(n);
        for _ in 0..n {
            v.push(self.denom()?);
        }
        Ok(v)
    }
}

fn parse_digits(t: &str) -> Result<(), String> {
    if t.is_empty() || !t.bytes().all(|b| b.is_ascii_digit()) {
        return Err(format!("not an unsigned decimal integer: `{}`", t));
    }
    Ok(())
}

pub fn parse_u128(t: &str) -> Result<u128, String> {
    parse_digits(t)?;
    t.parse::<u128>().map_err(|_| format!("number out of range (u128): {}", t))
}

/// `true` for lines that are not operations (empty / comment)
pub fn is_blank(line: &str) -> bool {
    let t = line.trim();
    t.is_empty() || t.starts_with('#')
}

pub fn parse_op(line: &str) -> Result<Op, String> {
    let mut c = Cur { toks: line.split_whitespace().collect(), pos: 0 };
    let op = parse_inner(&mut c).map_err(|e| format!("{} in `{}`", e, line.trim()))?;
    c.done().map_err(|e| format!("{} in `{}`", e, line.trim()))?;
    Ok(op)
}

fn parse_inner(c: &mut Cur) -> Result<Op, String> {
    let head = c.next()?;
    Ok(match head {
        "reset" => Op::Reset { ut: c.u64()? },
        "advance" => Op::Advance { dt: c.u64()? },
        "slash" => Op::Slash { val: c.chain_val()?, num: c.u128()?, den: c.u128()?, unb: c.flag()? },
        "accrue" => Op::Accrue { val: c.chain_val()?, denom: c.denom()?, amt: c.u128()? },
        "gift" => Op::Gift { addr: c.addr()?, denom: c.denom()?, amt: c.u128()? },
        "setprice" => Op::SetPrice(c.u128()?),
        "swapmode" => Op::SwapMode(match c.next()? {
            "ok" => SwapMode::Ok,
            "fail" => SwapMode::Fail,
            "garbage" => SwapMode::Garbage,
            t => return Err(format!("bad swapmode `{}`", t)),
        }),
        "oraclemode" => Op::OracleMode(match c.next()? {
            "ok" => OracleMode::Ok,
            "fail" => OracleMode::Fail,
            "zero" => OracleMode::Zero,
            t => return Err(format!("bad oraclemode `{}`", t)),
        }),
        "canredel" => Op::CanRedel { val: c.chain_val()?, flag: c.flag()? },
        "legacy_wait" => Op::LegacyWait { addr: c.addr()?, batch: c.u64()?, amt: c.u128()? },
        "migrate" => {
            let t = c.next()?;
            if !["hub", "reward", "disp", "reg", "bsei"].contains(&t) {
                return Err(format!("migrate: unknown contract `{}`", t));
            }
            Op::Migrate { contract: t.to_string() }
        }
        "poke_hubstate" => Op::PokeHubState {
            ber: c.u128()?,
            ser: c.u128()?,
            bb: c.u128()?,
            bst: c.u128()?,
            lim: c.u64()?,
            phb: c.u128()?,
            lut: c.u64()?,
            lpb: c.u64()?,
        },
        "poke_batch" => Op::PokeBatch { id: c.u64()?, reqb: c.u128()?, reqst: c.u128()? },
        "poke_hist" => Op::PokeHist {
            id: c.u64()?,
            time: c.u64()?,
            bamt: c.u128()?,
            bapplied: c.u128()?,
            bwithdraw: c.u128()?,
            samt: c.u128()?,
            sapplied: c.u128()?,
            swithdraw: c.u128()?,
            released: c.flag()?,
        },
        "poke_wait" => Op::PokeWait { addr: c.addr()?, batch: c.u64()?, b: c.u128()?, st: c.u128()? },
        "poke_tokbal" => {
            let tok = match c.next()? {
                "bsei" => Tok::Bsei,
                "stsei" => Tok::Stsei,
                t => return Err(format!("bad token `{}`", t)),
            };
            Op::PokeTokBal { tok, addr: c.addr()?, amt: c.u128()? }
        }
        "poke_holder" => {
            Op::PokeHolder { addr: c.addr()?, bal: c.u128()?, index: c.u128()?, pending: c.u128()? }
        }
        "poke_rwstate" => Op::PokeRwState { gi: c.u128()?, total: c.u128()?, prev: c.u128()? },
        "poke_del" => Op::PokeDel { addr: c.addr()?, val: c.chain_val()?, amt: c.u128()? },
        "poke_unb" => Op::PokeUnb {
            addr: c.addr()?,
            val: c.chain_val()?,
            amt: c.u128()?,
            completion: c.u64()?,
        },
        "poke_pend" => {
            Op::PokePend { addr: c.addr()?, val: c.chain_val()?, denom: c.denom()?, amt: c.u128()? }
        }
        "inst_hub" => Op::InstHub {
            sender: c.addr()?,
            epoch: c.u64()?,
            unbonding: c.u64()?,
            pegfee: c.u128()?,
            threshold: c.u128()?,
            updater: c.addr()?,
            underlying: c.denom()?,
            reward_denom: c.denom()?,
        },
        "inst_reward" => Op::InstReward {
            sender: c.addr()?,
            hub: c.addr()?,
            reward_denom: c.denom()?,
            swap: c.addr()?,
            denoms: c.denoms()?,
        },
        "inst_disp" => Op::InstDisp {
            sender: c.addr()?,
            hub: c.addr()?,
            reward: c.addr()?,
            stdenom: c.denom()?,
            bdenom: c.denom()?,
            keeper: c.addr()?,
            rate: c.u128()?,
            swap: c.addr()?,
            oracle: c.addr()?,
            denoms: c.denoms()?,
        },
        "inst_reg" => {
            let sender = c.addr()?;
            let hub = c.addr()?;
            let n = c.count()?;
            let mut vals = Vec::with_capacity(n);
            for _ in 0..n {
                vals.push(c.msg_val()?);
            }
            Op::InstReg { sender, hub, vals }
        }
        "inst_bsei" => Op::InstBsei { sender: c.addr()?, hub: c.addr()?, balances: c.addr_amounts_alias()? },
        "inst_stsei" => {
            let sender = c.addr()?;
            let hub = c.addr()?;
            let mk = match c.next()? {
                "0" => 0u8,
                "1" => 1,
                "2" => 2,
                t => return Err(format!("bad MK `{}`", t)),
            };
            Op::InstStsei { sender, hub, mk, balances: c.addr_amounts()? }
        }
        "funds" => {
            let n = c.count()?;
            let mut coins = Vec::with_capacity(n);
            for _ in 0..n {
                let d = c.denom()?;
                let a = c.u128()?;
                coins.push((d, a));
            }
            let inner = parse_inner(c)?;
            if !inner.is_transaction() || matches!(inner, Op::WithFunds { .. }) {
                return Err("funds: a transaction operation must follow".to_string());
            }
            Op::WithFunds { coins, inner: Box::new(inner) }
        }
        "bond" => {
            let kind = match c.next()? {
                "b" => BondKind::B,
                "st" => BondKind::St,
                "rw" => BondKind::Rw,
                t => return Err(format!("bad bond kind `{}`", t)),
            };
            let sender = c.addr()?;
            let n = c.count()?;
            let mut coins = Vec::with_capacity(n);
            for _ in 0..n {
                let d = c.denom()?;
                let a = c.u128()?;
                coins.push((d, a));
            }
            Op::Bond { kind, sender, coins }
        }
        "hub" => {
            let sender = c.addr()?;
            let msg = match c.next()? {
                "withdraw" => HubMsg::Withdraw,
                "checkslashing" => HubMsg::CheckSlashing,
                "updateglobal" => HubMsg::UpdateGlobal(c.u32()?),
                "params" => HubMsg::Params {
                    epoch: c.opt_u64()?,
                    unbonding: c.opt_u64()?,
                    pegfee: c.opt_u128()?,
                    thr: c.opt_u128()?,
                    paused: match c.next()? {
                        "-" => None,
                        "0" => Some(false),
                        "1" => Some(true),
                        t => return Err(format!("bad PAUSED `{}`", t)),
                    },
                    reward_denom: c.opt_denom()?,
                },
                "config" => HubMsg::Config {
                    disp: c.opt_addr()?,
                    reg: c.opt_addr()?,
                    bsei: c.opt_addr()?,
                    stsei: c.opt_addr()?,
                    airdrop: c.opt_addr()?,
                    rewards: c.opt_addr()?,
                    updater: c.opt_addr()?,
                },
                "setowner" => HubMsg::SetOwner(c.addr()?),
                "accept" => HubMsg::Accept,
                "redelproxy" => {
                    let src = c.msg_val()?;
                    let n = c.count()?;
                    let mut dsts = Vec::with_capacity(n);
                    for _ in 0..n {
                        let v = c.msg_val()?;
                        let a = c.u128()?;
                        dsts.push((v, a));
                    }
                    HubMsg::RedelProxy { src, dsts }
                }
                "swaphook" => HubMsg::SwapHook { token: c.addr()?, swap: c.addr()? },
                "claimairdrop" => {
                    HubMsg::ClaimAirdrop { token: c.addr()?, airdrop: c.addr()?, swap: c.addr()? }
                }
                "migrate" => HubMsg::Migrate(c.opt_u32()?),
                "receive" => {
                    HubMsg::Receive { sender: c.addr()?, amount: c.u128()?, hook: c.hook()? }
                }
                t => return Err(format!("unknown hub message `{}`", t)),
            };
            Op::Hub { sender, msg }
        }
        "cw" => {
            let tok = match c.next()? {
                "bsei" => Tok::Bsei,
                "stsei" => Tok::Stsei,
                t => return Err(format!("bad token `{}`", t)),
            };
            let sender = c.addr()?;
            let msg = match c.next()? {
                "transfer" => CwMsg::Transfer { to: c.addr()?, amt: c.u128()? },
                "burn" => CwMsg::Burn { amt: c.u128()? },
                "mint" => CwMsg::Mint { to: c.addr()?, amt: c.u128()? },
                "send" => CwMsg::Send { contract: c.addr()?, amt: c.u128()?, hook: c.hook()? },
                "incallow" => CwMsg::IncAllow { spender: c.addr()?, amt: c.u128()?, exp: c.exp()? },
                "decallow" => CwMsg::DecAllow { spender: c.addr()?, amt: c.u128()?, exp: c.exp()? },
                "transferfrom" => {
                    CwMsg::TransferFrom { owner: c.addr()?, to: c.addr()?, amt: c.u128()? }
                }
                "burnfrom" => CwMsg::BurnFrom { owner: c.addr()?, amt: c.u128()? },
                "sendfrom" => CwMsg::SendFrom {
                    owner: c.addr()?,
                    contract: c.addr()?,
                    amt: c.u128()?,
                    hook: c.hook()?,
                },
                "updminter" => {
                    if tok != Tok::Stsei {
                        return Err("updminter is stsei only".to_string());
                    }
                    CwMsg::UpdMinter(c.opt_addr()?)
                }
                t => return Err(format!("unknown cw20 message `{}`", t)),
            };
            Op::Cw { tok, sender, msg }
        }
        "reward" => {
            let sender = c.addr()?;
            let msg = match c.next()? {
                "claim" => RewardMsg::Claim(c.opt_addr()?),
                "config" => {
                    RewardMsg::Config { hub: c.opt_addr()?, denom: c.opt_denom()?, swap: c.opt_addr()? }
                }
                "setowner" => RewardMsg::SetOwner(c.addr()?),
                "accept" => RewardMsg::Accept,
                "swap" => RewardMsg::Swap,
                "updateindex" => RewardMsg::UpdateIndex,
                "inc" => RewardMsg::Inc { addr: c.addr()?, amt: c.u128()? },
                "dec" => RewardMsg::Dec { addr: c.addr()?, amt: c.u128()? },
                "swapdenom" => RewardMsg::SwapDenom { denom: c.denom()?, add: c.flag()? },
                t => return Err(format!("unknown reward message `{}`", t)),
            };
            Op::Reward { sender, msg }
        }
        "disp" => {
            let sender = c.addr()?;
            let msg = match c.next()? {
                "swap" => DispMsg::Swap { bsei_bonded: c.u128()?, stsei_bonded: c.u128()? },
                "dispatch" => DispMsg::Dispatch,
                "config" => DispMsg::Config {
                    hub: c.opt_addr()?,
                    reward: c.opt_addr()?,
                    stdenom: c.opt_denom()?,
                    bdenom: c.opt_denom()?,
                    keeper: c.opt_addr()?,
                    rate: c.opt_u128()?,
                },
                "setowner" => DispMsg::SetOwner(c.addr()?),
                "accept" => DispMsg::Accept,
                "swapcontract" => DispMsg::SwapContract(c.addr()?),
                "swapdenom" => DispMsg::SwapDenom { denom: c.denom()?, add: c.flag()? },
                "oracle" => DispMsg::Oracle(c.addr()?),
                t => return Err(format!("unknown dispatcher message `{}`", t)),
            };
            Op::Disp { sender, msg }
        }
        "reg" => {
            let sender = c.addr()?;
            let msg = match c.next()? {
                "add" => RegMsg::Add(c.msg_val()?),
                "remove" => RegMsg::Remove(c.msg_val()?),
                "config" => RegMsg::Config(c.opt_addr()?),
                "redelegations" => RegMsg::Redelegations(c.msg_val()?),
                "setowner" => RegMsg::SetOwner(c.addr()?),
                "accept" => RegMsg::Accept,
                t => return Err(format!("unknown registry message `{}`", t)),
            };
            Op::Reg { sender, msg }
        }
        t => return Err(format!("unknown operation `{}`", t)),
    })
}

// ---------------------------------------------------------------------------------------------
// Printer (round-trips with the parser)
// ---------------------------------------------------------------------------------------------

fn o<T: ToString>(x: &Option<T>) -> String {
    match x {
        Some(v) => v.to_string(),
        None => "-".to_string(),
    }
}
fn b(x: bool) -> &'static str {
    if x {
        "1"
    } else {
        "0"
    }
}
fn hook_str(h: Hook) -> &'static str {
    match h {
        Hook::Unbond => "unbond",
        Hook::Convert => "convert",
        Hook::Junk => "junk",
    }
}
fn exp_str(e: Exp) -> String {
    match e {
        Exp::Absent => "-".to_string(),
        Exp::Never => "never".to_string(),
        Exp::Height(h) => format!("h{}", h),
        Exp::Time(t) => format!("t{}", t),
    }
}
fn pairs_str(v: &[(String, u128)]) -> String {
    let mut s = v.len().to_string();
    for (a, x) in v {
        s.push_str(&format!(" {} {}", a, x));
    }
    s
}
fn list_str(v: &[String]) -> String {
    let mut s = v.len().to_string();
    for a in v {
        s.push(' ');
        s.push_str(a);
    }
    s
}

impl Op {
    pub fn to_line(&self) -> String {
        match self {
            Op::Reset { ut } => format!("reset {}", ut),
            Op::Advance { dt } => format!("advance {}", dt),
            Op::Slash { val, num, den, unb } => format!("slash {} {} {} {}", val, num, den, b(*unb)),
            Op::Accrue { val, denom, amt } => format!("accrue {} {} {}", val, denom, amt),
            Op::Gift { addr, denom, amt } => format!("gift {} {} {}", addr, denom, amt),
            Op::SetPrice(p) => format!("setprice {}", p),
            Op::SwapMode(m) => format!("swapmode {}", m.as_str()),
            Op::OracleMode(m) => format!("oraclemode {}", m.as_str()),
            Op::CanRedel { val, flag } => format!("canredel {} {}", val, b(*flag)),
            Op::LegacyWait { addr, batch, amt } => format!("legacy_wait {} {} {}", addr, batch, amt),
            Op::Migrate { contract } => format!("migrate {}", contract),
            Op::PokeHubState { ber, ser, bb, bst, lim, phb, lut, lpb } => format!(
                "poke_hubstate {} {} {} {} {} {} {} {}",
                ber, ser, bb, bst, lim, phb, lut, lpb
            ),
            Op::PokeBatch { id, reqb, reqst } => format!("poke_batch {} {} {}", id, reqb, reqst),
            Op::PokeHist { id, time, bamt, bapplied, bwithdraw, samt, sapplied, swithdraw, released } => {
                format!(
                    "poke_hist {} {} {} {} {} {} {} {} {}",
                    id,
                    time,
                    bamt,
                    bapplied,
                    bwithdraw,
                    samt,
                    sapplied,
                    swithdraw,
                    b(*released)
                )
            }
            Op::PokeWait { addr, batch, b, st } => format!("poke_wait {} {} {} {}", addr, batch, b, st),
            Op::PokeTokBal { tok, addr, amt } => format!("poke_tokbal {} {} {}", tok.name(), addr, amt),
            Op::PokeHolder { addr, bal, index, pending } => {
                format!("poke_holder {} {} {} {}", addr, bal, index, pending)
            }
            Op::PokeRwState { gi, total, prev } => format!("poke_rwstate {} {} {}", gi, total, prev),
            Op::PokeDel { addr, val, amt } => format!("poke_del {} {} {}", addr, val, amt),
            Op::PokeUnb { addr, val, amt, completion } => {
                format!("poke_unb {} {} {} {}", addr, val, amt, completion)
            }
            Op::PokePend { addr, val, denom, amt } => {
                format!("poke_pend {} {} {} {}", addr, val, denom, amt)
            }
            Op::InstHub {
                sender,
                epoch,
                unbonding,
                pegfee,
                threshold,
                updater,
                underlying,
                reward_denom,
            } => format!(
                "inst_hub {} {} {} {} {} {} {} {}",
                sender, epoch, unbonding, pegfee, threshold, updater, underlying, reward_denom
            ),
            Op::InstReward { sender, hub, reward_denom, swap, denoms } => {
                format!("inst_reward {} {} {} {} {}", sender, hub, reward_denom, swap, list_str(denoms))
            }
            Op::InstDisp {
                sender,
                hub,
                reward,
                stdenom,
                bdenom,
                keeper,
                rate,
                swap,
                oracle,
                denoms,
            } => format!(
                "inst_disp {} {} {} {} {} {} {} {} {} {}",
                sender,
                hub,
                reward,
                stdenom,
                bdenom,
                keeper,
                rate,
                swap,
                oracle,
                list_str(denoms)
            ),
            Op::InstReg { sender, hub, vals } => {
                format!("inst_reg {} {} {}", sender, hub, list_str(vals))
            }
            Op::InstBsei { sender, hub, balances } => {
                format!("inst_bsei {} {} {}", sender, hub, pairs_str(balances))
            }
            Op::InstStsei { sender, hub, mk, balances } => {
                format!("inst_stsei {} {} {} {}", sender, hub, mk, pairs_str(balances))
            }
            Op::WithFunds { coins, inner } => format!("funds {} {}", pairs_str(coins), inner.to_line()),
            Op::Bond { kind, sender, coins } => {
                let k = match kind {
                    BondKind::B => "b",
                    BondKind::St => "st",
                    BondKind::Rw => "rw",
                };
                format!("bond {} {} {}", k, sender, pairs_str(coins))
            }
            Op::Hub { sender, msg } => {
                let m = match msg {
                    HubMsg::Withdraw => "withdraw".to_string(),
                    HubMsg::CheckSlashing => "checkslashing".to_string(),
                    HubMsg::UpdateGlobal(n) => format!("updateglobal {}", n),
                    HubMsg::Params { epoch, unbonding, pegfee, thr, paused, reward_denom } => format!(
                        "params {} {} {} {} {} {}",
                        o(epoch),
                        o(unbonding),
                        o(pegfee),
                        o(thr),
                        match paused {
                            None => "-",
                            Some(false) => "0",
                            Some(true) => "1",
                        },
                        o(reward_denom)
                    ),
                    HubMsg::Config { disp, reg, bsei, stsei, airdrop, rewards, updater } => format!(
                        "config {} {} {} {} {} {} {}",
                        o(disp),
                        o(reg),
                        o(bsei),
                        o(stsei),
                        o(airdrop),
                        o(rewards),
                        o(updater)
                    ),
                    HubMsg::SetOwner(a) => format!("setowner {}", a),
                    HubMsg::Accept => "accept".to_string(),
                    HubMsg::RedelProxy { src, dsts } => {
                        format!("redelproxy {} {}", src, pairs_str(dsts))
                    }
                    HubMsg::SwapHook { token, swap } => format!("swaphook {} {}", token, swap),
                    HubMsg::ClaimAirdrop { token, airdrop, swap } => {
                        format!("claimairdrop {} {} {}", token, airdrop, swap)
                    }
                    HubMsg::Migrate(l) => format!("migrate {}", o(l)),
                    HubMsg::Receive { sender, amount, hook } => {
                        format!("receive {} {} {}", sender, amount, hook_str(*hook))
                    }
                };
                format!("hub {} {}", sender, m)
            }
            Op::Cw { tok, sender, msg } => {
                let m = match msg {
                    CwMsg::Transfer { to, amt } => format!("transfer {} {}", to, amt),
                    CwMsg::Burn { amt } => format!("burn {}", amt),
                    CwMsg::Mint { to, amt } => format!("mint {} {}", to, amt),
                    CwMsg::Send { contract, amt, hook } => {
                        format!("send {} {} {}", contract, amt, hook_str(*hook))
                    }
                    CwMsg::IncAllow { spender, amt, exp } => {
                        format!("incallow {} {} {}", spender, amt, exp_str(*exp))
                    }
                    CwMsg::DecAllow { spender, amt, exp } => {
                        format!("decallow {} {} {}", spender, amt, exp_str(*exp))
                    }
                    CwMsg::TransferFrom { owner, to, amt } => {
                        format!("transferfrom {} {} {}", owner, to, amt)
                    }
                    CwMsg::BurnFrom { owner, amt } => format!("burnfrom {} {}", owner, amt),
                    CwMsg::SendFrom { owner, contract, amt, hook } => {
                        format!("sendfrom {} {} {} {}", owner, contract, amt, hook_str(*hook))
                    }
                    CwMsg::UpdMinter(a) => format!("updminter {}", o(a)),
                };
                format!("cw {} {} {}", tok.name(), sender, m)
            }
            Op::Reward { sender, msg } => {
                let m = match msg {
                    RewardMsg::Claim(r) => format!("claim {}", o(r)),
                    RewardMsg::Config { hub, denom, swap } => {
                        format!("config {} {} {}", o(hub), o(denom), o(swap))
                    }
                    RewardMsg::SetOwner(a) => format!("setowner {}", a),
                    RewardMsg::Accept => "accept".to_string(),
                    RewardMsg::Swap => "swap".to_string(),
                    RewardMsg::UpdateIndex => "updateindex".to_string(),
                    RewardMsg::Inc { addr, amt } => format!("inc {} {}", addr, amt),
                    RewardMsg::Dec { addr, amt } => format!("dec {} {}", addr, amt),
                    RewardMsg::SwapDenom { denom, add } => format!("swapdenom {} {}", denom, b(*add)),
                };
                format!("reward {} {}", sender, m)
            }
            Op::Disp { sender, msg } => {
                let m = match msg {
                    DispMsg::Swap { bsei_bonded, stsei_bonded } => {
                        format!("swap {} {}", bsei_bonded, stsei_bonded)
                    }
                    DispMsg::Dispatch => "dispatch".to_string(),
                    DispMsg::Config { hub, reward, stdenom, bdenom, keeper, rate } => format!(
                        "config {} {} {} {} {} {}",
                        o(hub),
                        o(reward),
                        o(stdenom),
                        o(bdenom),
                        o(keeper),
                        o(rate)
                    ),
                    DispMsg::SetOwner(a) => format!("setowner {}", a),
                    DispMsg::Accept => "accept".to_string(),
                    DispMsg::SwapContract(a) => format!("swapcontract {}", a),
                    DispMsg::SwapDenom { denom, add } => format!("swapdenom {} {}", denom, b(*add)),
                    DispMsg::Oracle(a) => format!("oracle {}", a),
                };
                format!("disp {} {}", sender, m)
            }
            Op::Reg { sender, msg } => {
                let m = match msg {
                    RegMsg::Add(v) => format!("add {}", v),
                    RegMsg::Remove(v) => format!("remove {}", v),
                    RegMsg::Config(h) => format!("config {}", o(h)),
                    RegMsg::Redelegations(v) => format!("redelegations {}", v),
                    RegMsg::SetOwner(a) => format!("setowner {}", a),
                    RegMsg::Accept => "accept".to_string(),
                };
                format!("reg {} {}", sender, m)
            }
        }
    }
}

// ---------------------------------------------------------------------------------------------
// Message construction
// ---------------------------------------------------------------------------------------------

fn dec(atomics: u128) -> Decimal {
    Decimal::new(Uint128::new(atomics))
}
fn u(x: u128) -> Uint128 {
    Uint128::new(x)
}
fn bin<T: serde::Serialize>(m: &T) -> Binary {
    to_json_binary(m).expect("message serialisation")
}
pub fn hook_binary(h: Hook) -> Binary {
    match h {
        Hook::Unbond => bin(&basset::hub::Cw20HookMsg::Unbond {}),
        Hook::Convert => bin(&basset::hub::Cw20HookMsg::Convert {}),
        Hook::Junk => Binary::from(b"junk".to_vec()),
    }
}
fn expiration(e: Exp) -> Option<Expiration> {
    match e {
        Exp::Absent => None,
        Exp::Never => Some(Expiration::Never {}),
        Exp::Height(h) => Some(Expiration::AtHeight(h)),
        Exp::Time(t) => Some(Expiration::AtTime(Timestamp::from_seconds(t))),
    }
}
fn empty_obj() -> Binary {
    Binary::from(b"{}".to_vec())
}

/// The root message of a transaction operation: (sender, target, msg, funds)
pub fn root_message(op: &Op) -> Option<(String, &'static str, Binary, Vec<Coin>)> {
    use basset::hub::ExecuteMsg as H;
    match op {
        Op::WithFunds { coins, inner } => {
            let (sender, target, msg, mut funds) = root_message(inner)?;
            funds.extend(coins.iter().map(|(d, a)| Coin { denom: d.clone(), amount: u(*a) }));
            Some((sender, target, msg, funds))
        }
        Op::Bond { kind, sender, coins } => {
            let m = match kind {
                BondKind::B => H::Bond {},
                BondKind::St => H::BondForStSei {},
                BondKind::Rw => H::BondRewards {},
            };
            let funds = coins.iter().map(|(d, a)| Coin { denom: d.clone(), amount: u(*a) }).collect();
            Some((sender.clone(), "hub", bin(&m), funds))
        }
        Op::Hub { sender, msg } => {
            let m = match msg {
                HubMsg::Withdraw => H::WithdrawUnbonded {},
                HubMsg::CheckSlashing => H::CheckSlashing {},
                HubMsg::UpdateGlobal(n) => H::UpdateGlobalIndex {
                    airdrop_hooks: if *n == 0 {
                        None
                    } else {
                        Some((0..*n).map(|_| empty_obj()).collect())
                    },
                },
                HubMsg::Params { epoch, unbonding, pegfee, thr, paused, reward_denom } => {
                    H::UpdateParams {
                        epoch_period: *epoch,
                        unbonding_period: *unbonding,
                        peg_recovery_fee: pegfee.map(dec),
                        er_threshold: thr.map(dec),
                        paused: *paused,
                        reward_denom: reward_denom.clone(),
                    }
                }
                HubMsg::Config { disp, reg, bsei, stsei, airdrop, rewards, updater } => {
                    H::UpdateConfig {
                        rewards_dispatcher_contract: disp.clone(),
                        validators_registry_contract: reg.clone(),
                        bsei_token_contract: bsei.clone(),
                        stsei_token_contract: stsei.clone(),
                        airdrop_registry_contract: airdrop.clone(),
                        rewards_contract: rewards.clone(),
                        update_reward_index_addr: updater.clone(),
                    }
                }
                HubMsg::SetOwner(a) => H::SetOwner { new_owner_addr: a.clone() },
                HubMsg::Accept => H::AcceptOwnership {},
                HubMsg::RedelProxy { src, dsts } => H::RedelegateProxy {
                    src_validator: src.clone(),
                    redelegations: dsts
                        .iter()
                        .map(|(v, a)| (v.clone(), Coin { denom: BOND_DENOM.to_string(), amount: u(*a) }))
                        .collect(),
                },
                HubMsg::SwapHook { token, swap } => H::SwapHook {
                    airdrop_token_contract: token.clone(),
                    airdrop_swap_contract: swap.clone(),
                    swap_msg: empty_obj(),
                },
                HubMsg::ClaimAirdrop { token, airdrop, swap } => H::ClaimAirdrop {
                    airdrop_token_contract: token.clone(),
                    airdrop_contract: airdrop.clone(),
                    airdrop_swap_contract: swap.clone(),
                    claim_msg: empty_obj(),
                    swap_msg: empty_obj(),
                },
                HubMsg::Migrate(l) => H::MigrateUnbondWaitList { limit: *l },
                HubMsg::Receive { sender, amount, hook } => H::Receive(Cw20ReceiveMsg {
                    sender: sender.clone(),
                    amount: u(*amount),
                    msg: hook_binary(*hook),
                }),
            };
            Some((sender.clone(), "hub", bin(&m), vec![]))
        }
        Op::Cw { tok, sender, msg } => {
            let b = match tok {
                Tok::Bsei => {
                    use cw20_legacy::msg::ExecuteMsg as E;
                    let m = match msg {
                        CwMsg::Transfer { to, amt } => E::Transfer { recipient: to.clone(), amount: u(*amt) },
                        CwMsg::Burn { amt } => E::Burn { amount: u(*amt) },
                        CwMsg::Mint { to, amt } => E::Mint { recipient: to.clone(), amount: u(*amt) },
                        CwMsg::Send { contract, amt, hook } => E::Send {
                            contract: contract.clone(),
                            amount: u(*amt),
                            msg: hook_binary(*hook),
                        },
                        CwMsg::IncAllow { spender, amt, exp } => E::IncreaseAllowance {
                            spender: spender.clone(),
                            amount: u(*amt),
                            expires: expiration(*exp),
                        },
                        CwMsg::DecAllow { spender, amt, exp } => E::DecreaseAllowance {
                            spender: spender.clone(),
                            amount: u(*amt),
                            expires: expiration(*exp),
                        },
                        CwMsg::TransferFrom { owner, to, amt } => E::TransferFrom {
                            owner: owner.clone(),
                            recipient: to.clone(),
                            amount: u(*amt),
                        },
                        CwMsg::BurnFrom { owner, amt } => {
                            E::BurnFrom { owner: owner.clone(), amount: u(*amt) }
                        }
                        CwMsg::SendFrom { owner, contract, amt, hook } => E::SendFrom {
                            owner: owner.clone(),
                            contract: contract.clone(),
                            amount: u(*amt),
                            msg: hook_binary(*hook),
                        },
                        CwMsg::UpdMinter(_) => return None,
                    };
                    bin(&m)
                }
                Tok::Stsei => {
                    use cw20::Cw20ExecuteMsg as E;
                    let m = match msg {
                        CwMsg::Transfer { to, amt } => E::Transfer { recipient: to.clone(), amount: u(*amt) },
                        CwMsg::Burn { amt } => E::Burn { amount: u(*amt) },
                        CwMsg::Mint { to, amt } => E::Mint { recipient: to.clone(), amount: u(*amt) },
                        CwMsg::Send { contract, amt, hook } => E::Send {
                            contract: contract.clone(),
                            amount: u(*amt),
                            msg: hook_binary(*hook),
                        },
                        CwMsg::IncAllow { spender, amt, exp } => E::IncreaseAllowance {
                            spender: spender.clone(),
                            amount: u(*amt),
                            expires: expiration(*exp),
                        },
                        CwMsg::DecAllow { spender, amt, exp } => E::DecreaseAllowance {
                            spender: spender.clone(),
                            amount: u(*amt),
                            expires: expiration(*exp),
                        },
                        CwMsg::TransferFrom { owner, to, amt } => E::TransferFrom {
                            owner: owner.clone(),
                            recipient: to.clone(),
                            amount: u(*amt),
                        },
                        CwMsg::BurnFrom { owner, amt } => {
                            E::BurnFrom { owner: owner.clone(), amount: u(*amt) }
                        }
                        CwMsg::SendFrom { owner, contract, amt, hook } => E::SendFrom {
                            owner: owner.clone(),
                            contract: contract.clone(),
                            amount: u(*amt),
                            msg: hook_binary(*hook),
                        },
                        CwMsg::UpdMinter(a) => E::UpdateMinter { new_minter: a.clone() },
                    };
                    bin(&m)
                }
            };
            Some((sender.clone(), tok.name(), b, vec![]))
        }
        Op::Reward { sender, msg } => {
            use basset::reward::ExecuteMsg as E;
            let m = match msg {
                RewardMsg::Claim(r) => E::ClaimRewards { recipient: r.clone() },
                RewardMsg::Config { hub, denom, swap } => E::UpdateConfig {
                    hub_contract: hub.clone(),
                    reward_denom: denom.clone(),
                    swap_contract: swap.clone(),
                },
                RewardMsg::SetOwner(a) => E::SetOwner { new_owner_addr: a.clone() },
                RewardMsg::Accept => E::AcceptOwnership {},
                RewardMsg::Swap => E::SwapToRewardDenom {},
                RewardMsg::UpdateIndex => E::UpdateGlobalIndex {},
                RewardMsg::Inc { addr, amt } => E::IncreaseBalance { address: addr.clone(), amount: u(*amt) },
                RewardMsg::Dec { addr, amt } => E::DecreaseBalance { address: addr.clone(), amount: u(*amt) },
                RewardMsg::SwapDenom { denom, add } => {
                    E::UpdateSwapDenom { swap_denom: denom.clone(), is_add: *add }
                }
            };
            Some((sender.clone(), "reward", bin(&m), vec![]))
        }
        Op::Disp { sender, msg } => {
            use basset_sei_rewards_dispatcher::msg::ExecuteMsg as E;
            let m = match msg {
                DispMsg::Swap { bsei_bonded, stsei_bonded } => E::SwapToRewardDenom {
                    bsei_total_bonded: u(*bsei_bonded),
                    stsei_total_bonded: u(*stsei_bonded),
                },
                DispMsg::Dispatch => E::DispatchRewards {},
                DispMsg::Config { hub, reward, stdenom, bdenom, keeper, rate } => E::UpdateConfig {
                    hub_contract: hub.clone(),
                    bsei_reward_contract: reward.clone(),
                    stsei_reward_denom: stdenom.clone(),
                    bsei_reward_denom: bdenom.clone(),
                    krp_keeper_address: keeper.clone(),
                    krp_keeper_rate: rate.map(dec),
                },
                DispMsg::SetOwner(a) => E::SetOwner { new_owner_addr: a.clone() },
                DispMsg::Accept => E::AcceptOwnership {},
                DispMsg::SwapContract(a) => E::UpdateSwapContract { swap_contract: a.clone() },
                DispMsg::SwapDenom { denom, add } => {
                    E::UpdateSwapDenom { swap_denom: denom.clone(), is_add: *add }
                }
                DispMsg::Oracle(a) => E::UpdateOracleContract { oracle_contract: a.clone() },
            };
            Some((sender.clone(), "disp", bin(&m), vec![]))
        }
        Op::Reg { sender, msg } => {
            use basset_sei_validators_registry::msg::ExecuteMsg as E;
            use basset_sei_validators_registry::registry::Validator;
            let m = match msg {
                RegMsg::Add(v) => E::AddValidator { validator: Validator { address: v.clone() } },
                RegMsg::Remove(v) => E::RemoveValidator { address: v.clone() },
                RegMsg::Config(h) => E::UpdateConfig { hub_contract: h.clone() },
                RegMsg::Redelegations(v) => E::Redelegations { address: v.clone() },
                RegMsg::SetOwner(a) => E::SetOwner { new_owner_addr: a.clone() },
                RegMsg::Accept => E::AcceptOwnership {},
            };
            Some((sender.clone(), "reg", bin(&m), vec![]))
        }
        _ => None,
    }
}

// ---------------------------------------------------------------------------------------------
// Application
// ---------------------------------------------------------------------------------------------

#[derive(Clone, Debug, Default, PartialEq, Eq)]
pub struct OpResult {
    pub ok: bool,
    /// message trace (only for successful transactions of section 3.3)
    pub trace: Vec<String>,
    /// failure reason (diagnostics only; never printed in observations)
    pub error: Option<String>,
    /// messages executed before a failed transaction failed, the failing one last (diagnostics
    /// only; never printed in observations)
    pub failed_trace: Vec<String>,
}

impl OpResult {
    fn ok() -> OpResult {
        OpResult { ok: true, trace: vec![], error: None, failed_trace: vec![] }
    }
    fn err(e: String) -> OpResult {
        OpResult { ok: false, trace: vec![], error: Some(e), failed_trace: vec![] }
    }
    fn from(r: Result<(), String>) -> OpResult {
        match r {
            Ok(()) => OpResult::ok(),
            Err(e) => OpResult::err(e),
        }
    }
}

fn cw20_coins(balances: &[(String, u128)]) -> Vec<Cw20Coin> {
    balances.iter().map(|(a, x)| Cw20Coin { address: a.clone(), amount: u(*x) }).collect()
}

/// state-injection operations of PROTOCOL.md section 3.4 (nothing changes on `Err`)
fn apply_poke(world: &mut World, op: &Op) -> Result<(), String> {
    let vi = |v: &str| val_index(v).expect("chain validator");
    match op {
        Op::PokeHubState { ber, ser, bb, bst, lim, phb, lut, lpb } => {
            world.poke_hub_state(*ber, *ser, *bb, *bst, *lim, *phb, *lut, *lpb)
        }
        Op::PokeBatch { id, reqb, reqst } => world.poke_batch(*id, *reqb, *reqst),
        Op::PokeHist { id, time, bamt, bapplied, bwithdraw, samt, sapplied, swithdraw, released } => world
            .poke_hist(*id, *time, *bamt, *bapplied, *bwithdraw, *samt, *sapplied, *swithdraw, *released),
        Op::PokeWait { addr, batch, b, st } => world.poke_wait(addr, *batch, *b, *st),
        Op::PokeTokBal { tok, addr, amt } => world.poke_tokbal(tok.index(), addr, *amt),
        Op::PokeHolder { addr, bal, index, pending } => world.poke_holder(addr, *bal, *index, *pending),
        Op::PokeRwState { gi, total, prev } => world.poke_rwstate(*gi, *total, *prev),
        Op::PokeDel { addr, val, amt } => {
            world.poke_del(addr, vi(val), *amt);
            Ok(())
        }
        Op::PokeUnb { addr, val, amt, completion } => {
            world.poke_unb(addr, vi(val), *amt, *completion);
            Ok(())
        }
        Op::PokePend { addr, val, denom, amt } => {
            world.poke_pend(addr, vi(val), denom_index(denom).expect("denom"), *amt);
            Ok(())
        }
        _ => Err("not a poke operation".to_string()),
    }
}

pub fn apply_op(world: &mut World, op: &Op) -> OpResult {
    match op {
        Op::Reset { ut } => {
            *world = World::new(*ut);
            OpResult::ok()
        }
        Op::Advance { dt } => OpResult::from(world.advance(*dt)),
        Op::Slash { val, num, den, unb } => {
            OpResult::from(world.slash(val_index(val).expect("chain validator"), *num, *den, *unb))
        }
        Op::Accrue { val, denom, amt } => OpResult::from(world.accrue(
            val_index(val).expect("chain validator"),
            denom_index(denom).expect("denom"),
            *amt,
        )),
        Op::Gift { addr, denom, amt } => OpResult::from(world.credit(addr, denom, *amt)),
        Op::SetPrice(p) => {
            if *p == 0 {
                OpResult::err("price must be > 0".to_string())
            } else {
                world.price = *p;
                OpResult::ok()
            }
        }
        Op::SwapMode(m) => {
            world.swapmode = *m;
            OpResult::ok()
        }
        Op::OracleMode(m) => {
            world.oraclemode = *m;
            OpResult::ok()
        }
        Op::CanRedel { val, flag } => {
            world.can_redelegate[val_index(val).expect("chain validator")] = *flag;
            OpResult::ok()
        }
        Op::LegacyWait { addr, batch, amt } => {
            if !world.inst[HUB] {
                return OpResult::err("hub not instantiated".to_string());
            }
            let mut storage = StoreRef::new(world, HUB);
            let addr_key = cosmwasm_std::to_json_vec(addr).expect("json");
            let batch_key = cosmwasm_std::to_json_vec(batch).expect("json");
            let mut bucket: Bucket<Uint128> =
                Bucket::multilevel(&mut storage, &[b"wait", &addr_key]);
            OpResult::from(bucket.save(&batch_key, &u(*amt)).map_err(|e| e.to_string()))
        }
        Op::Migrate { contract } => {
            let r = match contract.as_str() {
                "hub" => run_migrate(world, HUB, |d, e| {
                    let msg = basset::hub::MigrateMsg {
                        reward_dispatcher_contract: "disp".to_string(),
                        validators_registry_contract: "reg".to_string(),
                        stsei_token_contract: "stsei".to_string(),
                        rewards_contract: "reward".to_string(),
                    };
                    basset_sei_hub::contract::migrate(d, e, msg).map_err(|e| e.to_string())
                }),
                "reward" => run_migrate(world, REWARD, |d, e| {
                    basset_sei_reward::contract::migrate(d, e, basset::reward::MigrateMsg {}).map_err(|e| e.to_string())
                }),
                "disp" => run_migrate(world, DISP, |d, e| {
                    basset_sei_rewards_dispatcher::contract::migrate(d, e, basset_sei_rewards_dispatcher::msg::MigrateMsg {})
                        .map_err(|e| e.to_string())
                }),
                "reg" => run_migrate(world, REG, |d, e| {
                    basset_sei_validators_registry::contract::migrate(d, e, basset_sei_validators_registry::msg::MigrateMsg {})
                        .map_err(|e| e.to_string())
                }),
                _ => run_migrate(world, BSEI, |d, e| {
                    basset_sei_token_bsei::contract::migrate(d, e, basset_sei_token_bsei::msg::MigrateMsg {})
                        .map_err(|e| e.to_string())
                }),
            };
            OpResult::from(r)
        }
        Op::PokeHubState { .. }
        | Op::PokeBatch { .. }
        | Op::PokeHist { .. }
        | Op::PokeWait { .. }
        | Op::PokeTokBal { .. }
        | Op::PokeHolder { .. }
        | Op::PokeRwState { .. }
        | Op::PokeDel { .. }
        | Op::PokeUnb { .. }
        | Op::PokePend { .. } => OpResult::from(apply_poke(world, op)),
        Op::InstHub { sender, epoch, unbonding, pegfee, threshold, updater, underlying, reward_denom } => {
            let msg = basset::hub::InstantiateMsg {
                epoch_period: *epoch,
                underlying_coin_denom: underlying.clone(),
                unbonding_period: *unbonding,
                peg_recovery_fee: dec(*pegfee),
                er_threshold: dec(*threshold),
                reward_denom: reward_denom.clone(),
                update_reward_index_addr: updater.clone(),
            };
            OpResult::from(run_instantiate(world, HUB, sender, |d, e, i| {
                basset_sei_hub::contract::instantiate(d, e, i, msg).map_err(|e| e.to_string())
            }))
        }
        Op::InstReward { sender, hub, reward_denom, swap, denoms } => {
            let msg = basset::reward::InstantiateMsg {
                hub_contract: hub.clone(),
                reward_denom: reward_denom.clone(),
                swap_contract: swap.clone(),
                swap_denoms: denoms.clone(),
            };
            OpResult::from(run_instantiate(world, REWARD, sender, |d, e, i| {
                basset_sei_reward::contract::instantiate(d, e, i, msg).map_err(|e| e.to_string())
            }))
        }
        Op::InstDisp { sender, hub, reward, stdenom, bdenom, keeper, rate, swap, oracle, denoms } => {
            let msg = basset_sei_rewards_dispatcher::msg::InstantiateMsg {
                hub_contract: hub.clone(),
                bsei_reward_contract: reward.clone(),
                stsei_reward_denom: stdenom.clone(),
                bsei_reward_denom: bdenom.clone(),
                krp_keeper_address: keeper.clone(),
                krp_keeper_rate: dec(*rate),
                swap_contract: swap.clone(),
                swap_denoms: denoms.clone(),
                oracle_contract: oracle.clone(),
            };
            OpResult::from(run_instantiate(world, DISP, sender, |d, e, i| {
                basset_sei_rewards_dispatcher::contract::instantiate(d, e, i, msg)
                    .map_err(|e| e.to_string())
            }))
        }
        Op::InstReg { sender, hub, vals } => {
            use basset_sei_validators_registry::registry::Validator;
            let msg = basset_sei_validators_registry::msg::InstantiateMsg {
                registry: vals.iter().map(|v| Validator { address: v.clone() }).collect(),
                hub_contract: hub.clone(),
            };
            OpResult::from(run_instantiate(world, REG, sender, |d, e, i| {
                basset_sei_validators_registry::contract::instantiate(d, e, i, msg)
                    .map_err(|e| e.to_string())
            }))
        }
        Op::InstBsei { sender, hub, balances } => {
            let msg = basset_sei_token_bsei::msg::TokenInitMsg {
                name: "bsei token".to_string(),
                symbol: "BSEI".to_string(),
                decimals: 6,
                initial_balances: cw20_coins(balances),
                hub_contract: hub.clone(),
            };
            OpResult::from(run_instantiate(world, BSEI, sender, |d, e, i| {
                basset_sei_token_bsei::contract::instantiate(d, e, i, msg).map_err(|e| e.to_string())
            }))
        }
        Op::InstStsei { sender, hub, mk, balances } => {
            use cw20_base::msg::InstantiateMarketingInfo;
            let marketing = match mk {
                0 => None,
                1 => Some(InstantiateMarketingInfo {
                    project: None,
                    description: None,
                    marketing: None,
                    logo: None,
                }),
                _ => Some(InstantiateMarketingInfo {
                    project: None,
                    description: None,
                    marketing: Some("owner".to_string()),
                    logo: None,
                }),
            };
            let msg = basset_sei_token_stsei::msg::TokenInitMsg {
                name: "stsei token".to_string(),
                symbol: "STSEI".to_string(),
                decimals: 6,
                initial_balances: cw20_coins(balances),
                hub_contract: hub.clone(),
                marketing,
            };
            OpResult::from(run_instantiate(world, STSEI, sender, |d, e, i| {
                basset_sei_token_stsei::contract::instantiate(d, e, i, msg)
                    .map_err(|e| e.to_string())
            }))
        }
        Op::Bond { .. } | Op::Hub { .. } | Op::Cw { .. } | Op::Reward { .. } | Op::Disp { .. } | Op::Reg { .. } | Op::WithFunds { .. } => {
            let (sender, target, msg, funds) = match root_message(op) {
                Some(x) => x,
                None => return OpResult::err("message not available for this token".to_string()),
            };
            match run_tx(world, &sender, target, &msg, &funds) {
                Ok(trace) => OpResult { ok: true, trace, error: None, failed_trace: vec![] },
                Err((e, partial)) => {
                    OpResult { ok: false, trace: vec![], error: Some(e), failed_trace: partial }
                }
            }
        }
    }
}
