//! `probe OPSFILE`: dry-run probes for property C09 on cloned worlds (the history itself is not
//! disturbed).  After every operation I of the history (world = state after op I) it prints
//!
//!   probe I unbond TOK ADDR AMT ok|err REASON      every holder's full balance and 1 unit
//!   probe I exit TOK ADDR ok|err|skip STAGE REASON  unbond all, close the batch after the epoch, wait the
//!                                                   unbonding period, withdraw (first 4 holders per token)
//!   probe I stub ok|diff DETAIL                    the NEXT operation of the file, if it is a bond / token /
//!                                                   withdraw / reward-claim transaction, replayed under every
//!                                                   swap / oracle failure pattern: same outcome, trace and
//!                                                   state (the `env` line apart)
//!
//! The relevance of a failing probe (wiring, pause, envelope, known classes) is judged by the
//! Python monitor from the observation dump of the same index; this module only runs the real code.
use std::io::Write;

use crate::chain::{OracleMode, SwapMode, World};
use crate::dump::dump;
use crate::ops::{apply_op, is_blank, parse_op, Op};

fn holders(lines: &[String], tok: &str) -> Vec<(String, u128)> {
    let pre = format!("tok.{}.bal ", tok);
    let mut v = vec![];
    for l in lines {
        if let Some(rest) = l.strip_prefix(&pre) {
            let mut it = rest.split(' ');
            let a = it.next().unwrap_or("").to_string();
            let x: u128 = it.next().unwrap_or("0").parse().unwrap_or(0);
            if x > 0 {
                v.push((a, x));
            }
        }
    }
    v
}

fn field(lines: &[String], key: &str, idx: usize) -> Option<String> {
    let pre = format!("{} ", key);
    for l in lines {
        if let Some(rest) = l.strip_prefix(&pre) {
            return rest.split(' ').nth(idx).map(|s| s.to_string());
        }
    }
    None
}

/// (coins arrived since the last withdrawal < coins the matured unreleased batches expect,
///  number of wait entries of `user`)
fn release_shortfall(lines: &[String], user: &str, now: u64, unbonding: u64) -> (bool, u128) {
    const ONE: u128 = 1_000_000_000_000_000_000;
    let mut expected: u128 = 0;
    let hist_cut = now.saturating_sub(unbonding) as u128;
    for l in lines {
        if let Some(rest) = l.strip_prefix("hub.hist ") {
            let f: Vec<u128> = rest.split(' ').map(|x| x.parse().unwrap_or(0)).collect();
            // ID TIME BAMT BAPPLIED BWITHDRAW SAMT SAPPLIED SWITHDRAW RELEASED
            if f.len() == 9 && f[8] == 0 && f[1] <= hist_cut {
                expected = expected
                    .saturating_add(f[2].saturating_mul(f[4]) / ONE)
                    .saturating_add(f[5].saturating_mul(f[7]) / ONE);
            }
        }
    }
    let phb: u128 = field(lines, "hub.stored", 5).and_then(|s| s.parse().ok()).unwrap_or(0);
    let mut bal: u128 = 0;
    for l in lines {
        if let Some(rest) = l.strip_prefix("bank hub usei ") {
            bal = rest.parse().unwrap_or(0);
        }
    }
    let pre = format!("hub.wait {} ", user);
    let entries = lines.iter().filter(|l| l.starts_with(&pre)).count() as u128;
    (bal.saturating_sub(phb) < expected, entries)
}

fn try_op(w: &mut World, line: &str) -> (bool, String) {
    match parse_op(line) {
        Ok(op) => {
            let r = apply_op(w, &op);
            (r.ok, r.error.unwrap_or_default().replace('\n', " "))
        }
        Err(e) => (false, format!("unparsable probe `{}`: {}", line, e)),
    }
}

fn is_exit_class(op: &Op) -> bool {
    let l = op.to_line();
    let t: Vec<&str> = l.split(' ').collect();
    match t[0] {
        "bond" => t[1] == "b" || t[1] == "st",
        "cw" => true,
        "hub" => t.len() > 2 && t[2] == "withdraw",
        "reward" => t.len() > 2 && t[2] == "claim",
        _ => false,
    }
}

fn dump_no_env(w: &World) -> Vec<String> {
    dump(w).into_iter().filter(|l| !l.starts_with("env ")).collect()
}

/// complete exit of holder `a` on a clone of `world`: unbond (all but one unit), close the batch after
/// the epoch period, wait the unbonding period, withdraw.  With `idle_broken` the clone first idles for
/// more than a day with the swap and oracle contracts failing.  Returns `ok|err|skip STAGE REASON`.
fn exit_probe(world: &World, tok: &str, a: &str, b: u128, epoch: u64, unbonding: u64, idle_broken: bool) -> String {
    let mut w = world.clone();
    if idle_broken {
        w.swapmode = SwapMode::Fail;
        w.oraclemode = OracleMode::Fail;
        let (ok, _) = try_op(&mut w, "advance 86500");
        if !ok {
            return "skip advance clock".to_string();
        }
    }
    let first = if b > 1 { b - 1 } else { b };
    let (ok, why) = try_op(&mut w, &format!("cw {} {} send hub {} unbond", tok, a, first));
    if !ok {
        return format!("err unbond{} {}", if idle_broken { "(idle, plumbing failing)" } else { "" }, why);
    }
    // the first unbond after the epoch period must undelegate the batch holding the request
    let batch_before: u64 = field(&dump(&w), "hub.batch", 0).and_then(|s| s.parse().ok()).unwrap_or(0);
    let (ok, _) = try_op(&mut w, &format!("advance {}", epoch + 1));
    if !ok {
        return "skip advance clock".to_string();
    }
    let mut closed = field(&dump(&w), "hub.batch", 0).and_then(|s| s.parse::<u64>().ok()).unwrap_or(0) > batch_before;
    if !closed {
        if b > 1 {
            let (ok, why) = try_op(&mut w, &format!("cw {} {} send hub 1 unbond", tok, a));
            if !ok {
                return format!("err close{} {}", if idle_broken { "(idle, plumbing failing)" } else { "" }, why);
            }
            closed = field(&dump(&w), "hub.batch", 0).and_then(|s| s.parse::<u64>().ok()).unwrap_or(0) > batch_before;
            if !closed {
                return "err close the unbond after the epoch period did not undelegate the batch".to_string();
            }
        } else {
            return "skip close single-unit holder".to_string();
        }
    }
    let wait = w.ut.max(unbonding) + 1;
    let (ok, _) = try_op(&mut w, &format!("advance {}", wait));
    if !ok {
        return "skip advance clock".to_string();
    }
    // worth of the matured claims as the hub itself reports it
    let wd: u128 = dump(&w)
        .iter()
        .filter_map(|l| l.strip_prefix(&format!("hub.wd {} ", a)).map(|s| s.to_string()))
        .next()
        .and_then(|s| s.parse().ok())
        .unwrap_or(0);
    // the WithdrawableUnbonded query prices matured claims at the rates BEFORE the release; if
    // fewer coins arrived than the matured batches expect (slashing of unbonding stake earlier
    // in the history) the release lowers them, so `wd` is no lower bound then.  Without a
    // shortfall each claim entry loses at most one unit to re-flooring.
    let dl = dump(&w);
    let (shortfall, entries) = release_shortfall(&dl, a, w.now, unbonding);
    let (ok, why) = try_op(&mut w, &format!("hub {} withdraw", a));
    if ok {
        "ok withdraw -".to_string()
    } else if shortfall || wd < 2 * entries + 1 {
        format!("skip withdraw wd={} entries={} shortfall={} {}", wd, entries, shortfall, why)
    } else if wd == 0 {
        format!("skip withdraw claim worth nothing: {}", why)
    } else {
        format!("err withdraw wd={} {}", wd, why)
    }
}

pub fn run<W: Write>(text: &str, stride: u64, out: &mut W) -> Result<(), String> {
    let mut ops: Vec<Op> = vec![];
    for (ln, line) in text.lines().enumerate() {
        if is_blank(line) {
            continue;
        }
        ops.push(parse_op(line).map_err(|e| format!("line {}: {}", ln + 1, e))?);
    }
    let mut world = World::new(0);
    let mut index: u64 = 0;
    for (k, op) in ops.iter().enumerate() {
        if op.is_reset() {
            index = 0;
            writeln!(out, "history").map_err(|e| e.to_string())?;
        }
        apply_op(&mut world, op);
        let lines = dump(&world);
        let hub_ok = !lines.iter().any(|l| l == "hub.none");
        if hub_ok && (k as u64) % stride.max(1) == 0 {
            let epoch: u64 = field(&lines, "hub.params", 0).and_then(|s| s.parse().ok()).unwrap_or(0);
            let unbonding: u64 = field(&lines, "hub.params", 2).and_then(|s| s.parse().ok()).unwrap_or(0);
            for tok in ["bsei", "stsei"] {
                let hs = holders(&lines, tok);
                for (a, b) in hs.iter() {
                    let mut amts = vec![*b];
                    if *b > 1 {
                        amts.push(1);
                    }
                    for amt in amts {
                        let mut w = world.clone();
                        let (ok, why) = try_op(&mut w, &format!("cw {} {} send hub {} unbond", tok, a, amt));
                        writeln!(out, "probe {} unbond {} {} {} {} {}", index, tok, a, amt, if ok { "ok" } else { "err" }, why)
                            .map_err(|e| e.to_string())?;
                    }
                }
                for (n, (a, b)) in hs.iter().take(4).enumerate() {
                    if a == "hub" || epoch > 10_000_000 || unbonding > 10_000_000 {
                        continue;
                    }
                    let v = exit_probe(&world, tok, a, *b, epoch, unbonding, false);
                    writeln!(out, "probe {} exit {} {} {}", index, tok, a, v).map_err(|e| e.to_string())?;
                    // the same exit after more than a day without any index update and with the swap and
                    // oracle contracts failing (first holder of each token only)
                    if n == 0 {
                        let v = exit_probe(&world, tok, a, *b, epoch, unbonding, true);
                        writeln!(out, "probe {} exit {} {} {}", index, tok, a, v).map_err(|e| e.to_string())?;
                    }
                }
            }
        }
        // stub independence of the next operation
        if let Some(next) = ops.get(k + 1) {
            if !next.is_reset() && is_exit_class(next) {
                let mut base = world.clone();
                let r0 = apply_op(&mut base, next);
                let d0 = dump_no_env(&base);
                let mut verdict = String::from("ok -");
                let pats: [(SwapMode, OracleMode, u128); 5] = [
                    (SwapMode::Fail, OracleMode::Ok, world.price),
                    (SwapMode::Garbage, OracleMode::Ok, world.price),
                    (SwapMode::Ok, OracleMode::Fail, world.price),
                    (SwapMode::Fail, OracleMode::Zero, world.price),
                    (SwapMode::Ok, OracleMode::Ok, world.price.saturating_mul(1000).max(7)),
                ];
                for (sm, om, p) in pats.iter() {
                    let mut w = world.clone();
                    w.swapmode = *sm;
                    w.oraclemode = *om;
                    w.price = *p;
                    let r = apply_op(&mut w, next);
                    if r.ok != r0.ok || r.trace != r0.trace {
                        verdict = format!("diff outcome under swap={} oracle={} price={} :: {}", sm.as_str(), om.as_str(), p, next.to_line());
                        break;
                    }
                    let d = dump_no_env(&w);
                    if d != d0 {
                        let first = d.iter().zip(d0.iter()).find(|(a, b)| a != b).map(|(a, b)| format!("{} / {}", a, b)).unwrap_or_default();
                        verdict = format!("diff state under swap={} oracle={} price={} :: {} :: {}", sm.as_str(), om.as_str(), p, next.to_line(), first);
                        break;
                    }
                }
                writeln!(out, "probe {} stub {}", index, verdict).map_err(|e| e.to_string())?;
            }
        }
        index += 1;
    }
    Ok(())
}
