"""Executable property monitors: the properties written as predicates over what the
IMPLEMENTATION did (kernel output lines, observation dumps of the Rust mini-chain).  They are the
violation search; nothing they return is ever reported as proved."""
import re

U128MAX = (1 << 128) - 1
D = 10 ** 18


def parse_list(s):
    s = s.strip()
    assert s[0] == '[' and s[-1] == ']', s
    inner = s[1:-1]
    return [int(x) for x in inner.split(',')] if inner else []


# ---------------------------------------------------------------- C12 kernels
def c12_deleg(line):
    args, res = line.split(' => ')
    a, l = args.split(' ')
    A = int(a)
    ds = parse_list(l)
    T = sum(ds) + A
    if res == 'err':
        if ds and T <= U128MAX:
            return 'calculate_delegations failed on a non-empty list within the u128 range'
        return None
    if not ds or T > U128MAX:
        return 'calculate_delegations succeeded where it must fail'
    r, xl = res.split(' ')
    xs = parse_list(xl)
    n = len(ds)
    if int(r) != 0:
        return 'delegation plan leaves %s coins undistributed' % r
    if len(xs) != n or sum(xs) != A:
        return 'delegation plan sums to %d, expected %d' % (sum(xs), A)
    for i, (d, x) in enumerate(zip(ds, xs)):
        t = T // n + (1 if i + 1 <= T % n else 0)
        if d > t and x != 0:
            return 'validator %d above the even share received %d' % (i, x)
        if x > 0 and d + x > t:
            return 'validator %d lifted above its even share (%d + %d > %d)' % (i, d, x, t)
    return None


def c12_undeleg(line):
    args, res = line.split(' => ')
    u, l = args.split(' ')
    U = int(u)
    ds = parse_list(l)
    S = sum(ds)
    if res == 'err':
        if ds and U <= S and S <= U128MAX:
            return 'calculate_undelegations failed on a satisfiable request'
        return None
    if not ds or U > S or S > U128MAX:
        return 'calculate_undelegations succeeded where it must fail'
    ys = parse_list(res)
    n = len(ds)
    if len(ys) != n or sum(ys) != U:
        return 'undelegation plan sums to %d, expected %d' % (sum(ys), U)
    fl = (S - U) // n
    for i, (d, y) in enumerate(zip(ds, ys)):
        if y > d:
            return 'validator %d: undelegating %d of %d' % (i, y, d)
        if y > 0 and d - y < fl:
            return 'validator %d pushed below the even share (%d - %d < %d)' % (i, d, y, fl)
    return None


KERNEL_MONITORS = {
    ('C12', 'deleg'): c12_deleg,
    ('C12', 'undeleg'): c12_undeleg,
}

# ---------------------------------------------------------------- history monitors
# signature: mon(hstate, prev_state, op_text, ok, trace_lines, cur_state, known) -> None
#            | ('violation', message) | ('known', finding_id, description)
HISTORY_MONITORS = {}
