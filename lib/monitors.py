"""Executable property monitors: the properties written as predicates over what the
IMPLEMENTATION did (kernel output lines, observation dumps of the Rust mini-chain).  They are the
violation search; nothing they return is ever reported as proved."""
import re

U128MAX = (1 << 128) - 1
D = 10 ** 18


def parse_list(s):
    s = s.strip()
    assert s[0] == '[' and s[-1] == ']', s
    inner = s[1:-1]
    return [int(x) for x in inner.split(',')] if inner else []


# ---------------------------------------------------------------- C12 kernels
def c12_deleg(line):
    args, res = line.split(' => ')
    a, l = args.split(' ')
    A = int(a)
    ds = parse_list(l)
    T = sum(ds) + A
    if res == 'err':
        if ds and T <= U128MAX:
            return 'calculate_delegations failed on a non-empty list within the u128 range'
        return None
    if not ds or T > U128MAX:
        return 'calculate_delegations succeeded where it must fail'
    r, xl = res.split(' ')
    xs = parse_list(xl)
    n = len(ds)
    if int(r) != 0:
        return 'delegation plan leaves %s coins undistributed' % r
    if len(xs) != n or sum(xs) != A:
        return 'delegation plan sums to %d, expected %d' % (sum(xs), A)
    for i, (d, x) in enumerate(zip(ds, xs)):
        t = T // n + (1 if i + 1 <= T % n else 0)
        if d > t and x != 0:
            return 'validator %d above the even share received %d' % (i, x)
        if x > 0 and d + x > t:
            return 'validator %d lifted above its even share (%d + %d > %d)' % (i, d, x, t)
    return None


def c12_undeleg(line):
    args, res = line.split(' => ')
    u, l = args.split(' ')
    U = int(u)
    ds = parse_list(l)
    S = sum(ds)
    if res == 'err':
        if ds and U <= S and S <= U128MAX:
            return 'calculate_undelegations failed on a satisfiable request'
        return None
    if not ds or U > S or S > U128MAX:
        return 'calculate_undelegations succeeded where it must fail'
    ys = parse_list(res)
    n = len(ds)
    if len(ys) != n or sum(ys) != U:
        return 'undelegation plan sums to %d, expected %d' % (sum(ys), U)
    fl = (S - U) // n
    for i, (d, y) in enumerate(zip(ds, ys)):
        if y > d:
            return 'validator %d: undelegating %d of %d' % (i, y, d)
        if y > 0 and d - y < fl:
            return 'validator %d pushed below the even share (%d - %d < %d)' % (i, d, y, fl)
    return None


def c17_swapinfo(line):
    args, res = line.split(' => ')
    stb, bb, rst, rb, xb2st, xst2b = [int(x) for x in args.split(' ')]
    if res == 'err':
        return None
    od, oa, ask = res.split(' ')
    oa = int(oa)
    conv = rb * xb2st // D
    total = rst + conv
    if stb + bb == 0:
        return 'get_swap_info succeeded with nothing bonded'
    share = total * stb // (stb + bb)
    if od == 'usei':
        if ask != 'uusd':
            return 'selling usei but not asking uusd'
        if oa > rst:
            return 'offers %d usei but holds %d' % (oa, rst)
        if rst - oa != share:
            return 'stSei-side balance after selling is %d, share is %d' % (rst - oa, share)
    else:
        if ask != 'usei':
            return 'selling uusd but not asking usei'
        if xb2st * xst2b <= D * D and oa > rb:
            return 'offers %d uusd but holds %d' % (oa, rb)
        buy = share - rst
        if oa != buy * xst2b // D:
            return 'offered %d, expected floor(buy x price) = %d' % (oa, buy * xst2b // D)
    return None


KERNEL_MONITORS = {
    ('C17', 'swapinfo'): c17_swapinfo,
    ('C12', 'deleg'): c12_deleg,
    ('C12', 'undeleg'): c12_undeleg,
}

# ---------------------------------------------------------------- history monitors
# signature: mon(hstate, prev_state, op_text, ok, trace_lines, cur_state, known) -> None
#            | ('violation', message) | ('known', finding_id, description)


def _coins(s):
    if s == '-':
        return []
    out = []
    for c in s.split(','):
        d, a = c.split(':')
        out.append((d, int(a)))
    return out


def mon_c17(hs, prev, op, ok, trace, cur, known):
    """dispatch conservation and fee bound on every executed DispatchRewards; keeper rate <= 1"""
    cfg = cur.one('dp.cfg')
    if cfg is not None:
        rate = int(cfg[6])
        if rate > D:
            return ('violation', 'dispatcher keeper rate %d exceeds 1' % rate)
    if not ok or prev is None:
        return None
    pcfg = prev.one('dp.cfg')
    if pcfg is None:
        return None
    for i, ln in enumerate(trace):
        t = ln.split(' ')
        if t[1] == 'wasm' and t[3] == 'disp' and t[4] == 'dispatch_rewards':
            # messages emitted by the dispatcher until the trace leaves its subtree: direct children are
            # bank sends from disp and wasm disp->hub bond_rewards / disp->reward update_global_index
            sent = {}
            zero = False
            for ln2 in trace[i + 1:]:
                u = ln2.split(' ')
                if u[1] == 'bank' and u[2] == 'disp':
                    for d, a in _coins(u[4]):
                        sent[d] = sent.get(d, 0) + a
                        zero = zero or a == 0
                elif u[1] == 'wasm' and u[2] == 'disp' and u[4] == 'bond_rewards':
                    for d, a in _coins(u[5]):
                        sent[d] = sent.get(d, 0) + a
                        zero = zero or a == 0
            if zero:
                return ('violation', 'dispatcher emitted a zero-coin transfer that executed')
            std, bd = pcfg[3], pcfg[4]
            for d in (std, bd):
                after = 0
                for b in cur.all('bank'):
                    if b[0] == 'disp' and b[1] == d:
                        after = int(b[2])
                if after != 0:
                    return ('violation', 'dispatcher still holds %d %s after DispatchRewards' % (after, d))
    return None


HISTORY_MONITORS = {
    'C17': [mon_c17],
}
