"""Executable property monitors: the properties written as predicates over what the
IMPLEMENTATION did (kernel output lines, observation dumps of the Rust mini-chain).  They are the
violation search; nothing they return is ever reported as proved."""
import re

U128MAX = (1 << 128) - 1
D = 10 ** 18


def parse_list(s):
    s = s.strip()
    assert s[0] == '[' and s[-1] == ']', s
    inner = s[1:-1]
    return [int(x) for x in inner.split(',')] if inner else []


# ---------------------------------------------------------------- C12 kernels
def c12_deleg(line):
    args, res = line.split(' => ')
    a, l = args.split(' ')
    A = int(a)
    ds = parse_list(l)
    T = sum(ds) + A
    if res == 'err':
        if ds and T <= U128MAX:
            return 'calculate_delegations failed on a non-empty list within the u128 range'
        return None
    if not ds or T > U128MAX:
        return 'calculate_delegations succeeded where it must fail'
    r, xl = res.split(' ')
    xs = parse_list(xl)
    n = len(ds)
    if int(r) != 0:
        return 'delegation plan leaves %s coins undistributed' % r
    if len(xs) != n or sum(xs) != A:
        return 'delegation plan sums to %d, expected %d' % (sum(xs), A)
    for i, (d, x) in enumerate(zip(ds, xs)):
        t = T // n + (1 if i + 1 <= T % n else 0)
        if d > t and x != 0:
            return 'validator %d above the even share received %d' % (i, x)
        if x > 0 and d + x > t:
            return 'validator %d lifted above its even share (%d + %d > %d)' % (i, d, x, t)
    return None


def c12_undeleg(line):
    args, res = line.split(' => ')
    u, l = args.split(' ')
    U = int(u)
    ds = parse_list(l)
    S = sum(ds)
    if res == 'err':
        if ds and U <= S and S <= U128MAX:
            return 'calculate_undelegations failed on a satisfiable request'
        return None
    if not ds or U > S or S > U128MAX:
        return 'calculate_undelegations succeeded where it must fail'
    ys = parse_list(res)
    n = len(ds)
    if len(ys) != n or sum(ys) != U:
        return 'undelegation plan sums to %d, expected %d' % (sum(ys), U)
    fl = (S - U) // n
    for i, (d, y) in enumerate(zip(ds, ys)):
        if y > d:
            return 'validator %d: undelegating %d of %d' % (i, y, d)
        if y > 0 and d - y < fl:
            return 'validator %d pushed below the even share (%d - %d < %d)' % (i, d, y, fl)
    return None


def c17_swapinfo(line):
    args, res = line.split(' => ')
    stb, bb, rst, rb, xb2st, xst2b = [int(x) for x in args.split(' ')]
    if res == 'err':
        # P12a: get_swap_info fails only where its checked arithmetic must: nothing bonded (division by
        # zero), the bonded sum / the rewards total / the offered amount outside u128
        conv_ = rb * xb2st // D
        if stb + bb == 0 or stb + bb > U128MAX or conv_ > U128MAX or rst + conv_ > U128MAX:
            return None
        share_ = (rst + conv_) * stb // (stb + bb)
        if rst <= share_ and (share_ - rst) * xst2b // D > U128MAX:
            return None
        return 'get_swap_info failed although %d + %d is bonded and every intermediate value fits u128' % (stb, bb)
    od, oa, ask = res.split(' ')
    oa = int(oa)
    conv = rb * xb2st // D
    total = rst + conv
    if stb + bb == 0:
        return 'get_swap_info succeeded with nothing bonded'
    share = total * stb // (stb + bb)
    if od == 'usei':
        if ask != 'uusd':
            return 'selling usei but not asking uusd'
        if oa > rst:
            return 'offers %d usei but holds %d' % (oa, rst)
        if rst - oa != share:
            return 'stSei-side balance after selling is %d, share is %d' % (rst - oa, share)
    else:
        if ask != 'usei':
            return 'selling uusd but not asking usei'
        if xb2st * xst2b <= D * D and oa > rb:
            return 'offers %d uusd but holds %d' % (oa, rb)
        buy = share - rst
        if oa != buy * xst2b // D:
            return 'offered %d, expected floor(buy x price) = %d' % (oa, buy * xst2b // D)
    return None


def c14_drewards(line):
    """calculate_decimal_rewards(global, user, balance) = (global - user) x balance, exactly (atomics);
    it fails only when user > global or a Decimal (u128 atomics) overflows"""
    args, res = line.split(' => ')
    g, u, b = [int(x) for x in args.split(' ')]
    if g < u:
        return None if res == 'err' else 'calculate_decimal_rewards returned %s although the holder index %d is above the global index %d' % (res, u, g)
    want = (g - u) * b
    if res == 'err':
        if b * D < (1 << 127) and want < (1 << 127):
            return 'calculate_decimal_rewards failed on (global %d, user %d, balance %d): every intermediate value fits' % (g, u, b)
        return None
    if int(res) != want:
        return 'calculate_decimal_rewards(global %d, user %d, balance %d) = %s, (global - user) x balance = %d' % (g, u, b, res, want)
    return None


KERNEL_MONITORS = {
    ('C14', 'drewards'): c14_drewards,
    ('C15', 'drewards'): c14_drewards,
    ('C19', 'drewards'): c14_drewards,
    ('C17', 'swapinfo'): c17_swapinfo,
    ('C12', 'deleg'): c12_deleg,
    ('C12', 'undeleg'): c12_undeleg,
}

# ---------------------------------------------------------------- history monitors
# signature: mon(hstate, prev_state, op_text, ok, trace_lines, cur_state, known) -> None
#            | ('violation', message) | ('known', finding_id, description)


def _coins(s):
    if s == '-':
        return []
    out = []
    for c in s.split(','):
        d, a = c.split(':')
        out.append((d, int(a)))
    return out


def mon_c17(hs, prev, op, ok, trace, cur, known):
    """dispatch conservation and fee bound on every executed DispatchRewards; keeper rate <= 1"""
    cfg = cur.one('dp.cfg')
    if cfg is not None:
        rate = int(cfg[6])
        if rate > D:
            return ('violation', 'dispatcher keeper rate %d exceeds 1' % rate)
    if not ok or prev is None:
        return None
    pcfg = prev.one('dp.cfg')
    if pcfg is None:
        return None
    for i, ln in enumerate(trace):
        t = ln.split(' ')
        if t[1] == 'wasm' and t[3] == 'disp' and t[4] == 'dispatch_rewards':
            # messages emitted by the dispatcher until the trace leaves its subtree: direct children are
            # bank sends from disp and wasm disp->hub bond_rewards / disp->reward update_global_index
            sent = {}
            zero = False
            for ln2 in trace[i + 1:]:
                u = ln2.split(' ')
                if u[1] == 'bank' and u[2] == 'disp':
                    for d, a in _coins(u[4]):
                        sent[d] = sent.get(d, 0) + a
                        zero = zero or a == 0
                elif u[1] == 'wasm' and u[2] == 'disp' and u[4] == 'bond_rewards':
                    for d, a in _coins(u[5]):
                        sent[d] = sent.get(d, 0) + a
                        zero = zero or a == 0
            if zero:
                return ('violation', 'dispatcher emitted a zero-coin transfer that executed')
            std, bd = pcfg[3], pcfg[4]
            # what may legitimately arrive AFTER the dispatch: the distribution module pays the pending
            # rewards of a validator to the withdraw address (the dispatcher) when BondRewards delegates
            # to it, unless they were withdrawn earlier in the transaction
            withdrawn = set(u.split(' ')[3] for u in trace[:i] if u.startswith('m withdraw hub '))
            delegated = set(u.split(' ')[3] for u in trace[i + 1:] if u.startswith('m delegate hub '))
            wd = {x[0]: x[1] for x in prev.all('wdaddr')}
            for d in (std, bd):
                late = 0
                if wd.get('hub') == 'disp':
                    for x in prev.all('pend'):
                        if x[0] == 'hub' and x[2] == d and x[1] in delegated and x[1] not in withdrawn:
                            late += int(x[3])
                after = 0
                for b in cur.all('bank'):
                    if b[0] == 'disp' and b[1] == d:
                        after = int(b[2])
                if after != late:
                    return ('violation', 'dispatcher holds %d %s after DispatchRewards (%d arrived afterwards from the distribution module)' % (after, d, late))
    return None


def mon_c17_keeper(hs, prev, op, ok, trace, cur, known):
    """P17a: on every executed DispatchRewards the keeper receives exactly floor(balance x krp_keeper_rate) of
    each of the two reward coins, the remainder of the bSei-side coin goes to the bSei reward contract
    (followed by its index update), the remainder of the stSei-side coin is re-bonded at the hub; nobody
    else is paid.  (What the dispatcher held of a coin when it was called is the sum of what it sent of it:
    coins arriving later in the transaction are not re-sent, a zero send fails the transaction - F2.)"""
    if not ok or prev is None:
        return None
    pcfg = prev.one('dp.cfg')
    if pcfg is None:
        return None
    tl = [ln.split(' ') for ln in trace]
    at = [i for i, u in enumerate(tl) if u[1] == 'wasm' and u[3] == 'disp' and u[4] == 'dispatch_rewards']
    if len(at) != 1:
        return None
    i = at[0]
    H, R, std, bd, K, rate = pcfg[1], pcfg[2], pcfg[3], pcfg[4], pcfg[5], int(pcfg[6])
    # outside the trusted configuration: one coin for both sides, or the keeper is a protocol account whose
    # receipts could not be told from the other payments
    if std == bd or K in (R, H, 'disp') or R == 'disp':
        return None
    kb = rb_ = ks = re_ = 0
    last_to_r = None
    ugi = []
    for j in range(i + 1, len(tl)):
        u = tl[j]
        if u[1] == 'bank' and u[2] == 'disp':
            if u[3] not in (K, R):
                return ('violation', 'DispatchRewards paid %s to %s, which is neither the keeper %s nor the bSei reward contract %s'
                        % (u[4], u[3], K, R))
            for d, a in _coins(u[4]):
                if d not in (std, bd):
                    return ('violation', 'DispatchRewards sent %d %s; the reward coins are %s and %s' % (a, d, std, bd))
                if u[3] == R:
                    if d == std:
                        return ('violation', 'DispatchRewards sent %d %s (the stSei-side coin, to be re-bonded) to the bSei reward contract' % (a, d))
                    rb_ += a
                    last_to_r = j
                elif d == bd:
                    kb += a
                else:
                    ks += a
        elif u[1] == 'wasm' and u[2] == 'disp' and u[4] == 'bond_rewards':
            if u[3] != H:
                return ('violation', 'DispatchRewards re-bonded at %s, the hub is %s' % (u[3], H))
            for d, a in _coins(u[5]):
                if d != std:
                    return ('violation', 'DispatchRewards re-bonded %d %s; the stSei-side coin is %s' % (a, d, std))
                re_ += a
        elif u[1] == 'wasm' and u[2] == 'disp' and u[4] == 'update_global_index':
            ugi.append((j, u[3]))
    if kb + rb_ > 0 and kb != (kb + rb_) * rate // D:
        return ('violation', 'DispatchRewards held %d %s: the keeper received %d, floor(balance x keeper rate %d) = %d (reward contract received %d)'
                % (kb + rb_, bd, kb, rate, (kb + rb_) * rate // D, rb_))
    if ks + re_ > 0 and ks != (ks + re_) * rate // D:
        return ('violation', 'DispatchRewards held %d %s: the keeper received %d, floor(balance x keeper rate %d) = %d (%d re-bonded)'
                % (ks + re_, std, ks, rate, (ks + re_) * rate // D, re_))
    if len(ugi) != 1 or ugi[0][1] != R:
        return ('violation', 'DispatchRewards sent %d UpdateGlobalIndex messages (to %s); exactly one goes to the bSei reward contract %s'
                % (len(ugi), ','.join(x[1] for x in ugi) or '-', R))
    if last_to_r is not None and ugi[0][0] < last_to_r:
        return ('violation', 'DispatchRewards updated the reward index before the rewards were delivered to %s' % R)
    return None


def mon_c17_share(hs, prev, op, ok, trace, cur, known):
    """C17, first sentence, on every executed UpdateGlobalIndex (hub -> dispatcher SwapToRewardDenom followed
    by DispatchRewards) with working stubs: what the dispatcher then holds of the stSei-side coin - which
    is exactly what DispatchRewards sends out in that coin - equals total rewards x stSei bonded / total
    bonded at the oracle price, within the rounding of one unit of the sold coin"""
    if not ok or prev is None:
        return None
    env = prev.one('env')
    pcfg = prev.one('dp.cfg')
    st = prev.one('hub.stored')
    if env is None or pcfg is None or st is None or env[2] != 'ok' or env[3] != 'ok':
        return None
    std, bd = pcfg[3], pcfg[4]
    if (std, bd) != ('usei', 'uusd') or pcfg[1] != 'hub':
        return None
    # E4: the dispatcher swaps through the stub contracts and both reward coins are among its swap denoms
    if pcfg[7] != 'swap' or pcfg[8] != 'oracle' or 'usei' not in pcfg[10:] or 'uusd' not in pcfg[10:]:
        return None
    tl = [ln.split(' ') for ln in trace]
    isw = next((i for i, u in enumerate(tl) if u[1] == 'wasm' and u[2] == 'hub' and u[3] == 'disp' and u[4] == 'swap_to_reward_denom'), None)
    if isw is None:
        return None
    idp = next((i for i, u in enumerate(tl) if i > isw and u[1] == 'wasm' and u[2] == 'hub' and u[3] == 'disp' and u[4] == 'dispatch_rewards'), None)
    if idp is None:
        return None
    # the offered coin must be covered by what the dispatcher held when it asked for the swap
    held = {}
    for b in prev.all('bank'):
        if b[0] == 'disp':
            held[b[1]] = int(b[2])
    wd = {x[0]: x[1] for x in prev.all('wdaddr')}
    if wd.get('hub') == 'disp':
        wdr = set(u[3] for u in tl[:isw] if u[1] == 'withdraw' and u[2] == 'hub')
        for x in prev.all('pend'):
            if x[0] == 'hub' and x[1] in wdr:
                held[x[2]] = held.get(x[2], 0) + int(x[3])
    P = int(env[1])
    q = 10 ** 36 // P                      # usei per uusd, 18-decimal atomics
    out = {'usei': 0, 'uusd': 0}
    for u in tl[idp + 1:]:
        if u[1] == 'bank' and u[2] == 'disp':
            for d, a in _coins(u[4]):
                if d in out:
                    out[d] += a
        elif u[1] == 'wasm' and u[2] == 'disp' and u[4] == 'bond_rewards':
            for d, a in _coins(u[5]):
                if d in out:
                    out[d] += a
    bb, bst = int(st[2]), int(st[3])
    if bb + bst == 0:
        return None
    total_usei = out['usei'] + out['uusd'] * q // D
    # | out_usei - total * bst / (bb + bst) | <= tol, in integers
    tol = 4 + 2 * (q // D + 1) + 2 * (P // D + 1)
    lhs = out['usei'] * (bb + bst)
    rhs = total_usei * bst
    if abs(lhs - rhs) > tol * (bb + bst):
        return ('violation', 'after the swap the stSei-side share is %d usei of rewards worth %d usei in total; stSei bonded %d of %d bonded '
                'gives %d (price %d)' % (out['usei'], total_usei, bst, bb + bst, rhs // (bb + bst), P))
    return None


def mon_cfg_stored(hs, prev, op, ok, trace, cur, known):
    """an ACCEPTED configuration update stores every field it carries (the designated principals and the
    rates the properties speak about are the configured ones): hub UpdateConfig, dispatcher UpdateConfig,
    reward UpdateConfig, registry UpdateConfig"""
    if not ok or prev is None:
        return None
    t = op.split(' ')
    if len(t) < 3 or t[2] != 'config':
        return None
    if t[0] == 'hub':
        cc = cur.one('hub.cfg')
        m = {3: 2, 4: 3, 5: 4, 6: 5, 7: 6, 8: 7, 9: 1}     # op field -> hub.cfg field
    elif t[0] == 'disp':
        cc = cur.one('dp.cfg')
        m = {3: 1, 4: 2, 6: 4, 7: 5, 8: 6}                  # (the stSei denom is immutable: field 5 -> 3 is not stored)
    elif t[0] == 'reward':
        cc = cur.one('rw.cfg')
        m = {3: 1, 4: 2, 5: 3}
    elif t[0] == 'reg':
        cc = cur.one('rg.cfg')
        m = {3: 1}
    else:
        return None
    if cc is None:
        return None
    for oi, di in m.items():
        if oi < len(t) and t[oi] != '-' and di < len(cc) and cc[di] != t[oi]:
            return ('violation', '%s UpdateConfig was accepted but field #%d is stored as %s, the message carried %s '
                    '(a later field of the same message overwrote it, or it was dropped)' % (t[0], oi - 2, cc[di], t[oi]))
    return None


TX_HEADS = ('hub', 'cw', 'reward', 'disp', 'reg', 'bond')


def is_tx(op):
    return op.split(' ', 1)[0] in TX_HEADS


def mon_rejected_unchanged(hs, prev, op, ok, trace, cur, known):
    """a rejected transaction changes nothing (every observation line is equal)"""
    if prev is None or ok or not is_tx(op):
        return None
    if prev.lines != cur.lines:
        for a, b in zip(prev.lines, cur.lines):
            if a != b:
                return ('violation', 'rejected transaction changed the state: %r -> %r' % (a, b))
        return ('violation', 'rejected transaction changed the number of observation lines')
    return None


def _cfg(st, key, idx):
    v = st.one(key)
    return v[idx] if v is not None and idx < len(v) else None


def mon_c10(hs, prev, op, ok, trace, cur, known):
    """every accepted privileged message was sent by its designated principal (read from the
    configuration stored BEFORE the transaction); token addresses never change once set"""
    t = op.split(' ')
    if t[0] == 'inst_stsei' and ok:
        hs['stsei_hub'] = t[2]
    if t[0] == 'inst_bsei' and ok:
        hs['bsei_hub'] = t[2]
    for nm_, key_ in (('inst_hub', 'hub'), ('inst_reward', 'reward'), ('inst_disp', 'disp'), ('inst_reg', 'reg')):
        if t[0] == nm_:
            if ok:
                hs.setdefault('nominee', {})[key_] = t[1]
            else:
                hs.setdefault('nominee', {}).pop(key_, None)
    if prev is None:
        return None
    # token address immutability across every non-instantiate operation
    if not t[0].startswith('inst_') and t[0] != 'reset':
        for idx, nm in ((4, 'bsei'), (5, 'stsei')):
            a, b = _cfg(prev, 'hub.cfg', idx), _cfg(cur, 'hub.cfg', idx)
            if a not in (None, '-') and b is not None and a != b:
                return ('violation', 'hub %s token address changed from %s to %s' % (nm, a, b))
    if not ok or not is_tx(op):
        return None
    # two-step ownership: an accepted nomination makes exactly the nominated address the nominee,
    # an accepted AcceptOwnership makes exactly the previous nominee the owner
    own = {'hub': ('hub.newowner', 'hub.cfg'), 'reward': ('rw.newowner', 'rw.cfg'),
           'disp': ('dp.newowner', 'dp.cfg'), 'reg': ('rg.newowner', 'rg.cfg')}
    if t[0] in own and len(t) > 2:
        nk, ck = own[t[0]]
        if t[2] == 'setowner' and _cfg(cur, nk, 0) != t[3]:
            return ('violation', '%s: SetOwner{%s} accepted but the stored nominee is %s (an abandoned nominee could still accept)'
                    % (t[0], t[3], _cfg(cur, nk, 0)))
        if t[2] == 'accept' and _cfg(cur, ck, 0) != _cfg(prev, nk, 0):
            return ('violation', '%s: AcceptOwnership accepted but the owner is %s, nominee was %s'
                    % (t[0], _cfg(cur, ck, 0), _cfg(prev, nk, 0)))
    # ghost: the address most recently nominated (by an accepted SetOwner; the instantiator at
    # instantiation). Only that address may accept - whatever the contract's own slot says by now
    # (an outgoing owner must not be able to take the contract back after the hand-over)
    if t[0] in own and len(t) > 2 and t[2] == 'accept':
        g = hs.get('nominee', {}).get(t[0])
        if g is not None and t[1] != g:
            return ('violation', '%s: AcceptOwnership accepted from %s; the last address nominated was %s' % (t[0], t[1], g))
    if t[0] in own and len(t) > 3 and t[2] == 'setowner':
        hs.setdefault('nominee', {})[t[0]] = t[3]
    exp = None   # set of allowed senders
    sender = None
    if t[0] == 'bond':
        sender = t[2]
        if t[1] == 'rw':
            exp = {_cfg(prev, 'hub.cfg', 2)}
    elif t[0] == 'hub':
        sender, verb = t[1], t[2]
        owner = _cfg(prev, 'hub.cfg', 0)
        if verb in ('params', 'config', 'setowner'):
            exp = {owner}
        elif verb == 'accept':
            exp = {_cfg(prev, 'hub.newowner', 0)}
        elif verb == 'redelproxy':
            exp = {_cfg(prev, 'hub.cfg', 3)}
        elif verb == 'updateglobal':
            exp = {_cfg(prev, 'hub.cfg', 1), _cfg(prev, 'hub.cfg', 3)}
        elif verb == 'swaphook':
            exp = {'hub'}
        elif verb == 'claimairdrop':
            exp = {_cfg(prev, 'hub.cfg', 6)}
        elif verb == 'receive':
            exp = {_cfg(prev, 'hub.cfg', 4), _cfg(prev, 'hub.cfg', 5)}
    elif t[0] == 'disp':
        sender, verb = t[1], t[2]
        if verb in ('swap', 'dispatch'):
            exp = {_cfg(prev, 'dp.cfg', 1)}
        elif verb == 'accept':
            exp = {_cfg(prev, 'dp.newowner', 0)}
        else:
            exp = {_cfg(prev, 'dp.cfg', 0)}
    elif t[0] == 'reward':
        sender, verb = t[1], t[2]
        if verb in ('config', 'setowner', 'swapdenom'):
            exp = {_cfg(prev, 'rw.cfg', 0)}
        elif verb == 'accept':
            exp = {_cfg(prev, 'rw.newowner', 0)}
        elif verb in ('swap', 'updateindex'):
            exp = {_cfg(prev, 'hub.cfg', 2)} if _cfg(prev, 'rw.cfg', 1) == 'hub' else set()
        elif verb in ('inc', 'dec'):
            exp = {_cfg(prev, 'hub.cfg', 4)} if _cfg(prev, 'rw.cfg', 1) == 'hub' else set()
    elif t[0] == 'reg':
        sender, verb = t[1], t[2]
        if verb in ('remove', 'config', 'setowner'):
            exp = {_cfg(prev, 'rg.cfg', 0)}
        elif verb == 'add':
            exp = {_cfg(prev, 'rg.cfg', 0), _cfg(prev, 'rg.cfg', 1)}
        elif verb == 'accept':
            exp = {_cfg(prev, 'rg.newowner', 0)}
    elif t[0] == 'cw':
        tok, sender, verb = t[1], t[2], t[3]
        if verb in ('mint', 'updminter'):
            exp = {_cfg(prev, 'tok.%s.info' % tok, 1)}
        elif verb == 'burn':
            exp = {hs.get(tok + '_hub', 'hub')}
    if exp is not None:
        exp.discard(None)
        exp.discard('-')
        if sender not in exp:
            return ('violation', 'privileged operation %r accepted from %s; designated principal(s): %s'
                    % (op, sender, sorted(exp)))
    return None


def mon_c11(hs, prev, op, ok, trace, cur, known):
    t0 = op.split(' ')
    # ghost of the legacy (pre-v2) wait list as injected by `legacy_wait` (key (address, batch), last write wins)
    if t0[0] in ('reset', 'inst_hub'):
        hs['legacy_ghost'] = {}
    if t0[0] == 'legacy_wait' and ok:
        hs.setdefault('legacy_ghost', {})[(t0[1], t0[2])] = int(t0[3])
    if prev is None:
        return None
    t = op.split(' ')
    # a migration that drains the legacy list has carried EVERY legacy claim over: each injected entry is now the
    # user's bSei claim on that batch in the v2 list (the migration writes the entry, amount for amount)
    if t[0] == 'hub' and len(t) > 2 and t[2] == 'migrate' and ok and hs.get('legacy_ghost'):
        old_ = cur.one('hub.oldwait')
        if old_ is not None and int(old_[0]) == 0:
            waits_ = cur.table('hub.wait', 2)
            for (a_, b_), amt_ in sorted(hs['legacy_ghost'].items()):
                w_ = waits_.get((a_, b_))
                if amt_ > 0 and (w_ is None or int(w_[0]) != amt_):
                    return ('violation', 'MigrateUnbondWaitList drained the legacy list but the legacy claim of %s on batch %s '
                            '(%d bSei) is %s in the new wait list' % (a_, b_, amt_, 'missing' if w_ is None else 'recorded as %s' % w_[0]))
            hs['legacy_ghost'] = {}
    pz = _cfg(prev, 'hub.params', 6)
    hub_tx = t[0] == 'bond' or t[0] == 'hub'
    if pz == '1' and hub_tx and ok:
        verb = t[2] if t[0] == 'hub' else 'bond'
        if verb not in ('params', 'migrate'):
            return ('violation', 'hub accepted %r while paused' % op)
    # P11a: ... and not only as the root message: a paused hub executes nothing but UpdateParams and
    # MigrateUnbondWaitList anywhere in a message tree (Receive behind a token send, CheckSlashing behind a
    # burn, RedelegateProxy / UpdateGlobalIndex behind the registry, BondRewards behind the dispatcher); the
    # guard fails the whole transaction, so no such line exists in a transaction that succeeded
    if pz == '1' and ok:
        for ln in trace:
            u = ln.split(' ')
            if u[1] == 'wasm' and u[3] == 'hub' and u[4] not in ('update_params', 'migrate_unbond_wait_list'):
                return ('violation', 'the paused hub executed %s (sent by %s) inside %r' % (u[4], u[2], op))
    if t[0] == 'hub' and t[2] == 'params' and ok:
        if t[1] != _cfg(prev, 'hub.cfg', 0):
            return ('violation', 'UpdateParams accepted from non-owner %s' % t[1])
        old = prev.one('hub.oldwait')
        if old and int(old[0]) > 0 and t[7] in ('-', '0'):
            return ('violation', 'hub unpaused (paused=%s) while %s legacy wait-list entries remain' % (t[7], old[0]))
    if t[0] == 'hub' and len(t) > 2 and t[2] == 'migrate' and ok:
        old = prev.one('hub.oldwait')
        # (compared as sets of lines: the state shown after the transfer of attached coins lists the two
        # accounts it touched at the end, obsparse.with_transfer, so the ORDER of the bank lines may differ)
        if (old is None or int(old[0]) == 0) and sorted(prev.lines) != sorted(cur.lines):
            gone_ = sorted(set(prev.lines) - set(cur.lines))
            new_ = sorted(set(cur.lines) - set(prev.lines))
            return ('violation', 'MigrateUnbondWaitList with no legacy entries left changed the state: %r -> %r '
                    '(anybody may send it; it must not lift a pause on its own)' % (gone_[:1], new_[:1]))
    # the migration touches the two wait lists and (on its last page) the pause flag, nothing else: pools, rates,
    # the open batch, every history entry and the configuration are exactly what they were
    if t[0] == 'hub' and len(t) > 2 and t[2] == 'migrate' and ok:
        for k_ in ('hub.stored', 'hub.batch', 'hub.hist', 'hub.cfg', 'hub.newowner'):
            if prev.all(k_) != cur.all(k_):
                a_ = [x for x in prev.all(k_) if x not in cur.all(k_)][:1]
                b_ = [x for x in cur.all(k_) if x not in prev.all(k_)][:1]
                return ('violation', 'MigrateUnbondWaitList changed %s: %s -> %s' % (k_, ' '.join(a_[0]) if a_ else '-', ' '.join(b_[0]) if b_ else '-'))
        if prev.one('hub.params')[:6] != cur.one('hub.params')[:6]:
            return ('violation', 'MigrateUnbondWaitList changed the hub parameters other than the pause flag')
    cpz = _cfg(cur, 'hub.params', 6)
    if cpz in ('0', '-') and pz == '1':
        old = cur.one('hub.oldwait')
        if old and int(old[0]) > 0:
            return ('violation', 'hub is unpaused while %s legacy wait-list entries remain' % old[0])
    # P11b: queries keep working and answer the same while paused: an UpdateParams that changes nothing but
    # the pause flag (in either direction) leaves every hub observation line - stored items and all query
    # results: State, CurrentBatch, AllHistory pages, UnbondRequests, WithdrawableUnbonded, Config - identical
    if t[0] == 'hub' and t[2] == 'params' and ok:
        php_, chp_ = prev.one('hub.params'), cur.one('hub.params')
        if php_ is not None and chp_ is not None and php_[:6] == chp_[:6] and prev.one('t') == cur.one('t'):
            skip_ = ('hub.params', 'hub.qparams')
            pl_ = [ln for ln in prev.lines if ln.startswith('hub.') and ln.split(' ', 1)[0] not in skip_]
            cl_ = [ln for ln in cur.lines if ln.startswith('hub.') and ln.split(' ', 1)[0] not in skip_]
            if pl_ != cl_:
                dif_ = next(((a_, b_) for a_, b_ in zip(pl_, cl_) if a_ != b_), None)
                if dif_ is None:
                    dif_ = ('<%d hub lines>' % len(pl_), '<%d hub lines>' % len(cl_))
                return ('violation', 'UpdateParams{paused: %s} changed a hub observation other than the parameters: %r -> %r '
                        '(a query or stored item depends on the pause flag)' % (t[7], dif_[0], dif_[1]))
    # pause / unpause cycle: claims, pool totals, batches unchanged
    keys = ('hub.stored', 'hub.batch', 'hub.hist', 'hub.wait', 'hub.cfg', 'hub.newowner')
    if t[0] == 'hub' and t[2] == 'params' and ok and t[3:] == ['-', '-', '-', '-', '1', '-']:
        hs['pause_snapshot'] = {k: prev.all(k) for k in keys}
        hs['pause_params'] = prev.one('hub.params')[:6]
    elif 'pause_snapshot' in hs:
        if t[0].startswith('inst_') or t[0] in ('reset', 'legacy_wait') or (t[0] == 'hub' and t[2] == 'migrate' and ok):
            hs.pop('pause_snapshot', None)
        elif t[0] == 'hub' and t[2] == 'params' and ok:
            snap = hs.pop('pause_snapshot')
            if t[3:7] == ['-', '-', '-', '-'] and t[8] == '-' and t[7] in ('-', '0'):
                for k in keys:
                    if snap[k] != cur.all(k):
                        return ('violation', 'pause/unpause cycle altered %s' % k)
                if hs['pause_params'] != cur.one('hub.params')[:6]:
                    return ('violation', 'pause/unpause cycle altered the parameters')
    return None


def mon_c20(hs, prev, op, ok, trace, cur, known):
    hp = cur.one('hub.params')
    if hp is not None:
        if int(hp[3]) > D:
            return ('violation', 'stored peg_recovery_fee %s exceeds 1' % hp[3])
        if int(hp[4]) > D:
            return ('violation', 'stored er_threshold %s exceeds 1' % hp[4])
    dc = cur.one('dp.cfg')
    if dc is not None and int(dc[6]) > D:
        return ('violation', 'stored krp_keeper_rate %s exceeds 1' % dc[6])
    if prev is None:
        return None
    t = op.split(' ')
    if not t[0].startswith('inst_') and t[0] != 'reset':
        a, b = _cfg(prev, 'hub.params', 1), _cfg(cur, 'hub.params', 1)
        if a is not None and b is not None and a != b:
            return ('violation', 'underlying_coin_denom changed from %s to %s' % (a, b))
        a, b = _cfg(prev, 'dp.cfg', 3), _cfg(cur, 'dp.cfg', 3)
        if a is not None and b is not None and a != b:
            return ('violation', 'stsei_reward_denom changed from %s to %s' % (a, b))
    if ok and t[0] == 'hub' and t[2] == 'params':
        php, chp = prev.one('hub.params'), cur.one('hub.params')
        # op fields: EPOCH UNBONDING PEGFEE THR PAUSED REWARD_DENOM ; dump: EPOCH UNDERLYING UNBONDING PEGFEE THR REWARD_DENOM PAUSED
        m = {3: 0, 4: 2, 5: 3, 6: 4, 8: 5}
        for oi, di in m.items():
            if t[oi] == '-' and php[di] != chp[di]:
                return ('violation', 'UpdateParams omitted field #%d but the stored value changed %s -> %s' % (oi - 2, php[di], chp[di]))
        if chp[6] != t[7]:
            return ('violation', 'pause flag stored as %s after UpdateParams{paused: %s}' % (chp[6], t[7]))
        # P20b: every field the message carries is stored (the threshold capped at 1)
        for oi, di, nm in ((3, 0, 'epoch_period'), (4, 2, 'unbonding_period'), (5, 3, 'peg_recovery_fee')):
            if t[oi] != '-' and int(chp[di]) != int(t[oi]):
                return ('violation', 'UpdateParams{%s: %s} was accepted but %s is stored' % (nm, t[oi], chp[di]))
        if t[6] != '-' and int(chp[4]) != min(int(t[6]), D):
            return ('violation', 'UpdateParams{er_threshold: %s} was accepted but %s is stored (expected min(value, 1))' % (t[6], chp[4]))
        if t[8] != '-' and chp[5] != t[8]:
            return ('violation', 'UpdateParams{reward_denom: %s} was accepted but %s is stored' % (t[8], chp[5]))
        # P20a: ... and nothing outside the parameters moves (configuration and owner slot)
        for k_ in ('hub.cfg', 'hub.newowner'):
            if prev.all(k_) != cur.all(k_):
                return ('violation', 'UpdateParams changed %s: %s -> %s' % (k_, prev.all(k_), cur.all(k_)))
    if ok and t[0] == 'disp' and t[2] == 'config':
        pd, cd = prev.one('dp.cfg'), cur.one('dp.cfg')
        m = {3: 1, 4: 2, 5: 3, 6: 4, 7: 5, 8: 6}
        for oi, di in m.items():
            if t[oi] == '-' and pd[di] != cd[di]:
                return ('violation', 'dispatcher UpdateConfig omitted a field but the stored value changed %s -> %s' % (pd[di], cd[di]))
            if t[oi] != '-' and cd[di] != t[oi]:
                return ('violation', 'dispatcher UpdateConfig{field=%s} stored %s' % (t[oi], cd[di]))
    if ok and t[0] == 'hub' and t[2] == 'config':
        pc, cc = prev.one('hub.cfg'), cur.one('hub.cfg')
        m = {3: 2, 4: 3, 5: 4, 6: 5, 7: 6, 8: 7, 9: 1}
        for oi, di in m.items():
            if t[oi] == '-' and pc[di] != cc[di]:
                return ('violation', 'hub UpdateConfig omitted a field but the stored value changed %s -> %s' % (pc[di], cc[di]))
        # P20a: the owner slot and the parameters are not part of UpdateConfig
        if pc[0] != cc[0]:
            return ('violation', 'hub UpdateConfig changed the owner %s -> %s' % (pc[0], cc[0]))
        for k_ in ('hub.params', 'hub.newowner'):
            if prev.all(k_) != cur.all(k_):
                return ('violation', 'hub UpdateConfig changed %s: %s -> %s' % (k_, prev.all(k_), cur.all(k_)))
    # P20a: the remaining configuration messages - an omitted field keeps its value, fields that are not part
    # of the message (owner, swap denoms, the other addresses) are untouched
    if ok and t[0] == 'reward' and len(t) > 5 and t[2] == 'config':
        pr_, cr_ = prev.one('rw.cfg'), cur.one('rw.cfg')
        if pr_ is not None and cr_ is not None:
            for oi, di, nm in ((3, 1, 'hub_contract'), (4, 2, 'reward_denom'), (5, 3, 'swap_contract')):
                if t[oi] == '-' and pr_[di] != cr_[di]:
                    return ('violation', 'reward UpdateConfig omitted %s but the stored value changed %s -> %s' % (nm, pr_[di], cr_[di]))
            if pr_[0] != cr_[0] or pr_[4:] != cr_[4:]:
                return ('violation', 'reward UpdateConfig changed the owner or the swap denoms: %s -> %s' % (' '.join(pr_), ' '.join(cr_)))
    if ok and t[0] == 'reg' and len(t) > 3 and t[2] == 'config':
        pg_, cg_ = prev.one('rg.cfg'), cur.one('rg.cfg')
        if pg_ is not None and cg_ is not None:
            if t[3] == '-' and pg_[1] != cg_[1]:
                return ('violation', 'registry UpdateConfig omitted hub_contract but the stored value changed %s -> %s' % (pg_[1], cg_[1]))
            if pg_[0] != cg_[0]:
                return ('violation', 'registry UpdateConfig changed the owner %s -> %s' % (pg_[0], cg_[0]))
    if ok and t[0] in ('disp', 'reward') and len(t) > 3 and t[2] in ('swapcontract', 'oracle', 'swapdenom'):
        key_ = 'dp.cfg' if t[0] == 'disp' else 'rw.cfg'
        pd_, cd_ = prev.one(key_), cur.one(key_)
        if pd_ is not None and cd_ is not None:
            nfix = 9 if t[0] == 'disp' else 4          # fields before the swap-denom count
            if t[2] == 'swapdenom' and len(t) > 4:
                if pd_[:nfix] != cd_[:nfix]:
                    return ('violation', '%s UpdateSwapDenom changed another field: %s -> %s' % (t[0], ' '.join(pd_[:nfix]), ' '.join(cd_[:nfix])))
                old_ = pd_[nfix + 1:]
                want_ = old_ + [t[3]] if t[4] == '1' else [x for x in old_ if x != t[3]]
                if cd_[nfix + 1:] != want_ or int(cd_[nfix]) != len(want_):
                    return ('violation', '%s UpdateSwapDenom{%s, is_add: %s}: swap denoms %s -> %s, expected %s'
                            % (t[0], t[3], t[4], old_, cd_[nfix + 1:], want_))
            elif t[0] == 'disp' and t[2] in ('swapcontract', 'oracle'):
                at_ = 7 if t[2] == 'swapcontract' else 8
                if cd_[at_] != t[3]:
                    return ('violation', 'dispatcher %s{%s} was accepted but %s is stored' % (t[2], t[3], cd_[at_]))
                if pd_[:at_] != cd_[:at_] or pd_[at_ + 1:] != cd_[at_ + 1:]:
                    return ('violation', 'dispatcher %s changed another field: %s -> %s' % (t[2], ' '.join(pd_), ' '.join(cd_)))
    return None


def _expired(exp, now):
    if exp == 'never':
        return False
    if exp[0] == 'h':
        return int(exp[1:]) <= now // 5
    return int(exp[1:]) <= now


def mon_c18(hs, prev, op, ok, trace, cur, known):
    for tok in ('bsei', 'stsei'):
        info = cur.one('tok.%s.info' % tok)
        if info is None:
            continue
        supply = int(info[0])
        total = sum(int(b[1]) for b in cur.all('tok.%s.bal' % tok))
        if total != supply:
            if tok == 'bsei':
                for k in known:
                    if k.get('id') == 'F4' and hs.get('bsei_dup_init'):
                        return ('known', 'F4', k.get('what', ''))
            return ('violation', '%s: balances sum to %d but total_supply is %d' % (tok, total, supply))
    t = op.split(' ')
    if t[0] == 'inst_bsei':
        rows = t[4:]
        addrs = rows[0::2]
        hs['bsei_dup_init'] = len(set(addrs)) != len(addrs)
    if t[0] == 'inst_stsei' and ok:
        hs['stsei_hub'] = t[2]
    if t[0] == 'inst_bsei' and ok:
        hs['bsei_hub'] = t[2]
    # ghost ledger of what each owner GRANTED (amount, expiration), kept by the cw20 convention: an
    # increase / decrease without `expires` keeps the current expiration of the entry; a decrease to
    # zero or below removes the entry; spending keeps the entry (also at 0) and its expiration.
    # A spend accepted although the granted allowance had expired (or was smaller) moves tokens the
    # owner never released - even if the *stored* allowance says otherwise.
    gl = hs.setdefault('grants', {})
    if t[0] in ('inst_bsei', 'inst_stsei'):
        tk = t[0][5:]
        for key in [k for k in gl if k[0] == tk]:
            del gl[key]
    if prev is None or not ok:
        return None
    # P18b: EVERY executed stSei Burn / BurnFrom and bSei BurnFrom - also the burns the hub sends while
    # unbonding and converting - makes the hub refresh its exchange rates in the same transaction
    # (one CheckSlashing per burn, sent by the token to the hub it was instantiated with) ...
    tl_ = [ln.split(' ') for ln in trace]
    burnt_ = False
    for tok_, tags_ in (('stsei', ('burn', 'burn_from')), ('bsei', ('burn_from',))):
        nb_ = sum(1 for u in tl_ if u[1] == 'wasm' and u[3] == tok_ and u[4] in tags_)
        if nb_ == 0:
            continue
        burnt_ = True
        hub_ = hs.get(tok_ + '_hub', 'hub')
        nc_ = sum(1 for u in tl_ if u[1] == 'wasm' and u[2] == tok_ and u[3] == hub_ and u[4] == 'check_slashing')
        if nc_ < nb_:
            return ('violation', '%s: %d %s executed in %r but the token sent only %d CheckSlashing to the hub %s: the exchange rates '
                    'were not refreshed after the supply changed' % (tok_, nb_, '/'.join(tags_), op, nc_, hub_))
    if burnt_ and t[0] != 'cw':
        # ... and the refresh is effective (for root cw burns this is checked below)
        import monitors2 as _M2b
        if _M2b.wired(cur, hs) and _M2b.wired(prev, hs) and _M2b.recomputes(cur):
            s_, q_ = _M2b.stored(cur), _M2b.qstate(cur)
            if s_ is not None and q_ is not None and tuple(s_[:4]) != tuple(q_[:4]):
                return ('violation', 'a token burn in %r did not leave the hub with refreshed exchange rates (stored rates/pools %s, '
                        'the State query computes %s)' % (op, list(s_[:4]), list(q_[:4])))
    if t[0] != 'cw':
        return None
    tok, sender, verb = t[1], t[2], t[3]
    ghost_msg = None
    if verb == 'incallow':
        e = gl.get((tok, sender, t[4]), [0, 'never'])
        gl[(tok, sender, t[4])] = [e[0] + int(t[5]), e[1] if t[6] == '-' else t[6]]
    elif verb == 'decallow':
        e = gl.get((tok, sender, t[4]))
        if e is not None:
            if e[0] > int(t[5]):
                gl[(tok, sender, t[4])] = [e[0] - int(t[5]), e[1] if t[6] == '-' else t[6]]
            else:
                del gl[(tok, sender, t[4])]
    elif verb in ('transferfrom', 'burnfrom', 'sendfrom'):
        amt_g = int(t[6]) if verb in ('transferfrom', 'sendfrom') else int(t[5])
        e = gl.get((tok, t[4], sender))
        now_g = int(prev.one('t')[0])
        if e is None:
            if amt_g != 0:
                ghost_msg = '%s: %s of %d by %s accepted, but %s never granted (or has withdrawn) an allowance' % (tok, verb, amt_g, sender, t[4])
        elif _expired(e[1], now_g):
            ghost_msg = '%s: %s of %d accepted at t=%d although the allowance %s granted to %s expired (%s)' % (tok, verb, amt_g, now_g, t[4], sender, e[1])
        elif amt_g > e[0]:
            ghost_msg = '%s: %s of %d exceeds what %s granted to %s (%d left)' % (tok, verb, amt_g, t[4], sender, e[0])
        else:
            e[0] -= amt_g
    if ghost_msg:
        return ('violation', ghost_msg)
    pinfo = prev.one('tok.%s.info' % tok)
    cinfo = cur.one('tok.%s.info' % tok)
    if pinfo is None or cinfo is None:
        return None
    if verb == 'mint' and sender != pinfo[1]:
        return ('violation', '%s: mint accepted from %s, minter is %s' % (tok, sender, pinfo[1]))
    if verb == 'burn' and sender != hs.get(tok + '_hub', 'hub'):
        return ('violation', '%s: burn accepted from %s' % (tok, sender))
    if verb in ('transfer', 'transferfrom', 'incallow', 'decallow') and pinfo[0] != cinfo[0]:
        return ('violation', '%s: %s changed total_supply %s -> %s' % (tok, verb, pinfo[0], cinfo[0]))
    if verb in ('transferfrom', 'burnfrom', 'sendfrom'):
        owner = t[4]
        amt = int(t[6]) if verb in ('transferfrom', 'sendfrom') else int(t[5])
        pal = prev.table('tok.%s.allow' % tok, 2).get((owner, sender))
        now = int(prev.one('t')[0])
        if pal is None:
            if amt != 0:
                return ('violation', '%s: %s of %d accepted without an allowance' % (tok, verb, amt))
            return ('violation', '%s: %s accepted without a stored allowance' % (tok, verb)) if False else None
        if _expired(pal[1], now):
            return ('violation', '%s: %s accepted on an expired allowance (%s at t=%d)' % (tok, verb, pal[1], now))
        if amt > int(pal[0]):
            return ('violation', '%s: %s of %d exceeds the allowance %s' % (tok, verb, amt, pal[0]))
        cal = cur.table('tok.%s.allow' % tok, 2).get((owner, sender))
        left = int(cal[0]) if cal is not None else 0
        if left != int(pal[0]) - amt:
            return ('violation', '%s: allowance after %s is %d, expected %d' % (tok, verb, left, int(pal[0]) - amt))
    # ---- P18a: account-level effect of every cw20 verb (exact cw20 semantics, both tokens): who is debited,
    # who is credited, nobody else moves, the supply moves by exactly the minted / burnt amount
    exp_ = {}
    dsup_ = 0
    judge_ = True
    others_ = [u for u in tl_[1:] if u[1] == 'wasm' and u[3] == tok]      # further messages to this token in the tree

    def _mv(a_, x_):
        exp_[a_] = exp_.get(a_, 0) + x_
    if verb == 'transfer':
        _mv(sender, -int(t[5])); _mv(t[4], int(t[5]))
    elif verb == 'transferfrom':
        _mv(t[4], -int(t[6])); _mv(t[5], int(t[6]))
    elif verb == 'mint':
        _mv(t[4], int(t[5])); dsup_ = int(t[5])
    elif verb == 'burn':
        _mv(sender, -int(t[4])); dsup_ = -int(t[4])
    elif verb == 'burnfrom':
        _mv(t[4], -int(t[5])); dsup_ = -int(t[5])
    elif verb in ('send', 'sendfrom'):
        owner_, target_, amt_ = (sender, t[4], int(t[5])) if verb == 'send' else (t[4], t[5], int(t[6]))
        _mv(owner_, -amt_); _mv(target_, amt_)
        if others_:
            # the receiving hub burns what it received (unbond, convert): exactly one Burn, sent by the target
            if target_ == 'hub' and len(others_) == 1 and others_[0][2] == 'hub' and others_[0][4] == 'burn':
                _mv(target_, -amt_); dsup_ = -amt_
                others_ = []
            else:
                judge_ = False
    elif verb not in ('incallow', 'decallow', 'updminter'):
        judge_ = False
    if judge_ and not others_:
        pbal_ = {x[0]: int(x[1]) for x in prev.all('tok.%s.bal' % tok)}
        cbal_ = {x[0]: int(x[1]) for x in cur.all('tok.%s.bal' % tok)}
        for a_ in sorted(set(pbal_) | set(cbal_) | set(exp_)):
            d_ = cbal_.get(a_, 0) - pbal_.get(a_, 0)
            if d_ != exp_.get(a_, 0):
                return ('violation', '%s: after %r the balance of %s moved by %d (%d -> %d), expected %d'
                        % (tok, op, a_, d_, pbal_.get(a_, 0), cbal_.get(a_, 0), exp_.get(a_, 0)))
        if int(cinfo[0]) - int(pinfo[0]) != dsup_:
            return ('violation', '%s: %r changed total_supply by %d (%s -> %s), expected %d'
                    % (tok, op, int(cinfo[0]) - int(pinfo[0]), pinfo[0], cinfo[0], dsup_))
    if (tok == 'stsei' and verb in ('burn', 'burnfrom')) or (tok == 'bsei' and verb == 'burnfrom') or burnt_:
        want = 'm wasm %s %s check_slashing -' % (tok, hs.get(tok + '_hub', 'hub'))
        if want not in trace and not burnt_:
            return ('violation', '%s %s did not make the hub refresh its exchange rates (no CheckSlashing in the transaction)' % (tok, verb))
        # ... and the refresh is effective: what the hub has stored after the transaction (rates and pools) is
        # what its State query computes from the live supplies and delegations (whatever the hub's mode)
        import monitors2 as _M2
        if _M2.wired(cur, hs) and _M2.recomputes(cur):
            s_, q_ = _M2.stored(cur), _M2.qstate(cur)
            if s_ is not None and q_ is not None and tuple(s_[:4]) != tuple(q_[:4]):
                return ('violation', '%s %s: the hub did not refresh its exchange rates in the transaction (stored rates/pools %s, '
                        'the State query computes %s)' % (tok, verb, list(s_[:4]), list(q_[:4])))
    return None


import monitors2 as M2

HISTORY_MONITORS = {
    # S6: C01 also runs the released-entry immutability clause (order independence), C02 / C03 the pool
    # attribution of payments, C05 the pricing monitor (fee never negative on the bSei -> stSei path);
    # C13's monitor judges the delegation targets of every transaction
    'C01': [M2.guarded(M2.mon_c01), M2.guarded(M2.mon_released_immutable)],
    'C02': [M2.guarded(M2.mon_c02), M2.guarded(M2.mon_pool_booking)],
    'C03': [M2.guarded(M2.mon_c03), M2.guarded(M2.mon_pool_booking)],
    'C04': [M2.guarded(M2.mon_c04)],
    'C05': [M2.guarded(M2.mon_c05), M2.guarded(M2.mon_c03)],
    'C06': [M2.guarded(M2.mon_c06), M2.guarded(M2.mon_c01)],
    'C07': [M2.guarded(M2.mon_c07)],
    'C08': [M2.guarded(M2.mon_c08), M2.guarded(M2.mon_c09_epoch)],
    'C09': [M2.guarded(M2.mon_c09), M2.guarded(M2.mon_c09_epoch), M2.guarded(M2.mon_c09_probes), M2.guarded(M2.mon_c09_withdraw)],
    'C13': [M2.guarded(M2.mon_c13)],
    'C14': [M2.guarded(M2.mon_c14)],
    # accrual is proportional to the bSei balance only if the reward contract's stake mirrors it (C16)
    'C15': [M2.guarded(M2.mon_c15), M2.guarded(M2.mon_c16)],
    'C16': [M2.guarded(M2.mon_c16)],
    'C19': [M2.guarded(M2.mon_c19), M2.guarded(mon_c17_keeper)],
    'C18': [mon_c18],
    'C10': [mon_c10, mon_cfg_stored, mon_rejected_unchanged],
    'C11': [mon_c11, mon_rejected_unchanged],
    'C17': [mon_c17, mon_c17_keeper, mon_c17_share, mon_cfg_stored, M2.guarded(M2.mon_c17_f2)],
    'C20': [mon_c20, mon_cfg_stored, mon_rejected_unchanged],
}


# ---------------------------------------------------------------- explain-based classifiers
# cls(disagreement, last_explain_line, full_explain_text) -> message or None
def cls_c17(dv, last, full):
    m = re.search(r'insufficient funds: disp (\w+) < (\d+)', last)
    if m and 'updateglobal' in dv['op']:
        return 'the dispatcher offered %s %s in its swap but does not hold that much (%s)' % (m.group(2), m.group(1), last[:160])
    return None


EXPLAIN_CLASSIFIERS = {
    'C17': cls_c17,
}


# resolvers of ('explain', msg) monitor requests: (pid, last_explain_line, full_explain_text, known) ->
#   ('known', id, text) | ('violation', text) | None
EXPLAIN_RESOLVERS = {
    'C17': M2.resolve_f2,
    'C19': M2.resolve_f2,
    'C09': M2.resolve_c09,
}
