"""Executable property monitors for the hub / reward / chain-level properties (C01-C09, C13-C16,
C19).  Same contract as monitors.py: predicates over what the IMPLEMENTATION did (observation
dumps of the Rust mini-chain running the real contracts).  Search tools only.

Every monitor is guarded so that it only speaks where the property text speaks: standard wiring
(E4), magnitudes within 1e18 (E1), hub not paused, no legacy wait-list entries (E6)."""
import re

D = 10 ** 18
LIM = 10 ** 18
# validator names (PROTOCOL.md section 1): `val` + one character of VAL_ALPHABET; the first NVALS
# (val0..val9, vala, valb) exist on the chain
VAL_ALPHABET = '0123456789abcdefghijklmnopqrstuvwxyz'
NVALS = 12


def chain_val_index(v):
    """index of validator name v in VALS, or None if v is not a validator of the chain"""
    if len(v) == 4 and v.startswith('val'):
        i = VAL_ALPHABET.find(v[3])
        if 0 <= i < NVALS:
            return i
    return None


# ------------------------------------------------------------------ helpers over a parsed dump
def ints(v):
    return [int(x) for x in v]


def wired(st, hs=None):
    hc, rc, dc, gc, hp = st.one('hub.cfg'), st.one('rw.cfg'), st.one('dp.cfg'), st.one('rg.cfg'), st.one('hub.params')
    bi, si = st.one('tok.bsei.info'), st.one('tok.stsei.info')
    if None in (hc, rc, dc, gc, hp, bi, si):
        return False
    ok = (hc[2] == 'disp' and hc[3] == 'reg' and hc[4] == 'bsei' and hc[5] == 'stsei' and hp[1] == 'usei'
          and rc[1] == 'hub' and dc[1] == 'hub' and dc[2] == 'reward' and dc[3] == 'usei' and gc[1] == 'hub'
          and bi[1] == 'hub' and si[1] == 'hub')
    if ok and hs is not None:
        ok = hs.get('bsei_hub', 'hub') == 'hub' and hs.get('stsei_hub', 'hub') == 'hub'
    return ok


def reward_wired(st):
    rc, dc = st.one('rw.cfg'), st.one('dp.cfg')
    if rc is None or dc is None:
        return False
    n = int(rc[4])
    denoms = rc[5:5 + n]
    return rc[2] == dc[4] and dc[4] != 'usei' and rc[2] not in denoms


def paused(st):
    hp = st.one('hub.params')
    return hp is not None and hp[6] == '1'


def stored(st):
    v = st.one('hub.stored')
    return ints(v) if v else None


def qstate(st):
    v = st.one('hub.state')
    if v is None or v[0] == 'err':
        return None
    return ints(v)


def delegs(st, who='hub'):
    return {x[1]: int(x[2]) for x in st.all('del') if x[0] == who}


def supply(st, tok):
    v = st.one('tok.%s.info' % tok)
    return int(v[0]) if v else None


def batch(st):
    v = st.one('hub.batch')
    return ints(v) if v else None


def hist(st):
    """id -> dict"""
    out = {}
    for h in st.all('hub.hist'):
        out[int(h[0])] = dict(time=int(h[1]), bamt=int(h[2]), bapp=int(h[3]), bwd=int(h[4]),
                              samt=int(h[5]), sapp=int(h[6]), swd=int(h[7]), rel=(h[8] == '1'), raw=h)
    return out


def waits(st):
    """list of (addr, batch, b, st)"""
    return [(w[0], int(w[1]), int(w[2]), int(w[3])) for w in st.all('hub.wait')]


def bank(st, a, d):
    for b in st.all('bank'):
        if b[0] == a and b[1] == d:
            return int(b[2])
    return 0


def now(st):
    return int(st.one('t')[0])


def oldwait(st):
    v = st.one('hub.oldwait')
    return int(v[0]) if v else 0


def in_envelope(st):
    s = stored(st)
    if s is None:
        return False
    nums = [s[2], s[3], s[5], bank(st, 'hub', 'usei'), supply(st, 'bsei') or 0, supply(st, 'stsei') or 0,
            sum(delegs(st).values())]
    b = batch(st)
    if b:
        nums += [b[1], b[2]]
    for h in hist(st).values():
        nums += [h['bamt'], h['samt']]
    return all(x <= LIM for x in nums)


def claim_val(b, s, e):
    return s * e['swd'] // D + b * e['bwd'] // D


def rate_of(bonded, claims):
    if bonded == 0 or claims == 0:
        return D
    return bonded * D // claims


def recomputes(st):
    """QueryMsg::State recomputes (synchronises + refreshes the rates) iff the hub has a delegation
    entry and the stored pools are not both zero"""
    s = stored(st)
    return s is not None and (s[2] + s[3]) > 0 and len(delegs(st)) > 0


def trace_lines(trace):
    return [t.split(' ') for t in trace]


def coins(s):
    if s == '-':
        return []
    return [(c.split(':')[0], int(c.split(':')[1])) for c in s.split(',')]


def standard(prev, cur, hs):
    """both dumps describe a standard wired, unpaused, legacy-free world within the envelope"""
    return (prev is not None and wired(prev, hs) and wired(cur, hs) and not paused(prev)
            and oldwait(prev) == 0 and oldwait(cur) == 0 and in_envelope(prev) and in_envelope(cur))


CONTRACTS = {'hub', 'reward', 'disp', 'reg', 'bsei', 'stsei', 'swap', 'oracle', 'airdrop'}
# root operations that anybody may send: harmless when "signed" by a contract address
PUBLIC_VERBS = {('hub', 'checkslashing'), ('hub', 'withdraw'), ('reg', 'redelegations'), ('cw', 'incallow'), ('cw', 'decallow')}


def impersonation(t, ok):
    """a successful ROOT transaction signed by a contract address (contracts hold no keys: on a chain
    such a message exists only as a sub-message emitted by that contract's code).  The generators
    produce them for C10's sender classes; the properties monitored here quantify over transactions
    by users / owner / updater, so the rest of such a history is not judged by them."""
    if not ok:
        return False
    if t[0] in ('hub', 'reward', 'disp', 'reg') and len(t) > 2:
        return t[1] in CONTRACTS and (t[0], t[2]) not in PUBLIC_VERBS
    if t[0] == 'cw' and len(t) > 3:
        return t[2] in CONTRACTS and ('cw', t[3]) not in PUBLIC_VERBS
    if t[0] == 'bond' and len(t) > 2:
        return t[2] in CONTRACTS
    return False


def guarded(mon):
    def g(hs, prev, op, ok, trace, cur, known):
        t = track_inst(hs, op, ok)
        if impersonation(t, ok):
            hs['tainted'] = True
        if hs.get('tainted'):
            return None
        return mon(hs, prev, op, ok, trace, cur, known)
    g.__name__ = getattr(mon, '__name__', 'mon')
    return g


def track_inst(hs, op, ok):
    t = op.split(' ')
    if t[0] == 'reset':
        pr = hs.get('_probes')
        hs.clear()
        if pr is not None:
            hs['_probes'] = pr
    if t[0] == 'inst_stsei' and ok:
        hs['stsei_hub'] = t[2]
    if t[0] == 'inst_bsei' and ok:
        hs['bsei_hub'] = t[2]
        hs['bsei_rows'] = int(t[3])
    if t[0] == 'legacy_wait' and ok:
        hs['legacy'] = True
    return t


F5_TEXT = ('pro-rata slashing split floored a pool to zero backing while its tokens exist (B_t = 0, claims_t > 0): '
           'rate reported as 1, later bonds lower it and batch-closing unbonds fail')


def f5_class(st):
    """B_t = 0 and claims_t > 0 for some token (after synchronisation)"""
    q = qstate(st)
    b = batch(st)
    if q is None or b is None:
        return False
    cb = (supply(st, 'bsei') or 0) + b[1]
    cs = (supply(st, 'stsei') or 0) + b[2]
    return (q[2] == 0 and cb > 0) or (q[3] == 0 and cs > 0)


def known_id(known, fid):
    for k in known:
        if k.get('id') == fid:
            return k
    return None


def state_query_fails(st, hs):
    """P03d: in a standard wired world within the envelope QueryMsg::State cannot fail (its only checked
    subtraction cannot underflow, the ratios fit a Decimal, both token contracts answer TokenInfo).  The
    pricing monitors read everything from that query: a State query that fails would silence them."""
    v = st.one('hub.state')
    if v is None or not v or v[0] != 'err':
        return None
    if not wired(st, hs) or not in_envelope(st) or supply(st, 'bsei') is None or supply(st, 'stsei') is None:
        return None
    return ('violation', 'QueryMsg::State fails in a standard wired world within the envelope (stored state %s, bSei supply %d, '
            'stSei supply %d, %d delegated): bonding, unbonding and conversion all start with this computation'
            % (' '.join(st.one('hub.stored')), supply(st, 'bsei'), supply(st, 'stsei'), sum(delegs(st).values())))


def registry_names(st):
    """names returned by the registry's GetValidatorsForDelegation; None if the query fails / no registry"""
    v = st.one('rg.vals')
    if v is None or (v and v[0] == 'err'):
        return None
    return set(x.split(':')[0] for x in v if x)


def unregistered_delegate(tl, cur):
    """P13a / S7: every Delegate the hub emits goes to a validator of the registry as it is AFTER the
    transaction: the registry changes only by root AddValidator / RemoveValidator messages, an added
    validator comes with no bond, and RemoveValidator removes the entry before it makes the hub re-bond
    anything - so the registry a bond saw is the registry the dump shows"""
    names = registry_names(cur)
    if names is None:
        return None
    for x in tl:
        if x[1] == 'delegate' and x[2] == 'hub' and x[3] not in names:
            return x
    return None


# ------------------------------------------------------------------ C01
def mon_c01(hs, prev, op, ok, trace, cur, known):
    t = track_inst(hs, op, ok)
    # ghost: coins the staking module delivered to the hub, by completion time of the unbonding entry
    # (a batch undelegated at time T completes at T + chain unbonding time); slashing of unbonding
    # entries switches the lower bound below off for the rest of the history
    if prev is not None and t[0] == 'advance' and ok:
        gone = {}
        pu = [x for x in prev.all('unb') if x[0] == 'hub']
        cu = [x for x in cur.all('unb') if x[0] == 'hub']
        if len(cu) < len(pu):
            tnow = now(cur)
            dl_ = hs.setdefault('delivered', {})
            for x in pu:
                if int(x[3]) <= tnow:
                    dl_[int(x[3])] = dl_.get(int(x[3]), 0) + int(x[2])
    if t[0] == 'slash' and ok and len(t) > 4 and t[4] == '1':
        hs['unb_slashed'] = True
    # P01a: prev_hub_balance is written by WithdrawUnbonded only (balance found minus the amount paid, i.e.
    # the liquid balance the hub is left with); every other handler saves the State it loaded.  The release
    # accounting measures "coins that arrived" against it, so a handler that resets it (or a withdrawal
    # that does not refresh it) silently corrupts every later release
    if prev is not None and t[0] not in ('inst_hub', 'reset') and not t[0].startswith('poke_'):
        ps_, cs_, pp_ = stored(prev), stored(cur), prev.one('hub.params')
        if ps_ is not None and cs_ is not None and pp_ is not None:
            nwd = sum(1 for x in trace_lines(trace) if x[1] == 'wasm' and x[3] == 'hub' and x[4] == 'withdraw_unbonded') if ok else 0
            if nwd == 0:
                if cs_[5] != ps_[5]:
                    return ('violation', 'prev_hub_balance changed from %d to %d in %r, which is not a withdrawal'
                            % (ps_[5], cs_[5], op))
            elif nwd == 1 and t[0] == 'hub' and len(t) > 2 and t[2] == 'withdraw' and t[1] != 'hub':
                liquid_ = bank(cur, 'hub', pp_[1])
                if cs_[5] != liquid_:
                    return ('violation', 'after WithdrawUnbonded by %s prev_hub_balance is %d but the hub holds %d %s '
                            '(was %d before the payment): the next release would measure the arrived coins against a wrong base'
                            % (t[1], cs_[5], liquid_, pp_[1], bank(prev, 'hub', pp_[1])))
    if hs.get('legacy') or not wired(cur, hs) or not in_envelope(cur) or oldwait(cur) != 0:
        return None
    h = hist(cur)
    # (a) liquid balance covers every released claim
    total = 0
    for (a, bid, b, s) in waits(cur):
        e = h.get(bid)
        if e and e['rel']:
            total += claim_val(b, s, e)
    liquid = bank(cur, 'hub', 'usei')
    if total > liquid:
        return ('violation', 'released claims are worth %d but the hub holds only %d usei' % (total, liquid))
    s = stored(cur)
    if s and total > s[5] and not (t[0] == 'hub' and len(t) > 2 and t[2] in ('config', 'params')):
        return ('violation', 'released claims are worth %d but prev_hub_balance is %d' % (total, s[5]))
    if prev is None or not wired(prev, hs) or not in_envelope(prev) or oldwait(prev) != 0:
        return None
    ph = hist(prev)
    if t[0] == 'hub' and len(t) > 2 and t[2] == 'withdraw':
        u = t[1]
        pw = [w for w in waits(prev) if w[0] == u]
        if ok:
            paid = 0
            for tl in trace_lines(trace):
                if tl[1] == 'bank' and tl[2] == 'hub':
                    if tl[3] != u:
                        return ('violation', 'WithdrawUnbonded by %s paid %s' % (u, tl[3]))
                    for d, a in coins(tl[4]):
                        if d != 'usei':
                            return ('violation', 'WithdrawUnbonded paid denom %s' % d)
                        paid += a
            exp = 0
            gone = set()
            for (_, bid, b, s_) in pw:
                e = h.get(bid)
                if e and e['rel']:
                    exp += claim_val(b, s_, e)
                    gone.add(bid)
            if paid != exp:
                return ('violation', 'WithdrawUnbonded paid %s %d, recorded share at the final rates is %d' % (u, paid, exp))
            left = set(w[1] for w in waits(cur) if w[0] == u)
            if left & gone:
                return ('violation', 'paid claims of %s on batches %s were not removed' % (u, sorted(left & gone)))
            po = sorted(w for w in waits(prev) if w[0] != u)
            co = sorted(w for w in waits(cur) if w[0] != u)
            if po != co:
                return ('violation', 'WithdrawUnbonded by %s changed the claims of other users' % u)
            # newly released group: total value of all claims on it vs. coins that arrived
            newly = [i for i, e in h.items() if e['rel'] and i in ph and not ph[i]['rel']]
            if newly:
                arrived = bank(prev, 'hub', 'usei') - stored(prev)[5]
                val = sum(claim_val(b, s_, h[bid]) for (_, bid, b, s_) in waits(prev) if bid in newly)
                if val > arrived:
                    return ('violation', 'batches %s released together: claims worth %d, only %d coins arrived' % (sorted(newly), val, arrived))
                # batch by batch: if exactly the expected coins were delivered for a batch (nothing of its
                # unbonding stake was slashed) its claims keep their value up to rounding dust
                if not hs.get('unb_slashed'):
                    env_ = prev.one('env')
                    ut_ = int(env_[0]) if env_ else None
                    for i in newly:
                        exp_i = ph[i]['samt'] * ph[i]['swd'] // D + ph[i]['bamt'] * ph[i]['bwd'] // D
                        got_i = h[i]['samt'] * h[i]['swd'] // D + h[i]['bamt'] * h[i]['bwd'] // D
                        dlv = hs.get('delivered', {}).get(ph[i]['time'] + ut_) if ut_ is not None else None
                        if dlv is not None and dlv == exp_i and got_i + 4 + ph[i]['samt'] // D + ph[i]['bamt'] // D < exp_i:
                            return ('violation', 'batch %d: %d coins were delivered for it (nothing slashed), but at its final '
                                    'withdraw rates its claims are worth only %d' % (i, dlv, got_i))
                expected = sum(ph[i]['samt'] * ph[i]['swd'] // D + ph[i]['bamt'] * ph[i]['bwd'] // D for i in newly)
                nclaims = sum(1 for w in waits(prev) if w[1] in newly)
                if arrived == expected and expected - val > 4 * (len(newly) + nclaims) + 4:
                    return ('violation', 'no slashing, %d coins arrived for batches %s but claims are worth only %d' % (arrived, sorted(newly), val))
        else:
            if paused(prev) or now(prev) < int(prev.one('hub.params')[2]):
                return None
            worth = 0
            for (_, bid, b, s_) in pw:
                e = ph.get(bid)
                if e and e['rel']:
                    worth += claim_val(b, s_, e)
            if worth >= 1:
                return ('violation', 'WithdrawUnbonded by %s failed although its released claims are worth %d' % (u, worth))
            # claims on batches whose unbonding period has fully elapsed (time + period <= now) and for
            # which exactly the expected coins were delivered: the withdrawal itself must release them
            if not hs.get('unb_slashed'):
                env_ = prev.one('env')
                unb_ = int(prev.one('hub.params')[2])
                if env_ is not None and int(env_[0]) == unb_:
                    mworth = 0
                    for (_, bid, b, s_) in pw:
                        e = ph.get(bid)
                        if e and not e['rel'] and e['time'] + unb_ <= now(prev):
                            exp_i = e['samt'] * e['swd'] // D + e['bamt'] * e['bwd'] // D
                            if hs.get('delivered', {}).get(e['time'] + unb_) == exp_i:
                                mworth += claim_val(b, s_, e)
                            else:
                                mworth = 0
                                break
                    # every EARLIER unreleased batch must be in the same situation for the release to be plain
                    plain = all((not e['rel'] and e['time'] + unb_ <= now(prev)
                                 and hs.get('delivered', {}).get(e['time'] + unb_) == e['samt'] * e['swd'] // D + e['bamt'] * e['bwd'] // D)
                                or e['rel'] or e['time'] + unb_ > now(prev) for e in ph.values())
                    if plain and mworth >= 4 + 2 * len(pw):
                        return ('violation', 'WithdrawUnbonded by %s failed at t=%d although its claims on batches whose unbonding period '
                                'has elapsed (and whose coins were delivered in full) are worth %d' % (u, now(prev), mworth))
    return None


def mon_released_immutable(hs, prev, op, ok, trace, cur, known):
    """P01b (order independence of withdrawals): once a batch is released its history entry - the final
    withdraw rates every claim on it is paid at - never changes and never disappears, whoever withdraws
    first (the release scan stops at released entries)"""
    t = track_inst(hs, op, ok)
    if prev is None or prev.one('hub.cfg') is None or cur.one('hub.cfg') is None:
        return None
    if t[0] in ('inst_hub', 'reset') or t[0].startswith('poke_'):
        return None
    ph, h = hist(prev), hist(cur)
    for i, e in ph.items():
        if not e['rel']:
            continue
        if i not in h:
            return ('violation', 'released history entry %d disappeared in %r' % (i, op))
        if h[i]['raw'] != e['raw']:
            return ('violation', 'released batch %d changed in %r: %s -> %s (claims on it are paid at different rates depending on '
                    'who withdraws first)' % (i, op, ' '.join(e['raw']), ' '.join(h[i]['raw'])))
    return None


# ------------------------------------------------------------------ C02
HUB_SYNC_TAGS = ('bond', 'bond_for_st_sei', 'bond_rewards', 'receive', 'check_slashing')


def mon_c02(hs, prev, op, ok, trace, cur, known):
    t = track_inst(hs, op, ok)
    if not ok or prev is None or not wired(prev, hs) or not wired(cur, hs) or not in_envelope(cur):
        return None
    tl = trace_lines(trace)
    synced = any(x[1] == 'wasm' and x[3] == 'hub' and x[4] in HUB_SYNC_TAGS for x in tl)
    s = stored(cur)
    dl = delegs(cur)
    if synced and len(delegs(prev)) > 0 and (s[2] + s[3]) > sum(dl.values()):
        return ('violation', 'hub books %d bonded but only %d is delegated' % (s[2] + s[3], sum(dl.values())))
    # bonds are delegated in full, to registered validators only (S7: the registry as the bond saw it is
    # the registry after the transaction - RemoveValidator removes the entry before the hub re-bonds)
    bad = unregistered_delegate(tl, cur)
    if bad is not None:
        return ('violation', 'the hub delegated %s to %s which is not a registered validator (registry: %s)'
                % (bad[4], bad[3], ' '.join(sorted(registry_names(cur)))))
    for i, x in enumerate(tl):
        if x[1] == 'wasm' and x[3] == 'hub' and x[4] in ('bond', 'bond_for_st_sei', 'bond_rewards'):
            pay = sum(a for d, a in coins(x[5]) if d == 'usei')
            tot = 0
            j = i + 1
            while j < len(tl) and tl[j][1] == 'delegate' and tl[j][2] == 'hub':
                tot += int(tl[j][4])
                j += 1
            if tot != pay:
                return ('violation', 'bond of %d usei delegated %d' % (pay, tot))
    # books move exactly with delegations / undelegations
    und = sum(int(x[4]) for x in tl if x[1] == 'undelegate' and x[2] == 'hub')
    dele = sum(int(x[4]) for x in tl if x[1] == 'delegate' and x[2] == 'hub')
    pq = qstate(prev)
    if synced and pq is not None and recomputes(prev):
        before = pq[2] + pq[3]
        after = s[2] + s[3]
        # withdraw-reward payouts never touch the books; slashing cannot happen inside a transaction
        if after != before + dele - und:
            return ('violation', 'books went from %d (synchronised) to %d but the transaction delegated %d and undelegated %d'
                    % (before, after, dele, und))
    # liquid balance untouched by everything but withdrawals
    if not (t[0] == 'hub' and t[2] == 'withdraw'):
        if not (t[0] == 'reward' and t[2] == 'claim' and t[3] == 'hub') and t[0] in ('bond', 'hub', 'cw', 'reg', 'reward', 'disp'):
            a, b = bank(prev, 'hub', 'usei'), bank(cur, 'hub', 'usei')
            wd = {x[0]: x[1] for x in prev.all('wdaddr')}
            # an increase is possible only when the hub's staking rewards are paid to the hub itself
            # (withdraw address not yet set to the dispatcher: outside E4); a decrease never is
            dcfg = prev.one('dp.cfg')
            keeper_is_hub = dcfg is not None and dcfg[5] == 'hub'
            # ... or when the owner made the hub itself the fee keeper
            if b < a or (b > a and wd.get('hub') == 'disp' and not keeper_is_hub):
                return ('violation', 'hub liquid balance changed from %d to %d in %r' % (a, b, op))
    return None


def mon_pool_booking(hs, prev, op, ok, trace, cur, known):
    """P02a: a payment is booked to the pool of the token it was bonded for - Bond to the bSei pool,
    BondForStSei and BondRewards (also inside UpdateGlobalIndex / RemoveValidator trees) to the stSei pool -
    on top of the pools the slashing check stores first (= what the State query reported before)"""
    t = track_inst(hs, op, ok)
    if not ok or prev is None or not wired(prev, hs) or not wired(cur, hs) or not in_envelope(prev):
        return None
    pq, s = qstate(prev), stored(cur)
    if pq is None or s is None:
        return None
    tl = trace_lines(trace)
    addb = adds = 0
    kinds = []
    for x in tl:
        if x[1] == 'undelegate' or (x[1] == 'wasm' and x[3] == 'hub' and x[4] == 'receive'):
            return None     # unbond / convert move the pools too (priced by the C03 / C06 monitors)
        if x[1] == 'wasm' and x[3] == 'hub' and x[4] in ('bond', 'bond_for_st_sei', 'bond_rewards'):
            pay = sum(a for d, a in coins(x[5]) if d == 'usei')
            kinds.append(x[4])
            if x[4] == 'bond':
                addb += pay
            else:
                adds += pay
    if not kinds:
        return None
    if (s[2], s[3]) != (pq[2] + addb, pq[3] + adds):
        return ('violation', '%s of %d usei: the pools went from (bSei %d, stSei %d) to (bSei %d, stSei %d), expected (bSei %d, stSei %d) - '
                'the payment was booked to the wrong pool or not in full'
                % ('+'.join(kinds), addb + adds, pq[2], pq[3], s[2], s[3], pq[2] + addb, pq[3] + adds))
    return None


# ------------------------------------------------------------------ C03
def mon_c03(hs, prev, op, ok, trace, cur, known):
    t = track_inst(hs, op, ok)
    if not wired(cur, hs) or not in_envelope(cur):
        return None
    qf = state_query_fails(cur, hs)
    if qf is not None:
        return qf
    q = qstate(cur)
    b = batch(cur)
    if q is not None and recomputes(cur):
        cb = supply(cur, 'bsei') + b[1]
        cs = supply(cur, 'stsei') + b[2]
        if q[0] != rate_of(q[2], cb):
            return ('violation', 'State reports bsei rate %d; backing %d over claims %d is %d' % (q[0], q[2], cb, rate_of(q[2], cb)))
        if q[1] != rate_of(q[3], cs):
            return ('violation', 'State reports stsei rate %d; backing %d over claims %d is %d' % (q[1], q[3], cs, rate_of(q[3], cs)))
    if not ok or prev is None or not standard(prev, cur, hs):
        return None
    pq = qstate(prev)
    # (S9: no `recomputes(prev)` guard for the pricing clauses - the slashing check every pricing message starts
    # with and the State query are the same function, and both return the STORED state unchanged when the hub
    # has no delegation or books nothing: also the first bond ever is priced at the rate the query reported)
    if pq is None:
        return None
    hp = ints([prev.one('hub.params')[i] for i in (3, 4)])
    pegfee, thr = hp
    if t[0] == 'bond':
        kind, u = t[1], t[2]
        n = int(t[3])
        cs_ = [(t[4 + 2 * i], int(t[5 + 2 * i])) for i in range(n)]
        pay = sum(a for d, a in cs_ if d == 'usei')
        if pay == 0:
            return ('violation', 'bond accepted without a payment in the staking coin')
        tok = {'b': 'bsei', 'st': 'stsei'}.get(kind)
        if kind == 'rw':
            if supply(cur, 'bsei') != supply(prev, 'bsei') or supply(cur, 'stsei') != supply(prev, 'stsei'):
                return ('violation', 'BondRewards minted tokens')
            return None
        minted = supply(cur, tok) - supply(prev, tok)
        r = pq[0] if kind == 'b' else pq[1]
        nofee = pay * D // r
        if minted > nofee:
            return ('violation', 'bond of %d at rate %d minted %d > floor(payment/rate) = %d' % (pay, r, minted, nofee))
        if minted == 0:
            return ('violation', 'bond of %d accepted but minted nothing' % pay)
        if kind == 'st' or r >= thr:
            if minted != nofee:
                return ('violation', 'bond of %d at rate %d minted %d, floor(payment/rate) = %d' % (pay, r, minted, nofee))
        elif minted < nofee - nofee * pegfee // D:
            return ('violation', 'bond minted %d, less than the no-fee amount %d minus the maximal fee' % (minted, nofee))
        # the bonder received exactly what was minted
        pb = {x[0]: int(x[1]) for x in prev.all('tok.%s.bal' % tok)}
        cbal = {x[0]: int(x[1]) for x in cur.all('tok.%s.bal' % tok)}
        if cbal.get(u, 0) - pb.get(u, 0) != minted:
            return ('violation', 'bond minted %d but the sender balance moved by %d' % (minted, cbal.get(u, 0) - pb.get(u, 0)))
    if t[0] == 'cw' and t[3] in ('send', 'sendfrom') and t[-1] == 'convert':
        tok = t[1]
        amt = int(t[-2])
        other = 'stsei' if tok == 'bsei' else 'bsei'
        if t[-3] != 'hub':
            return None
        burned = supply(prev, tok) - supply(cur, tok)
        minted = supply(cur, other) - supply(prev, other)
        if burned != amt:
            return ('violation', 'convert of %d burned %d' % (amt, burned))
        rs, rd = (pq[0], pq[1]) if tok == 'bsei' else (pq[1], pq[0])
        value = amt * rs // D
        nofee = value * D // rd
        if minted > nofee:
            return ('violation', 'convert of %d %s (value %d) minted %d %s > %d' % (amt, tok, value, minted, other, nofee))
        cs2 = stored(cur)
        moved_b = cs2[2] - pq[2]
        moved_s = cs2[3] - pq[3]
        if moved_b + moved_s != 0:
            return ('violation', 'convert changed the total booked stake by %d' % (moved_b + moved_s))
        if tok == 'stsei' and moved_b != value:
            return ('violation', 'convert moved %d coins between the pools, floor(tokens x rate) = %d' % (moved_b, value))
        if tok == 'bsei' and -moved_b > value:
            return ('violation', 'convert moved %d coins out of the bsei pool, more than floor(tokens x rate) = %d' % (-moved_b, value))
        # P03a: lower bounds and the minted-to-moved tie (the peg fee is at most amount x peg_recovery_fee and
        # is charged only below the threshold; floors are monotone); the converted tokens go to the cw20 sender
        if rs > 0 and rd > 0:
            rb = pq[0]
            if tok == 'stsei':
                if rb >= thr and minted != nofee:
                    return ('violation', 'convert of %d stsei (value %d) at bsei rate %d >= threshold %d minted %d bsei, floor(value/rate) = %d'
                            % (amt, value, rb, thr, minted, nofee))
                if rb < thr and minted < nofee - nofee * pegfee // D:
                    return ('violation', 'convert of %d stsei minted %d bsei, less than the no-fee amount %d minus the maximal peg fee %d'
                            % (amt, minted, nofee, nofee * pegfee // D))
            else:
                moved = -moved_b
                if minted != moved * D // rd:
                    return ('violation', 'convert of %d bsei moved %d coins into the stsei pool at stsei rate %d but minted %d stsei, '
                            'floor(coins/rate) = %d' % (amt, moved, rd, minted, moved * D // rd))
                if rb >= thr and moved != value:
                    return ('violation', 'convert of %d bsei at rate %d >= threshold %d moved %d coins, floor(tokens x rate) = %d (a fee was charged '
                            'at or above the threshold)' % (amt, rb, thr, moved, value))
                low = (amt - amt * pegfee // D) * rb // D
                if rb < thr and moved < low:
                    return ('violation', 'convert of %d bsei moved only %d coins: even after the maximal peg fee %d the remaining tokens are worth %d'
                            % (amt, moved, amt * pegfee // D, low))
            ob = {x[0]: int(x[1]) for x in prev.all('tok.%s.bal' % other)}
            oc = {x[0]: int(x[1]) for x in cur.all('tok.%s.bal' % other)}
            got = oc.get(t[2], 0) - ob.get(t[2], 0)
            if got != minted:
                return ('violation', 'convert by %s minted %d %s but the balance of %s moved by %d' % (t[2], minted, other, t[2], got))
    # batch undelegation priced at the recorded rates
    ph, ch = hist(prev), hist(cur)
    for i in ch:
        if i not in ph:
            e = ch[i]
            und = sum(int(x[4]) for x in trace_lines(trace) if x[1] == 'undelegate' and x[2] == 'hub')
            want = e['samt'] * e['sapp'] // D + e['bamt'] * e['bapp'] // D
            if und != want:
                return ('violation', 'batch %d undelegated %d, requests valued at the recorded rates give %d' % (i, und, want))
            # the token that did NOT arrive in this transaction is priced at the rate the State query
            # reported just before it (backing over claims after recognising any slashing)
            if t[0] == 'cw' and t[3] in ('send', 'sendfrom') and pq is not None and recomputes(prev):
                if t[1] == 'bsei' and e['samt'] > 0 and e['sapp'] != pq[1]:
                    return ('violation', 'batch %d: the stSei requests were undelegated at rate %d, the State query reported %d just before'
                            % (i, e['sapp'], pq[1]))
                if t[1] == 'stsei' and e['bamt'] > 0 and e['bapp'] != pq[0]:
                    return ('violation', 'batch %d: the bSei requests were undelegated at rate %d, the State query reported %d just before'
                            % (i, e['bapp'], pq[0]))
                # P03b: the ARRIVING token. An stSei unbond never refreshes the stSei rate before the batch
                # closes; a bSei unbond recomputes the bSei rate with the burnt tokens gone and the request
                # (after the peg fee) added: backing over (supply - amount + requests of the closed batch)
                if t[-1] == 'unbond' and t[-3] == 'hub':
                    if t[1] == 'stsei' and e['sapp'] != pq[1]:
                        return ('violation', 'batch %d closed by an stSei unbond: the stSei requests were undelegated at rate %d, the State query '
                                'reported %d just before' % (i, e['sapp'], pq[1]))
                    if t[1] == 'bsei':
                        claims_ = supply(prev, 'bsei') - int(t[-2]) + e['bamt']
                        if claims_ >= 0 and e['bapp'] != rate_of(pq[2], claims_):
                            return ('violation', 'batch %d closed by a bSei unbond of %s: the bSei requests were undelegated at rate %d; backing %d over '
                                    'claims %d (supply %d - burnt %s + requests %d) is %d'
                                    % (i, t[-2], e['bapp'], pq[2], claims_, supply(prev, 'bsei'), t[-2], e['bamt'], rate_of(pq[2], claims_)))
    return None


# ------------------------------------------------------------------ C04
def mon_c04(hs, prev, op, ok, trace, cur, known):
    t = track_inst(hs, op, ok)
    qf = state_query_fails(cur, hs)
    if qf is not None:
        return qf
    if prev is None or t[0] in ('slash', 'reset') or t[0].startswith('inst_') or t[0] == 'legacy_wait':
        return None
    if t[0] == 'hub' and len(t) > 2 and t[2] in ('config', 'params', 'migrate'):
        return None
    if t[0] in ('reward', 'disp', 'reg') and len(t) > 2 and t[2] in ('config',):
        return None
    if not (wired(prev, hs) and wired(cur, hs) and in_envelope(prev) and in_envelope(cur)):
        return None
    if not (recomputes(prev) and recomputes(cur)):
        return None
    pq, cq = qstate(prev), qstate(cur)
    if pq is None or cq is None:
        return None
    if f5_class(prev) or f5_class(cur):
        k = known_id(known, 'F5')
        if k:
            return ('known', 'F5', k.get('what', F5_TEXT))
        return ('violation', F5_TEXT)
    pb, cb = batch(prev), batch(cur)
    for idx, tok, bi in ((0, 'bsei', 1), (1, 'stsei', 2)):
        c_after = supply(cur, tok) + cb[bi]
        c_before = supply(prev, tok) + pb[bi]
        if c_after == 0 or c_before == 0:
            continue
        if cq[idx] < pq[idx]:
            return ('violation', '%s rate fell from %d to %d in %r (no slashing)' % (tok, pq[idx], cq[idx], op))
    # P04a: every executed BondRewards (root, or inside an UpdateGlobalIndex / RemoveValidator tree) mints
    # no stSei and - while the stSei claims are at most 1e18 - raises the stSei rate strictly: the pool
    # grows by X >= 1 over unchanged claims C <= 1e18, and X * 1e18 / C >= 1
    if ok:
        rew = 0
        for x in trace_lines(trace):
            if x[1] == 'wasm' and x[3] == 'hub' and x[4] == 'bond_rewards':
                rew += sum(a for d, a in coins(x[5]) if d == 'usei')
        if rew >= 1:
            if supply(cur, 'stsei') != supply(prev, 'stsei'):
                return ('violation', 'BondRewards of %d usei changed the stsei supply %d -> %d' % (rew, supply(prev, 'stsei'), supply(cur, 'stsei')))
            cst = supply(cur, 'stsei') + cb[2]
            if 0 < cst <= D and cb[2] == pb[2] and cq[1] <= pq[1]:
                return ('violation', 'BondRewards of %d usei did not raise the stsei rate: %d -> %d (pool %d -> %d over claims %d)'
                        % (rew, pq[1], cq[1], pq[3], cq[3], cst))
    return None


# ------------------------------------------------------------------ C05
def mon_c05(hs, prev, op, ok, trace, cur, known):
    t = track_inst(hs, op, ok)
    qf = state_query_fails(cur, hs)
    if qf is not None:
        return qf
    if not ok or prev is None or not standard(prev, cur, hs):
        return None
    pq, cq = qstate(prev), qstate(cur)
    if pq is None or cq is None or not recomputes(prev):
        return None
    pegfee, thr = ints([prev.one('hub.params')[i] for i in (3, 4)])
    pb, cb = batch(prev), batch(cur)
    path = None
    if t[0] == 'bond' and t[1] == 'b':
        path = 'bond'
    elif t[0] == 'cw' and t[3] in ('send', 'sendfrom') and t[-3] == 'hub' and t[-1] in ('unbond', 'convert'):
        if t[-1] == 'unbond' and t[1] == 'bsei':
            path = 'unbond'
        elif t[-1] == 'convert':
            path = 'conv_' + t[1]
    if path is None:
        return None
    c_before = supply(prev, 'bsei') + pb[1]
    b_before = pq[2]
    r = pq[0]
    if f5_class(prev):
        return None
    # claims/backing after; a batch closed by this unbond moved its requests (and their backing) out
    ph, ch = hist(prev), hist(cur)
    closed = [i for i in ch if i not in ph]
    c_after = supply(cur, 'bsei') + cb[1]
    b_after = stored(cur)[2]
    if closed:
        e = ch[closed[0]]
        c_after += e['bamt']
        b_after += e['bamt'] * e['bapp'] // D
    if b_before < c_before and r < thr and b_after > c_after + 2:
        return ('violation', '%s started below the peg (backing %d, claims %d) and left the bsei pool over-backed: backing %d, claims %d'
                % (path, b_before, c_before, b_after, c_after))
    # fee bounds
    if path == 'unbond':
        amt = int(t[-2])
        credited = sum(w[2] for w in waits(cur)) - sum(w[2] for w in waits(prev))
        nofee = amt
    elif path == 'conv_bsei':
        # P03a: the fee is internal to the conversion (taken in bSei before pricing); it shows in the coins
        # that leave the bSei pool: floor((amount - fee) x rate), with 0 <= fee <= floor(amount x peg_recovery_fee)
        # below the threshold and fee = 0 at or above it
        amt = int(t[-2])
        moved = pq[2] - stored(cur)[2]
        full = amt * r // D
        if moved > full:
            return ('violation', 'conv_bsei of %d at rate %d moved %d coins out of the bsei pool, more than floor(tokens x rate) = %d (negative fee)'
                    % (amt, r, moved, full))
        if r >= thr and moved != full:
            return ('violation', 'conv_bsei of %d charged a fee (moved %d coins, floor(tokens x rate) = %d) although the rate %d is not below '
                    'the threshold %d' % (amt, moved, full, r, thr))
        low = (amt - amt * pegfee // D) * r // D
        if moved < low:
            return ('violation', 'conv_bsei of %d charged a fee of more than amount x peg_recovery_fee = %d tokens: %d coins moved, '
                    'the tokens left after the maximal fee are worth %d' % (amt, amt * pegfee // D, moved, low))
        return None
    elif path == 'bond':
        n = int(t[3])
        pay = sum(int(t[5 + 2 * i]) for i in range(n) if t[4 + 2 * i] == 'usei')
        nofee = pay * D // r
        credited = supply(cur, 'bsei') - supply(prev, 'bsei')
    else:
        amt = int(t[-2])
        value = amt * pq[1] // D
        nofee = value * D // r
        credited = supply(cur, 'bsei') - supply(prev, 'bsei')
    if credited > nofee:
        return ('violation', '%s credited %d, more than the no-fee amount %d (negative fee)' % (path, credited, nofee))
    if r >= thr and credited != nofee:
        return ('violation', '%s charged a fee of %d although the rate %d is not below the threshold %d' % (path, nofee - credited, r, thr))
    if nofee - credited > nofee * pegfee // D:
        return ('violation', '%s charged a fee of %d, more than amount x peg_recovery_fee = %d' % (path, nofee - credited, nofee * pegfee // D))
    return None


# ------------------------------------------------------------------ C06
def mon_c06(hs, prev, op, ok, trace, cur, known):
    t = track_inst(hs, op, ok)
    if not wired(cur, hs) or not in_envelope(cur):
        return None
    qf = state_query_fails(cur, hs)
    if qf is not None:
        return qf
    s, q = stored(cur), qstate(cur)
    dl = delegs(cur)
    if s is not None and q is not None and recomputes(cur):
        T = s[2] + s[3]
        A = sum(dl.values())
        if A < T:
            if q[2] + q[3] != A:
                return ('violation', 'after the slashing check the pools sum to %d, delegated is %d' % (q[2] + q[3], A))
            if not (q[2] * T <= A * s[2] < (q[2] + 2) * T):
                return ('violation', 'bsei pool %d is not within two units of its pro-rata share %d*%d/%d' % (q[2], A, s[2], T))
            if not (A * s[3] <= q[3] * T < (A * s[3]) + 2 * T):
                return ('violation', 'stsei pool %d is not within two units of its pro-rata share %d*%d/%d' % (q[3], A, s[3], T))
        else:
            if q[2] != s[2] or q[3] != s[3]:
                return ('violation', 'slashing check changed the pools (%d,%d)->(%d,%d) although delegated %d >= booked %d'
                        % (s[2], s[3], q[2], q[3], A, T))
    if prev is None or not ok:
        return None
    # a transaction that executed one of the hub's pricing messages (each of them starts with the
    # slashing check, BondRewards included) while a loss was pending must leave the booked stake equal
    # to the delegated amount exactly: the check sets it to the surviving amount, and whatever the
    # message then delegates / undelegates moves both sides alike
    if wired(prev, hs) and in_envelope(prev) and s is not None:
        ps_, pdl = stored(prev), delegs(prev)
        tl_ = trace_lines(trace)
        if ps_ is not None and len(pdl) > 0 and ps_[2] + ps_[3] > 0 and sum(pdl.values()) < ps_[2] + ps_[3] \
                and any(x[1] == 'wasm' and x[3] == 'hub' and x[4] in HUB_SYNC_TAGS for x in tl_):
            if s[2] + s[3] != sum(dl.values()):
                return ('violation', 'a slashing loss was pending (booked %d, delegated %d); after %r the booked stake is %d but %d is delegated'
                        % (ps_[2] + ps_[3], sum(pdl.values()), op, s[2] + s[3], sum(dl.values())))
    # explicit CheckSlashing stores exactly what the query computed before it
    if t[0] == 'hub' and t[2] == 'checkslashing' and wired(prev, hs) and not paused(prev):
        pq = qstate(prev)
        if pq is not None and recomputes(prev) and (s[2], s[3]) != (pq[2], pq[3]):
            return ('violation', 'CheckSlashing stored pools (%d,%d), the synchronised pools are (%d,%d)' % (s[2], s[3], pq[2], pq[3]))
        # P06a: ... and the refreshed rates with them (execute_slashing saves exactly what the query computes)
        if pq is not None and recomputes(prev) and (s[0], s[1]) != (pq[0], pq[1]):
            return ('violation', 'CheckSlashing stored rates (bSei %d, stSei %d), the State query computed (bSei %d, stSei %d) just before'
                    % (s[0], s[1], pq[0], pq[1]))
    # release group: loss spread pro rata per token type
    if t[0] == 'hub' and t[2] == 'withdraw' and standard(prev, cur, hs):
        ph, ch = hist(prev), hist(cur)
        newly = sorted(i for i, e in ch.items() if e['rel'] and i in ph and not ph[i]['rel'])
        if newly:
            A = bank(prev, 'hub', 'usei') - stored(prev)[5]
            ub = {i: ph[i]['bamt'] * ph[i]['bwd'] // D for i in newly}
            us = {i: ph[i]['samt'] * ph[i]['swd'] // D for i in newly}
            Ub, Us = sum(ub.values()), sum(us.values())
            if Ub + Us > 0:
                b_ratio = D - Us * D // (Ub + Us)
                Ab = A * b_ratio // D
                As = A - Ab
                for (U, u, Aa, amt, wd, nm) in ((Ub, ub, Ab, 'bamt', 'bwd', 'bsei'), (Us, us, As, 'samt', 'swd', 'stsei')):
                    if U == 0:
                        continue
                    for i in newly:
                        if ph[i][amt] == 0:
                            continue
                        got = ph[i][amt] * ch[i][wd] // D
                        exact_num = u[i] * Aa          # share = u_i * A_t / U
                        # credited within 3 units (two floors + the +-1 bias) of the pro-rata share, plus rate re-flooring
                        slack = 4 + ph[i][amt] // D
                        if not (exact_num - (slack * U) <= got * U <= exact_num + slack * U):
                            return ('violation', 'batch %d (%s): credited %d, pro-rata share of the arrived coins is %d*%d/%d'
                                    % (i, nm, got, u[i], Aa, U))
    return None


# ------------------------------------------------------------------ C07
def mon_c07(hs, prev, op, ok, trace, cur, known):
    t = track_inst(hs, op, ok)
    if hs.get('legacy') or cur.one('hub.cfg') is None or oldwait(cur) != 0:
        return None
    b = batch(cur)
    h = hist(cur)
    ws = waits(cur)
    per = {}
    for (a, bid, x, y) in ws:
        p = per.setdefault(bid, [0, 0])
        p[0] += x
        p[1] += y
    for bid, (x, y) in per.items():
        if bid == b[0]:
            continue
        if bid > b[0]:
            return ('violation', 'claim recorded for batch %d beyond the open batch %d' % (bid, b[0]))
        e = h.get(bid)
        if e is None:
            return ('violation', 'claims recorded for batch %d which has no history entry' % bid)
        if not e['rel'] and (x, y) != (e['bamt'], e['samt']):
            return ('violation', 'batch %d: users claim (%d,%d) but the history records (%d,%d)' % (bid, x, y, e['bamt'], e['samt']))
        if e['rel'] and (x > e['bamt'] or y > e['samt']):
            return ('violation', 'batch %d: users claim (%d,%d), more than the history records (%d,%d)' % (bid, x, y, e['bamt'], e['samt']))
    ox, oy = per.get(b[0], [0, 0])
    if (ox, oy) != (b[1], b[2]):
        return ('violation', 'open batch %d: users claim (%d,%d) but the batch totals are (%d,%d)' % (b[0], ox, oy, b[1], b[2]))
    for i, e in h.items():
        if not e['rel'] and i not in per and (e['bamt'], e['samt']) != (0, 0):
            return ('violation', 'batch %d records (%d,%d) but no user holds a claim on it' % (i, e['bamt'], e['samt']))
    # P07a: the paged AllHistory answers (small pages 2|3|2|3 with the last id as cursor, the default limit 10,
    # the maximal limit 100) are faithful to the stored history: same ids in ascending order, no entry
    # skipped or repeated at a page boundary, and the deprecated alias fields carry the bSei values
    qh = cur.all('hub.qhist')
    if not any(x and x[0] == 'err' for x in qh):
        ids_ = sorted(h)
        want_, cursor_ = [], 0
        for k_, lim_ in enumerate((2, 3, 2, 3)):
            page_ = [i for i in ids_ if i > cursor_][:lim_]
            want_ += [[str(k_), str(i), str(h[i]['bamt']), str(h[i]['bapp']), str(h[i]['bwd'])] for i in page_]
            if len(page_) < lim_:
                break
            cursor_ = page_[-1]
        if qh != want_:
            bad_ = next((a_ for a_, b_ in zip(qh, want_) if a_ != b_), (qh[len(want_):] or want_[len(qh):] or [[]])[0])
            return ('violation', 'AllHistory paged 2|3|2|3 returned %d entries, the stored history gives %d; first difference at %s '
                    '(stored ids %s)' % (len(qh), len(want_), ' '.join(bad_), ids_[:12]))
        qd_, qm_ = cur.one('hub.qhist.def'), cur.one('hub.qhist.max')
        if qd_ is not None and not (qd_ and qd_[0] == 'err') and [x for x in qd_ if x] != [str(i) for i in ids_[:10]]:
            return ('violation', 'AllHistory without limit returned ids %s, the first ten stored ids are %s' % (' '.join(qd_), ids_[:10]))
        if qm_ is not None and len(qm_) == 2 and qm_[0] != 'err':
            n_ = min(len(ids_), 100)
            if qm_ != [str(n_), str(ids_[n_ - 1]) if n_ else '-']:
                return ('violation', 'AllHistory with limit 1000 returned %s entries ending at %s; stored: %d entries, the first %d end at %s'
                        % (qm_[0], qm_[1], len(ids_), n_, ids_[n_ - 1] if n_ else '-'))
    if prev is None or prev.one('hub.cfg') is None:
        return None
    pw = {(w[0], w[1]): (w[2], w[3]) for w in waits(prev)}
    cw = {(w[0], w[1]): (w[2], w[3]) for w in ws}
    if t[0] in ('inst_hub', 'reset', 'legacy_wait') or (t[0] == 'hub' and t[2] == 'migrate'):
        return None
    is_unbond = ok and t[0] == 'cw' and t[3] in ('send', 'sendfrom') and t[-1] == 'unbond' and t[-3] == 'hub'
    direct = ok and t[0] == 'hub' and t[2] == 'receive' and t[-1] == 'unbond'
    hc = prev.one('hub.cfg')
    for k in set(pw) | set(cw):
        a, bnew = pw.get(k), cw.get(k)
        if a == bnew:
            continue
        if bnew is None or (a is not None and (bnew[0] < a[0] or bnew[1] < a[1])):
            # removal / decrease: only the owner's successful withdrawal of a released batch
            if not (ok and t[0] == 'hub' and t[2] == 'withdraw' and t[1] == k[0]):
                return ('violation', 'claim of %s on batch %d changed %s -> %s in %r' % (k[0], k[1], a, bnew, op))
            if bnew is not None or not (h.get(k[1]) and h[k[1]]['rel']):
                return ('violation', 'withdrawal removed the claim of %s on batch %d which is not released' % k)
        else:
            # growth: only through an unbond hook coming from a registered token
            if is_unbond:
                tok, sender = t[1], t[2]
                if hc[4 if tok == 'bsei' else 5] != tok:
                    return ('violation', 'claim created through %s which is not the registered %s token' % (tok, tok))
                if k[0] != sender:
                    return ('violation', 'unbond sent by %s credited %s' % (sender, k[0]))
            elif direct:
                if t[1] not in (hc[4], hc[5]):
                    return ('violation', 'claim created by a Receive hook from %s (not a registered token)' % t[1])
                if k[0] != t[3]:
                    return ('violation', 'Receive{sender: %s} credited %s' % (t[3], k[0]))
            else:
                return ('violation', 'claim of %s on batch %d grew %s -> %s in %r' % (k[0], k[1], a, bnew, op))
    if is_unbond and wired(prev, hs):
        tok, sender, amt = t[1], t[2], int(t[-2])
        pb = batch(prev)
        if supply(prev, tok) - supply(cur, tok) != amt:
            return ('violation', 'unbond of %d %s burned %d' % (amt, tok, supply(prev, tok) - supply(cur, tok)))
        key = (sender, pb[0])
        before = pw.get(key, (0, 0))
        after = cw.get(key, (0, 0))
        db, ds = after[0] - before[0], after[1] - before[1]
        if tok == 'stsei' and (db, ds) != (0, amt):
            return ('violation', 'unbond of %d stsei credited (%d,%d)' % (amt, db, ds))
        if tok == 'bsei':
            pegfee = int(prev.one('hub.params')[3])
            if ds != 0 or db > amt or db < amt - amt * pegfee // D:
                return ('violation', 'unbond of %d bsei credited (%d,%d)' % (amt, db, ds))
    return None


# ------------------------------------------------------------------ C08
def mon_c08(hs, prev, op, ok, trace, cur, known):
    t = track_inst(hs, op, ok)
    if cur.one('hub.cfg') is None:
        return None
    b, h, s = batch(cur), hist(cur), stored(cur)
    ids = sorted(h)
    if ids != list(range(1, b[0])):
        return ('violation', 'history ids %s are not 1..%d' % (ids[:12], b[0] - 1))
    for i in ids:
        if h[i]['rel'] != (i <= s[7]):
            return ('violation', 'batch %d released=%s but last_processed_batch=%d' % (i, h[i]['rel'], s[7]))
        if i > 1 and h[i]['time'] < h[i - 1]['time']:
            return ('violation', 'batch %d undelegated at %d, before batch %d at %d' % (i, h[i]['time'], i - 1, h[i - 1]['time']))
    if prev is None or prev.one('hub.cfg') is None or t[0] in ('inst_hub', 'reset'):
        return None
    pb, ph, ps = batch(prev), hist(prev), stored(prev)
    pp = prev.one('hub.params')
    epoch, unbonding = int(pp[0]), int(pp[2])
    tl = trace_lines(trace)
    und = [x for x in tl if x[1] == 'undelegate' and x[2] == 'hub']
    # released entries are immutable, no entry disappears
    for i, e in ph.items():
        if i not in h:
            return ('violation', 'history entry %d disappeared' % i)
        if e['rel'] and e['raw'] != h[i]['raw']:
            return ('violation', 'released history entry %d changed: %s -> %s' % (i, ' '.join(e['raw']), ' '.join(h[i]['raw'])))
        if not e['rel'] and not h[i]['rel'] and e['raw'] != h[i]['raw']:
            return ('violation', 'unreleased history entry %d changed outside a release: %s -> %s' % (i, ' '.join(e['raw']), ' '.join(h[i]['raw'])))
        if not e['rel'] and h[i]['rel']:
            if not (ok and t[0] == 'hub' and t[2] == 'withdraw'):
                return ('violation', 'batch %d was released by %r' % (i, op))
            if e['time'] + unbonding > now(prev):
                return ('violation', 'batch %d undelegated at %d released at %d, unbonding period %d not elapsed' % (i, e['time'], now(prev), unbonding))
            if (e['time'], e['bamt'], e['bapp'], e['samt'], e['sapp']) != (h[i]['time'], h[i]['bamt'], h[i]['bapp'], h[i]['samt'], h[i]['sapp']):
                return ('violation', 'release changed the time / amounts / applied rates of batch %d' % i)
    new = [i for i in h if i not in ph]
    # P08a: last_unbonded_time (the base of every later epoch test) is written only when a batch is closed
    if not new and not t[0].startswith('poke_') and s[6] != ps[6]:
        return ('violation', 'last_unbonded_time moved from %d to %d in %r although no batch was undelegated (every later epoch '
                'test is shifted)' % (ps[6], s[6], op))
    if len(new) > 1:
        return ('violation', 'one transaction closed %d batches' % len(new))
    if b[0] not in (pb[0], pb[0] + 1):
        return ('violation', 'batch id moved from %d to %d' % (pb[0], b[0]))
    if new:
        i = new[0]
        e = h[i]
        if i != pb[0] or b[0] != pb[0] + 1:
            return ('violation', 'closed batch %d but the open batch was %d' % (i, pb[0]))
        if not (now(prev) - ps[6] > epoch):
            return ('violation', 'batch %d undelegated %d s after the previous undelegation, epoch period is %d' % (i, now(prev) - ps[6], epoch))
        if e['time'] != now(prev) or s[6] != now(prev):
            return ('violation', 'batch %d stamped %d at block time %d' % (i, e['time'], now(prev)))
        if e['rel']:
            return ('violation', 'batch %d is released at the moment of undelegation' % i)
        if (b[1], b[2]) != (0, 0):
            return ('violation', 'new open batch does not start empty')
        tot = sum(int(x[4]) for x in und)
        want = e['samt'] * e['sapp'] // D + e['bamt'] * e['bapp'] // D
        if tot != want:
            return ('violation', 'batch %d undelegated %d, its requests at the recorded rates are worth %d' % (i, tot, want))
    elif und:
        return ('violation', 'undelegation without closing a batch in %r' % op)
    # time-lock: a withdrawal pays and removes only claims on batches that are released (which, by the
    # release clause above, needs the unbonding period to have elapsed since their undelegation)
    if ok and t[0] == 'hub' and len(t) > 2 and t[2] == 'withdraw' and oldwait(prev) == 0:
        u = t[1]
        left = set(w[1] for w in waits(cur) if w[0] == u)
        allowed = 0
        for (a_, bid, b_, s_) in waits(prev):
            if a_ != u:
                continue
            e = h.get(bid)
            if e and e['rel']:
                allowed += claim_val(b_, s_, e)
            elif bid not in left:
                return ('violation', 'claim of %s on batch %d was removed by a withdrawal although the batch is not released '
                        '(undelegated at %s, unbonding period %d, now %d)' % (u, bid, e['time'] if e else '-', unbonding, now(prev)))
        paid = sum(a for x in tl if x[1] == 'bank' and x[2] == 'hub' for d, a in coins(x[4]) if d == 'usei')
        if paid > allowed:
            return ('violation', 'WithdrawUnbonded paid %s %d but its claims on released batches are worth %d: coins were paid '
                    'for a batch whose unbonding period has not elapsed' % (u, paid, allowed))
    # a payment happens only in a withdrawal
    for x in tl:
        if x[1] == 'bank' and x[2] == 'hub' and not (t[0] == 'hub' and t[2] == 'withdraw'):
            return ('violation', 'the hub paid coins in %r' % op)
    return None


# ------------------------------------------------------------------ C13
def mon_c13(hs, prev, op, ok, trace, cur, known):
    t = track_inst(hs, op, ok)
    if prev is None or not ok:
        return None
    tl = trace_lines(trace)
    if wired(prev, hs) and wired(cur, hs):
        # P13a: "later bonds go only to registered validators" - every Delegate of every later transaction,
        # and of the removal transaction itself (re-bonded rewards), targets a validator of the registry
        bad = unregistered_delegate(tl, cur)
        if bad is not None:
            return ('violation', 'the hub delegated %s to %s in %r, which is not (any longer) a registered validator (registry: %s)'
                    % (bad[4], bad[3], op, ' '.join(sorted(registry_names(cur)))))
        # P13b: a transaction that redelegates (RemoveValidator, Redelegations) changes the delegated total
        # only by the rewards it re-bonds: a redelegation conserves the total
        if t[0] == 'reg' and len(t) > 2 and t[2] in ('remove', 'redelegations') and not any(x[1] == 'undelegate' for x in tl):
            rebonded = 0
            for x in tl:
                if x[1] == 'wasm' and x[3] == 'hub' and x[4] == 'bond_rewards':
                    rebonded += sum(a for d, a in coins(x[5]) if d == 'usei')
            grew = sum(delegs(cur).values()) - sum(delegs(prev).values())
            if grew != rebonded:
                return ('violation', 'the stake delegated by the hub changed by %d across %r, the rewards re-bonded in it are %d: '
                        'the redelegation did not conserve the stake' % (grew, op, rebonded))
    if t[0] != 'reg' or len(t) < 3 or t[2] != 'remove':
        return None
    v = t[3]
    # the registry's own guarantees do not depend on how the other contracts are wired
    if t[1] != prev.one('rg.cfg')[0]:
        return ('violation', 'RemoveValidator accepted from %s' % t[1])
    vals = cur.one('rg.vals')
    if vals == []:
        return ('violation', 'the registry is empty after removing %s: the last validator was removed' % v)
    if vals is not None and vals[0] != 'err' and v in [x.split(':')[0] for x in vals]:
        return ('violation', '%s is still registered after RemoveValidator' % v)
    if not (wired(prev, hs) and wired(cur, hs)):
        return None
    if vals is None or vals[0] == 'err':
        return ('violation', 'registry is unusable after removing %s' % v)
    names = [x.split(':')[0] for x in vals]
    pd, cd = delegs(prev), delegs(cur)
    env = prev.one('env')
    vi = chain_val_index(v)
    can = env[4][vi] == '1' if vi is not None else False
    red = [x for x in tl if x[1] == 'redelegate' and x[2] == 'hub']
    if can and pd.get(v, 0) > 0:
        if cd.get(v, 0) != 0:
            return ('violation', '%d stake left on removed validator %s' % (cd.get(v, 0), v))
        moved = sum(int(x[5]) for x in red if x[3] == v)
        if moved != pd[v]:
            return ('violation', 'redelegated %d of the %d delegated to %s' % (moved, pd[v], v))
        for x in red:
            if x[4] not in names:
                return ('violation', 'stake redelegated to %s which is not registered' % x[4])
    pq, cq = qstate(prev), qstate(cur)
    if pq and cq and recomputes(prev) and recomputes(cur):
        gap_before = sum(pd.values()) - (pq[2] + pq[3])
        gap_after = sum(cd.values()) - (cq[2] + cq[3])
        if gap_before >= 0 and gap_after != gap_before:
            return ('violation', 'delegated minus booked changed from %d to %d across RemoveValidator' % (gap_before, gap_after))
    return None


# ------------------------------------------------------------------ C14 / C15 / C16 (reward contract)
def holders(st):
    return {x[0]: (int(x[1]), int(x[2]), int(x[3])) for x in st.all('rw.holder')}


def acc_atomics(gi, hd):
    bal, idx, pend = hd
    return (gi - idx) * bal + pend


def rstate(st):
    v = st.one('rw.state')
    return ints(v) if v else None


def mon_c14(hs, prev, op, ok, trace, cur, known):
    t = track_inst(hs, op, ok)
    rs = rstate(cur)
    if rs is None or not wired(cur, hs) or not reward_wired(cur):
        hs['c14_ok'] = False
        return None
    gi, total, prevbal = rs
    denom = cur.one('rw.cfg')[2]
    hd = holders(cur)
    accrued = sum(int(x[1]) for x in cur.all('rw.accrued'))
    liquid = bank(cur, 'reward', denom)
    if t[0] in ('inst_reward', 'reset') or t[0].startswith('poke_') or (t[0] in ('disp', 'hub') and len(t) > 2 and t[2] in ('config', 'swapdenom')):
        hs['c14_ok'] = False
    if t[0] == 'reward' and len(t) > 2 and t[2] in ('config', 'swapdenom'):
        # a configuration message that changes nothing stored (the owner re-submits the same values) is
        # no reason for the books to move; one that re-points the contract or changes the reward coin
        # starts a new accounting period
        if prev is None or prev.one('rw.cfg') != cur.one('rw.cfg'):
            hs['c14_ok'] = False
    stale = sorted(a for a, h in hd.items() if gi < h[1])
    if stale:
        # P14b: every writer of a holder sets its index to the global index, which only grows; instantiation
        # clears the holders.  Once the accounting invariant has been established in this history, a holder
        # index above the global index means the index went backwards (its rewards would underflow)
        if hs.get('c14_ok'):
            return ('violation', 'holder %s has index %d above the global index %d after %r (the global index never decreases, '
                    'a holder index is always copied from it)' % (stale[0], hd[stale[0]][1], gi, op))
        return None   # not established: a re-instantiated reward contract with stale holders is outside the property
    # the invariant is established from an instantiated, wired reward contract; it is tracked once it holds
    atom = sum(acc_atomics(gi, h) for h in hd.values())
    holds = atom <= prevbal * D and prevbal <= liquid and total == sum(h[0] for h in hd.values())
    if not hs.get('c14_ok'):
        hs['c14_ok'] = holds
        hs['c14_updates'] = 0
        return None
    if accrued > prevbal:
        return ('violation', 'holders can claim %d but the recorded reward balance is %d' % (accrued, prevbal))
    if atom > prevbal * D:
        return ('violation', 'accrued rewards (atomics) %d exceed the recorded reward balance %d' % (atom, prevbal))
    if prevbal > liquid:
        return ('violation', 'recorded reward balance %d exceeds the actual balance %d %s' % (prevbal, liquid, denom))
    if prev is None:
        return None
    prs = rstate(prev)
    if prs is not None and rs[0] != prs[0]:
        hs['c14_updates'] = hs.get('c14_updates', 0) + 1
    # nothing is stranded: recorded balance minus accrued rewards grows only by the flooring loss of an
    # index update (less than total_balance atomics, i.e. less than one base unit under E1)
    if prs is not None and wired(prev, hs) and reward_wired(prev) and not any(prs[0] < h[1] for h in holders(prev).values()):
        patom = sum(acc_atomics(prs[0], h) for h in holders(prev).values())
        stranded_before = prs[2] * D - patom
        stranded_after = prevbal * D - atom
        allowed = prs[1] if rs[0] != prs[0] else 0
        if stranded_before >= 0 and stranded_after - stranded_before > allowed:
            return ('violation', 'rewards stranded: recorded balance minus accrued rewards grew by %d atomics in %r (allowed %d)'
                    % (stranded_after - stranded_before, op, allowed))
    if t[0] == 'reward' and t[2] == 'claim' and wired(prev, hs) and reward_wired(prev):
        u = t[1]
        pacc = {x[0]: int(x[1]) for x in prev.all('rw.accrued')}
        if ok:
            paid = 0
            for x in trace_lines(trace):
                if x[1] == 'bank' and x[2] == 'reward':
                    paid += sum(a for d, a in coins(x[4]))
            if paid != pacc.get(u, 0):
                return ('violation', 'ClaimRewards paid %d, accrued whole-unit reward was %d' % (paid, pacc.get(u, 0)))
            # P14a: ... in the reward coin, to the recipient named in the message (the claimer if none)
            want_to = t[3] if len(t) > 3 and t[3] != '-' else u
            pdenom = prev.one('rw.cfg')[2]
            for x in trace_lines(trace):
                if x[1] == 'bank' and x[2] == 'reward':
                    if x[3] != want_to:
                        return ('violation', 'ClaimRewards by %s (recipient %s) paid %s to %s' % (u, want_to, x[4], x[3]))
                    for d_, a_ in coins(x[4]):
                        if d_ != pdenom:
                            return ('violation', 'ClaimRewards by %s paid %d %s, the reward coin is %s' % (u, a_, d_, pdenom))
            ph = holders(prev).get(u, (0, 0, 0))
            ch = hd.get(u, (0, 0, 0))
            if acc_atomics(gi, ch) != acc_atomics(prs[0], ph) - paid * D:
                return ('violation', 'ClaimRewards did not keep the fractional remainder')
        elif pacc.get(u, 0) >= 1:
            return ('violation', 'ClaimRewards by %s failed although %d is claimable' % (u, pacc.get(u, 0)))
    return None


def _c15_inflow(hs, prev, op, ok, trace, cur, t):
    """ghost: reward coins that reached the reward contract since the last effective index update
    (balance differences plus what the contract itself paid out), independent of the contract's own
    bookkeeping; None while the accounting period is not well defined"""
    cfg = cur.one('rw.cfg')
    if cfg is None:
        hs.pop('c15_u', None)
        return
    denom = cfg[2]
    if t[0] == 'inst_reward' and ok:
        hs['c15_u'] = bank(cur, 'reward', denom)
        return
    if prev is None or prev.one('rw.cfg') is None or prev.one('rw.cfg')[2] != denom:
        hs.pop('c15_u', None)
        return
    if 'c15_u' not in hs:
        return
    paid = 0
    for x in trace_lines(trace):
        if x[1] == 'bank' and x[2] == 'reward':
            paid += sum(a for d, a in coins(x[4]) if d == denom)
    hs['c15_u'] += bank(cur, 'reward', denom) - bank(prev, 'reward', denom) + paid
    # an executed index update over a non-empty pool closes the period (whether or not the rest of
    # the monitor judges this operation)
    prs_ = rstate(prev)
    if ok and prs_ is not None and prs_[1] > 0 and any(
            x[1] == 'wasm' and x[3] == 'reward' and x[4] == 'update_global_index' for x in trace_lines(trace)):
        hs['c15_check'] = hs['c15_u']
        hs['c15_u'] = 0


def mon_c15(hs, prev, op, ok, trace, cur, known):
    t = track_inst(hs, op, ok)
    hs.pop('c15_check', None)
    _c15_inflow(hs, prev, op, ok, trace, cur, t)
    if prev is None or not ok:
        return None
    rs, prs = rstate(cur), rstate(prev)
    if rs is None or prs is None or not wired(cur, hs) or not wired(prev, hs) or not reward_wired(prev) or not reward_wired(cur):
        return None
    if t[0] in ('inst_reward', 'reset', 'inst_bsei') or (t[0] in ('reward', 'disp', 'hub') and len(t) > 2 and t[2] in ('config',)):
        return None
    hd, phd = holders(cur), holders(prev)
    if any(prs[0] < h[1] for h in phd.values()):
        return None
    dgi = rs[0] - prs[0]
    if dgi < 0:
        return ('violation', 'global index decreased')
    claimer = t[1] if (t[0] == 'reward' and t[2] == 'claim') else None
    for a in set(hd) | set(phd):
        ph = phd.get(a, (0, 0, 0))
        ch = hd.get(a, (0, 0, 0))
        before = acc_atomics(prs[0], ph)
        after = acc_atomics(rs[0], ch)
        if a == claimer:
            # a claim takes whole units only: what it does not pay stays accrued
            paid_ = 0
            for x in trace_lines(trace):
                if x[1] == 'bank' and x[2] == 'reward':
                    paid_ += sum(a_ for d_, a_ in coins(x[4]))
            if dgi == 0 and after != before - paid_ * D:
                return ('violation', 'ClaimRewards by %s paid %d but its accrued reward went from %d to %d atomics: %d atomics were lost'
                        % (a, paid_, before, after, before - paid_ * D - after))
            continue
        # accrual across this operation: exactly balance(before the operation's index update) x index increase.
        # Balance changes inside an UpdateGlobalIndex transaction do not occur (it moves no bSei).
        if dgi > 0 and ph[0] != ch[0]:
            continue
        want = before + ph[0] * dgi
        if after != want:
            return ('violation', 'holder %s accrued %d atomics across %r, balance x index increase gives %d' % (a, after - before, op, want - before))
    if dgi > 0 and prs[1] > 0:
        delivered = rs[2] - prs[2]
        if dgi != delivered * D // prs[1]:
            return ('violation', 'index rose by %d for %d delivered over %d bSei (floor gives %d)' % (dgi, delivered, prs[1], delivered * D // prs[1]))
    # the reward delivered per bSei, measured on the coins that actually arrived since the last update
    u = hs.get('c15_check')
    if u is not None and prs[1] > 0:
        if u >= 0 and dgi != u * D // prs[1]:
            return ('violation', 'index rose by %d per bSei in %r, but %d reward coins arrived since the last update for %d bSei (floor gives %d): '
                    'holders accrue something else than balance x reward delivered per bSei' % (dgi, op, u, prs[1], u * D // prs[1]))
    return None


def mon_c16(hs, prev, op, ok, trace, cur, known):
    t = track_inst(hs, op, ok)
    rs = rstate(cur)
    if rs is None or supply(cur, 'bsei') is None or not wired(cur, hs):
        hs['c16_on'] = False
        return None
    bal = {x[0]: int(x[1]) for x in cur.all('tok.bsei.bal')}
    hd = {a: h[0] for a, h in holders(cur).items() if h[0] != 0}
    mirrored = (bal == hd and rs[1] == supply(cur, 'bsei'))
    if t[0] in ('inst_reward', 'inst_bsei', 'inst_hub', 'inst_disp', 'reset') or (t[0] in ('reward', 'disp', 'hub', 'reg') and len(t) > 2 and t[2] == 'config'):
        hs['c16_on'] = mirrored
        return None
    if not hs.get('c16_on'):
        hs['c16_on'] = mirrored and prev is not None
        return None
    if not mirrored:
        for a in sorted(set(bal) | set(hd)):
            if bal.get(a, 0) != hd.get(a, 0):
                return ('violation', 'reward contract records %d bSei for %s, the token says %d (after %r)' % (hd.get(a, 0), a, bal.get(a, 0), op))
        return ('violation', 'reward contract total %d, bSei supply %d (after %r)' % (rs[1], supply(cur, 'bsei'), op))
    return None


# ------------------------------------------------------------------ C19 (and the F2 class of C17)
F2_TEXT = ('execute_dispatch_rewards emits a zero-coin BankMsg::Send when floor(balance x keeper_rate) = 0 '
           '(or the remainder is 0); the bank rejects it and the whole UpdateGlobalIndex fails')


def mon_c19(hs, prev, op, ok, trace, cur, known):
    t = track_inst(hs, op, ok)
    if prev is None:
        return None
    root_ugi = t[0] == 'hub' and len(t) > 3 and t[2] == 'updateglobal'
    # P19a: the UpdateGlobalIndex the registry sends after a redelegation (RemoveValidator by the owner,
    # Redelegations by anybody) is the same message and is judged by the same effect clauses (no failure
    # clause: the registry-rooted transaction has reasons of its own to fail)
    reg_ugi = (ok and t[0] == 'reg' and len(t) > 2 and t[2] in ('remove', 'redelegations')
               and 'm wasm reg hub update_global_index -' in trace)
    if not (root_ugi or reg_ugi):
        return None
    if not (wired(prev, hs) and reward_wired(prev) and not paused(prev) and in_envelope(prev)):
        return None
    env = prev.one('env')
    if env[2] != 'ok' or env[3] != 'ok':
        return None
    hc = prev.one('hub.cfg')
    if root_ugi and (t[1] not in (hc[1], hc[3]) or t[3] != '0'):
        return None
    if reg_ugi and not (wired(cur, hs) and reward_wired(cur)):
        return None
    wd = {x[0]: x[1] for x in prev.all('wdaddr')}
    if wd.get('hub') != 'disp':
        return None
    dc = prev.one('dp.cfg')
    n = int(dc[9])
    if not {'usei', dc[4]} <= set(dc[10:10 + n]) or dc[7] != 'swap' or dc[8] != 'oracle':
        return None
    if dc[5] in ('hub', 'disp', 'reward', 'swap'):
        return None   # the fee keeper is one of the protocol accounts: outside the trusted configuration (E4)
    ps = stored(prev)
    rv = prev.one('rg.vals')
    if not rv or rv[0] == 'err' or not all(chain_val_index(x.split(':')[0]) is not None for x in rv):
        return None
    if not ok:
        if ps[2] + ps[3] > 0 and len(delegs(prev)) > 0:
            return ('explain', 'UpdateGlobalIndex failed although stake is bonded')
        return None
    # ---- effects
    bd = dc[4]
    for d in ('usei', bd):
        if bank(cur, 'disp', d) != 0:
            return ('violation', 'dispatcher still holds %d %s after UpdateGlobalIndex' % (bank(cur, 'disp', d), d))
    for x in cur.all('pend'):
        if x[0] == 'hub' and int(x[3]) != 0:
            return ('violation', 'pending staking reward %s %s left on %s' % (x[3], x[2], x[1]))
    what = 'UpdateGlobalIndex' if root_ugi else 'UpdateGlobalIndex (sent by the registry in %r)' % op
    if bank(cur, 'hub', 'usei') != bank(prev, 'hub', 'usei'):
        return ('violation', '%s changed the hub liquid balance' % what)
    # P19b: ... and the rest of the withdrawal bookkeeping: prev_hub_balance, last_unbonded_time, last_processed_batch
    ps_, cs_ = stored(prev), stored(cur)
    if ps_ is not None and cs_ is not None and ps_[5:8] != cs_[5:8]:
        return ('violation', '%s changed prev_hub_balance / last_unbonded_time / last_processed_batch: %s -> %s' % (what, ps_[5:8], cs_[5:8]))
    for k in ('tok.bsei.info', 'tok.bsei.bal', 'tok.stsei.info', 'tok.stsei.bal', 'hub.wait', 'hub.hist', 'hub.batch'):
        if prev.all(k) != cur.all(k):
            return ('violation', 'UpdateGlobalIndex changed %s' % k)
    rebonded = 0
    for x in trace_lines(trace):
        if x[1] == 'wasm' and x[2] == 'disp' and x[3] == 'hub' and x[4] == 'bond_rewards':
            rebonded += sum(a for d, a in coins(x[5]) if d == 'usei')
    pq = qstate(prev)
    s = stored(cur)
    if pq is not None and recomputes(prev):
        if rebonded > 0:
            if s[2] != pq[2]:
                return ('violation', 'UpdateGlobalIndex changed the bsei pool %d -> %d' % (pq[2], s[2]))
            if s[3] != pq[3] + rebonded:
                return ('violation', 'stsei pool %d -> %d but %d was re-bonded' % (pq[3], s[3], rebonded))
        if sum(delegs(cur).values()) != sum(delegs(prev).values()) + rebonded:
            return ('violation', 'delegations grew by %d, re-bonded %d' % (sum(delegs(cur).values()) - sum(delegs(prev).values()), rebonded))
        cq = qstate(cur)
        b = batch(cur)
        cs = supply(cur, 'stsei') + b[2]
        if cq and rebonded > 0 and cs > 0 and cq[1] != rate_of(cq[3], cs):
            return ('violation', 'stsei rate after re-bonding is %d, expected %d' % (cq[1], rate_of(cq[3], cs)))
        # P19b: the bSei rate is untouched (rewards of bSei holders are paid out, never re-bonded); with
        # nothing re-bonded neither pool moves
        if cq and recomputes(cur):
            if cq[0] != pq[0]:
                return ('violation', '%s changed the bsei rate %d -> %d (bsei pool %d -> %d)' % (what, pq[0], cq[0], pq[2], cq[2]))
            if rebonded == 0 and (cq[2], cq[3]) != (pq[2], pq[3]):
                return ('violation', '%s re-bonded nothing but the pools went (%d,%d) -> (%d,%d)' % (what, pq[2], pq[3], cq[2], cq[3]))
    # bSei holders' claimable total grows by what was delivered, within dust
    rs, prs = rstate(cur), rstate(prev)
    if rs and prs and prs[1] > 0:
        delivered = bank(cur, 'reward', bd) - bank(prev, 'reward', bd)
        gi0, gi1 = prs[0], rs[0]
        grow = sum(h[0] for h in holders(prev).values()) * (gi1 - gi0)
        backlog = bank(prev, 'reward', bd) - prs[2]
        if not ((delivered + backlog) * D - prs[1] < grow <= (delivered + backlog) * D) and not any(prs[0] < h[1] for h in holders(prev).values()):
            return ('violation', 'reward contract received %d (+%d unaccounted) but holders accrued %d atomics' % (delivered, backlog, grow))
    return None


def mon_c17_f2(hs, prev, op, ok, trace, cur, known):
    """C17: dispatch must execute for every balance and keeper rate — a failing UpdateGlobalIndex in a
    standard world is handed to `explain`, which separates the recorded class F2 from anything else"""
    r = mon_c19(hs, prev, op, ok, trace, cur, known)
    if r is not None and r[0] == 'explain':
        return r
    return None


def resolve_f2(pid, last_line, full, known):
    """classify a failed UpdateGlobalIndex from the harness' `explain` output"""
    ft = [ln for ln in full.splitlines() if '(failed tx)' in ln]
    tail = ft[-1] if ft else ''
    m = re.search(r'm bank disp (\w+) (\w+):0\b', tail)
    if 'zero coin' in last_line and m:
        site = {'keeper': 'keeper', 'reward': 'reward'}.get(m.group(1), m.group(1))
        fid = 'F2'
        k = known_id(known, fid)
        if k:
            return ('known', fid, k.get('what', F2_TEXT) + ' [send to %s, %s]' % (site, m.group(2)))
        return ('violation', F2_TEXT + ' (zero-coin send to %s of %s)' % (site, m.group(2)))
    if 'zero coin' in last_line and 'bond_rewards' in tail:
        return ('violation', 'dispatcher attached zero coins to BondRewards: ' + tail.strip())
    return ('violation', 'UpdateGlobalIndex failed in a standard wired world with stake bonded: ' + last_line[:200])


# ------------------------------------------------------------------ C09 (passive part; the dry-run probes are in the harness)
def mon_c09_epoch(hs, prev, op, ok, trace, cur, known):
    """the request is undelegated by the first unbond that arrives after the epoch period: an accepted
    unbond arriving more than one epoch period after the previous undelegation (the time recorded in the
    last history entry, or the hub's instantiation) closes the open batch - whatever else happened in
    between (parameter updates, pause cycles, other users' operations)"""
    t = track_inst(hs, op, ok)
    if t[0] == 'inst_hub' and ok:
        hs['c09_inst_time'] = now(cur)
    if prev is None or not ok or not standard(prev, cur, hs):
        return None
    if not (t[0] == 'cw' and t[3] in ('send', 'sendfrom') and t[-1] == 'unbond' and t[-3] == 'hub'):
        return None
    ph = hist(prev)
    last = max((e['time'] for e in ph.values()), default=hs.get('c09_inst_time'))
    if last is None:
        return None
    epoch = int(prev.one('hub.params')[0])
    if now(prev) - last > epoch and batch(cur)[0] == batch(prev)[0]:
        return ('violation', 'unbond at t=%d did not undelegate the open batch although the previous undelegation was at t=%d '
                'and the epoch period is %d' % (now(prev), last, epoch))
    return None


def mon_c09(hs, prev, op, ok, trace, cur, known):
    t = track_inst(hs, op, ok)
    if prev is None or ok or not standard(prev, cur, hs):
        return None
    if not (t[0] == 'cw' and t[3] == 'send' and t[-1] == 'unbond' and t[-3] == 'hub'):
        return None
    tok, u, amt = t[1], t[2], int(t[-2])
    bal = {x[0]: int(x[1]) for x in prev.all('tok.%s.bal' % tok)}
    if amt == 0 or amt > bal.get(u, 0):
        return None
    if hs.get('%s_hub' % tok, 'hub') != 'hub':
        return None
    if tok == 'bsei' and not (reward_mirror_ok(prev)):
        return None
    dl = delegs(prev)
    if len(dl) == 0 or sum(dl.values()) == 0:
        return None   # excluded: validator set slashed to zero / nothing delegated
    if f5_class(prev):
        k = known_id(known, 'F5')
        if k:
            return ('known', 'F5', k.get('what', F5_TEXT))
        return ('violation', F5_TEXT)
    return ('explain', 'holder %s could not unbond %d of its %d %s' % (u, amt, bal.get(u, 0), tok))


def reward_mirror_ok(st):
    rs = rstate(st)
    if rs is None:
        return False
    bal = {x[0]: int(x[1]) for x in st.all('tok.bsei.bal')}
    hd = {a: h[0] for a, h in holders(st).items() if h[0] != 0}
    return bal == hd and rs[1] == supply(st, 'bsei')


def resolve_c09(pid, last_line, full, known):
    if 'Sub' in last_line or 'Overflow' in last_line or 'overflow' in last_line:
        k = known_id(known, 'F5')
        # F5 shows as a checked_sub on a pool; anything else is a new violation
    return ('violation', 'exit failed: ' + last_line[:240])


def mon_c09_probes(hs, prev, op, ok, trace, cur, known):
    """judge the dry-run probes the harness ran on clones of the world AFTER this operation"""
    track_inst(hs, op, ok)
    pr = hs.get('_probes') or []
    if not pr:
        return None
    hs['c09_probes'] = hs.get('c09_probes', 0) + len(pr)
    base_ok = (wired(cur, hs) and not paused(cur) and oldwait(cur) == 0 and in_envelope(cur)
               and not hs.get('legacy'))
    dl = delegs(cur)
    backed = len(dl) > 0 and sum(dl.values()) > 0
    for p in pr:
        kind = p[0]
        if kind == 'stub':
            if p[1] == 'diff' and wired(cur, hs):
                return ('violation', 'result depends on the swap/oracle contracts: ' + ' '.join(p[2:])[:300])
            continue
        if not base_ok or not backed:
            continue
        if kind == 'unbond' and p[4] == 'err':
            tok, a, amt = p[1], p[2], int(p[3])
        elif kind == 'exit' and p[3] == 'err':
            tok, a, amt = p[1], p[2], None
        else:
            continue
        if hs.get('%s_hub' % tok, 'hub') != 'hub':
            continue
        if tok == 'bsei' and not (reward_wired(cur) and reward_mirror_ok(cur)):
            continue
        hp = cur.one('hub.params')
        if now(cur) < int(hp[2]) or int(hp[0]) > 10 ** 7 or int(hp[2]) > 10 ** 7:
            continue
        if int(cur.one('env')[0]) > int(hp[2]):
            continue   # E2/E3: chain unbonding time must not exceed the hub's unbonding_period
        if f5_class(cur):
            k = known_id(known, 'F5')
            if k:
                return ('known', 'F5', k.get('what', F5_TEXT))
            return ('violation', F5_TEXT)
        if kind == 'unbond':
            return ('violation', 'holder %s can not unbond %d %s: %s' % (a, amt, tok, ' '.join(p[5:])[:200]))
        return ('violation', 'holder %s can not exit %s at stage %s: %s' % (a, tok, p[4], ' '.join(p[5:])[:200]))
    return None


def mon_c09_withdraw(hs, prev, op, ok, trace, cur, known):
    """C09: once released, a claim worth at least one base unit can be withdrawn (the failing-withdrawal
    clause of the C01 monitor)"""
    t = op.split(' ')
    if ok or not (t[0] == 'hub' and len(t) > 2 and t[2] == 'withdraw'):
        return None
    return mon_c01(hs, prev, op, ok, trace, cur, known)
