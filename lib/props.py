"""Per-property configuration of ./check: property file, theorems that must be present, kernel
streams (T1), history profiles / scenarios (T2), observation keys and operation kinds the property
depends on (a model/implementation disagreement whose first differing line is outside them is not
counted against this property), assumptions recorded in the evidence."""

SIZES = {
    'quick': {'kernel': 20000, 'hist': 320, 'len': 48},
    'thorough': {'kernel': 400000, 'hist': 4000, 'len': 60},
}

# the synthesised-state stream (DESIGN.md 11.6): DIFF-ONLY correspondence stream whose histories start
# from a synthesised deep state written with poke_* operations; 8-14 follow-up operations each
SYNTH_SIZES = {
    'quick': {'hist': 96, 'len': 14},
    'thorough': {'hist': 3000, 'len': 14},
}
SYNTH_PROPS = ['C01', 'C02', 'C03', 'C04', 'C05', 'C06', 'C07', 'C08', 'C09', 'C13', 'C14', 'C15', 'C16', 'C19']

# scenario files that start from poked (state-injected) worlds: compared, not monitored
# (queries.ops: directed histories for the listing queries, DESIGN.md 11.10; two of them poke)
DIFF_ONLY_SCENARIOS = ['coverage_gaps.ops', 'queries.ops']

# the query-side twins of the stored-state lines (PROTOCOL.md section 5): same information as
# hub.cfg / hub.newowner / hub.params / rw.cfg / ... but obtained through the contracts' query entry points
QCFG_KEYS = ['hub.qcfg', 'hub.qnewowner', 'hub.qparams', 'rw.qcfg', 'rw.qnewowner', 'dp.qcfg', 'dp.qnewowner',
             'rg.qcfg', 'rg.qnewowner']

ENV_ASSUME = [
    'environment model of DESIGN.md section 7 (atomic transactions, depth-first dispatch, bank rejects zero/overdraft sends, exact staking accounting)',
]

# message-surface tie (DESIGN.md 11.11): `krp-harness surface` prints the variants and fields of the
# instantiate / execute / hook / migrate / query message types of the six contracts from the code's own
# types (schemars); lib/surface.txt pins the surface the model's message alphabet was written against.
# A NEW variant or field of a state-changing message kind is outside every theorem's quantification, so
# the properties of that contract are no longer shown; new QUERY variants are harmless and ignored.
SURFACE_KINDS = ('execute', 'hook', 'instantiate', 'migrate')
_HUB_SURF = ['hub.']
SURFACE = {
    'C01': _HUB_SURF, 'C02': _HUB_SURF + ['reg.'], 'C03': _HUB_SURF, 'C04': _HUB_SURF, 'C05': _HUB_SURF, 'C06': _HUB_SURF,
    'C07': _HUB_SURF, 'C08': _HUB_SURF, 'C09': _HUB_SURF, 'C10': ['hub.', 'reward.', 'disp.', 'reg.', 'bsei.', 'stsei.'],
    'C11': _HUB_SURF, 'C12': ['reg.'], 'C13': ['reg.', 'hub.'], 'C14': ['reward.'], 'C15': ['reward.'],
    'C16': ['reward.', 'bsei.'], 'C17': ['disp.'], 'C18': ['bsei.', 'stsei.'], 'C19': ['disp.', 'hub.', 'reward.'],
    'C20': ['hub.', 'disp.', 'reward.', 'reg.'],
}

PROPS = {
    'C12': dict(
        props_file='Props/C12.v',
        theorems=['C12_deleg_total', 'C12_deleg_bounds', 'C12_undeleg_total', 'C12_deleg_err_iff', 'C12_undeleg_err_iff'],
        kernels=['deleg', 'undeleg'],
        scenarios=['basic.ops'],
        profiles=['registry'],
        keys=['m delegate', 'm undelegate', 'm redelegate', 'del '],
        ops=[r'^$'],
        assumes=['model functions deleg/undeleg are tied to calculate_delegations/calculate_undelegations by the kernel streams of this run'],
    ),
    'C17': dict(
        props_file='Props/C17.v',
        theorems=['C17_offer_le_held', 'C17_inv_hyp', 'C17_share_within_rounding', 'C17_dispatch_exact',
                  'C17_dispatch_conserves', 'C17_dispatch_succeeds', 'C17_rate_le_one_init',
                  'C17_rate_le_one_step', 'C17_no_zero_transfer', 'C17_known_F2_witness'],
        kernels=['swapinfo'],
        scenarios=['basic.ops', 'branches.ops', 'paramgrid.ops'],
        profiles=['rewards'],
        keys=['m bank disp', 'm wasm disp', 'm wasm hub disp', 'dp.', 'bank disp', 'bank keeper'],
        ops=[r'^disp ', r'^inst_disp', r'^hub \S+ updateglobal'],
        assumes=['swap and oracle stubs of PROTOCOL.md section 4 (E7)', 'bank rejects zero-coin sends (E5)'],
    ),
    'C10': dict(
        props_file='Props/C10.v',
        theorems=['C10_hub', 'C10_dispatcher', 'C10_reward', 'C10_registry', 'C10_bsei_token', 'C10_stsei_token',
                  'C10_hub_set_owner', 'C10_hub_accept', 'C10_token_addr_immutable', 'C10_hub_static',
                  'C10_rejected_changes_nothing', 'C10_root_rejected'],
        kernels=[], scenarios=['basic.ops', 'paramgrid.ops', 'admin.ops', 'queries.ops'], grid=True, profiles=['config'],
        keys=['hub.cfg', 'hub.newowner', 'hub.params', 'rw.cfg', 'rw.newowner', 'dp.cfg', 'dp.newowner', 'rg.cfg',
              'rg.newowner', 'rg.vals', 'tok.bsei.info', 'tok.stsei.info'] + QCFG_KEYS,
        ops=[r'^(hub|reward|disp|reg) ', r'^bond rw', r'^cw \S+ \S+ (mint|burn|updminter)'],
        assumes=['the grid (message variant x sender class x world kind) is enumerated exhaustively by the harness'],
    ),
    'C11': dict(
        props_file='Props/C11.v',
        theorems=['C11_paused_blocks', 'C11_paused_tx_rejected', 'C11_params_owner_only', 'C11_no_unpause_with_legacy',
                  'C11_migrate_unpauses_only_when_drained', 'C11_queries_ignore_pause', 'C11_pause_cycle_identity',
                  'C11_migrate_noop_without_legacy'],
        kernels=[], scenarios=['basic.ops', 'paramgrid.ops', 'legacy.ops'], grid=True, profiles=['pause'],
        keys=['hub.'],
        ops=[r'^hub ', r'^bond ', r'^legacy_wait'],
        assumes=['legacy wait-list entries only for user0..user7 and, per history, batch ids from 1..9 or from {1, 10..19} (within each set storage order = model order, PROTOCOL.md 3.1)'],
    ),
    'C20': dict(
        props_file='Props/C20.v',
        theorems=['C20_params_in_range', 'C20_denoms_fixed', 'C20_hub_params_omitted', 'C20_hub_config_omitted',
                  'C20_disp_config_omitted', 'C20_reward_config_omitted', 'C20_reg_config_omitted',
                  'C20_rejected_changes_nothing'],
        kernels=[], scenarios=['basic.ops', 'paramgrid.ops', 'admin.ops', 'queries.ops'], profiles=['config'],
        keys=['hub.params', 'hub.cfg', 'dp.cfg', 'rw.cfg', 'rg.cfg', 'hub.newowner', 'dp.newowner', 'rw.newowner', 'rg.newowner'] + QCFG_KEYS,
        ops=[r'^inst_', r'^hub \S+ (params|config)', r'^disp \S+ (config|swapdenom|swapcontract|oracle)',
             r'^reward \S+ (config|swapdenom)', r'^reg \S+ config'],
        assumes=[],
    ),
    'C18': dict(
        props_file='Props/C18.v',
        theorems=['C18_supply_invariant_reachable', 'C18_bsei_preserves', 'C18_stsei_preserves', 'C18_instantiate',
                  'C18_move_conserves', 'C18_mint_only_minter', 'C18_burn_only_hub', 'C18_allowance_bound'],
        kernels=[], scenarios=['basic.ops', 'token.ops', 'queries.ops'], profiles=['token'],
        keys=['tok.', 'm wasm bsei', 'm wasm stsei'],
        ops=[r'^cw ', r'^inst_bsei', r'^inst_stsei'],
        assumes=['all token holders are among the 21 named addresses (only those appear in operations)'],
    ),
}

HUBKEYS = ['hub.stored', 'hub.state', 'hub.qdep', 'hub.batch', 'hub.hist', 'hub.qhist', 'hub.wait', 'hub.wd', 'tok.', 'bank hub', 'del ', 'unb ',
           'm delegate', 'm undelegate', 'm redelegate', 'm bank hub', 'm wasm hub', 'm wasm bsei hub', 'm wasm stsei hub',
           'm wasm user', 't']
HUBOPS = [r'^bond ', r'^cw ', r'^hub \S+ (withdraw|checkslashing|updateglobal|receive)', r'^(advance|slash|gift|accrue)', r'^reg ']
E_ENV = ['operating envelope of DESIGN.md section 4 (E1 magnitudes <= 1e18, E2 time, E3 delivery of matured unbondings, E4 trusted wiring, E6 no legacy storage)']


def _hub(pid, theorems, profiles, kernels=(), extra_keys=(), assumes=()):
    return dict(props_file='Props/%s.v' % pid, theorems=list(theorems), kernels=list(kernels),
                scenarios=['basic.ops', 'findings.ops', 'branches.ops', 'overflow.ops', 'backlog.ops', 'funds.ops', 'admin.ops', 'coverage_gaps.ops', 'queries.ops'], profiles=list(profiles), keys=HUBKEYS + list(extra_keys),
                ops=HUBOPS, assumes=E_ENV + list(assumes))


PENDING = {
    'C01': _hub('C01', [], ['unbond', 'general'], kernels=['nwr']),
    'C02': _hub('C02', [], ['registry', 'general'], kernels=['deleg', 'undeleg'], extra_keys=['rg.vals']),
    'C03': _hub('C03', [], ['pricing'], kernels=['ddiv']),
    'C04': _hub('C04', [], ['pricing', 'general']),
    'C05': _hub('C05', [], ['pricing'], extra_keys=['hub.params', 'hub.qparams']),
    'C06': _hub('C06', [], ['pricing', 'unbond'], kernels=['nwr']),
    'C07': _hub('C07', [], ['unbond', 'token']),
    'C08': _hub('C08', [], ['unbond', 'general'], extra_keys=['hub.params', 'hub.qparams']),
    'C09': dict(_hub('C09', [], ['exit'], extra_keys=['env']), probe=True),
    'C13': _hub('C13', [], ['registry'], kernels=['deleg'], extra_keys=['rg.']),
    'C14': dict(props_file='Props/C14.v', theorems=[], kernels=['drewards'], scenarios=['basic.ops', 'findings.ops', 'branches.ops', 'overflow.ops', 'funds.ops', 'queries.ops'],
                profiles=['rewards', 'token'], keys=['rw.', 'bank reward', 'm bank reward', 'm wasm bsei reward', 'm wasm disp reward', 'tok.bsei'],
                ops=[r'^reward ', r'^cw bsei', r'^hub \S+ updateglobal', r'^bond b', r'^inst_reward'], assumes=E_ENV),
    'C15': dict(props_file='Props/C15.v', theorems=[], kernels=['drewards'], scenarios=['basic.ops', 'findings.ops', 'branches.ops', 'overflow.ops', 'funds.ops', 'queries.ops'],
                profiles=['rewards', 'token'], keys=['rw.', 'bank reward', 'm wasm bsei reward', 'm wasm disp reward', 'tok.bsei'],
                ops=[r'^reward ', r'^cw bsei', r'^hub \S+ updateglobal', r'^bond b'], assumes=E_ENV),
    'C16': dict(props_file='Props/C16.v', theorems=[], kernels=[], grid=True, scenarios=['basic.ops', 'findings.ops', 'branches.ops', 'overflow.ops', 'token.ops', 'queries.ops'],
                profiles=['token', 'general'], keys=['rw.holder', 'rw.state', 'rw.qholders', 'rw.qstate', 'tok.bsei', 'm wasm bsei', 'm wasm hub bsei'],
                ops=[r'^cw bsei', r'^bond b', r'^reward \S+ (inc|dec)'], assumes=E_ENV + ['bSei instantiated without initial balances']),
    'C19': dict(props_file='Props/C19.v', theorems=[], kernels=['swapinfo', 'drewards'], scenarios=['basic.ops', 'findings.ops', 'branches.ops', 'overflow.ops', 'funds.ops'],
                profiles=['rewards'], keys=HUBKEYS + ['m ', 'bank ', 'pend', 'rw.', 'dp.'],
                ops=[r'^hub \S+ updateglobal', r'^reg \S+ remove', r'^accrue'], assumes=E_ENV + ['swap and oracle stubs of PROTOCOL.md section 4 (E7)']),
}


# a pending property becomes claimed once its theorem names are pinned in lib/theorems.json
# (written by tools/integrate.py when the proof files are added to _CoqProject)
import json as _json, os as _os
_tj = _os.path.join(_os.path.dirname(_os.path.abspath(__file__)), 'theorems.json')
if _os.path.exists(_tj):
    for _pid, _thms in _json.load(open(_tj)).items():
        if _pid in PENDING:
            PROPS[_pid] = dict(PENDING.pop(_pid), theorems=_thms)
        elif _pid in PROPS:
            PROPS[_pid]['theorems'] = sorted(set(PROPS[_pid]['theorems']) | set(_thms))

_ej = _os.path.join(_os.path.dirname(_os.path.abspath(__file__)), 'extra_props.json')
if _os.path.exists(_ej):
    for _pid, _files in _json.load(open(_ej)).items():
        if _pid in PROPS:
            PROPS[_pid]['extra_props_files'] = _files

# hub-side properties also run the synthesised-state stream; a poke whose outcome differs between the
# two sides is relevant to all of them
for _pid in SYNTH_PROPS:
    _spec = PROPS.get(_pid) or PENDING.get(_pid)
    # VERIF_NO_SYNTH=1 (measurements only): run the check without the synthesised-state stream
    if _spec is not None and _os.environ.get('VERIF_NO_SYNTH') != '1':
        _spec['synth'] = True
        _spec['ops'] = list(_spec.get('ops', [])) + [r'^poke_']
