"""Per-property configuration of ./check: property file, theorems that must be present, kernel
streams (T1), history profiles / scenarios (T2), observation keys and operation kinds the property
depends on (a model/implementation disagreement whose first differing line is outside them is not
counted against this property), assumptions recorded in the evidence."""

SIZES = {
    'quick': {'kernel': 20000, 'hist': 160, 'len': 40},
    'thorough': {'kernel': 400000, 'hist': 4000, 'len': 60},
}

ENV_ASSUME = [
    'environment model of DESIGN.md section 7 (atomic transactions, depth-first dispatch, bank rejects zero/overdraft sends, exact staking accounting)',
]

PROPS = {
    'C12': dict(
        props_file='Props/C12.v',
        theorems=['C12_deleg_total', 'C12_deleg_bounds', 'C12_undeleg_total', 'C12_deleg_err_iff', 'C12_undeleg_err_iff'],
        kernels=['deleg', 'undeleg'],
        scenarios=['basic.ops'],
        profiles=['registry'],
        keys=['m delegate', 'm undelegate', 'm redelegate', 'del '],
        ops=[r'^$'],
        assumes=['model functions deleg/undeleg are tied to calculate_delegations/calculate_undelegations by the kernel streams of this run'],
    ),
    'C17': dict(
        props_file='Props/C17.v',
        theorems=['C17_offer_le_held', 'C17_inv_hyp', 'C17_share_within_rounding', 'C17_dispatch_exact',
                  'C17_dispatch_conserves', 'C17_dispatch_succeeds', 'C17_rate_le_one_init',
                  'C17_rate_le_one_step', 'C17_no_zero_transfer', 'C17_known_F2_witness'],
        kernels=['swapinfo'],
        scenarios=['basic.ops'],
        profiles=['rewards'],
        keys=['m bank disp', 'm wasm disp', 'm wasm hub disp', 'dp.', 'bank disp', 'bank keeper'],
        ops=[r'^disp ', r'^inst_disp', r'^hub \S+ updateglobal'],
        assumes=['swap and oracle stubs of PROTOCOL.md section 4 (E7)', 'bank rejects zero-coin sends (E5)'],
    ),
}
