"""Parsing of observation files (PROTOCOL.md section 5), model/implementation comparison with
per-property relevance, and running of the executable property monitors on the implementation."""
import re


def read_ops(path):
    ops = []
    with open(path) as f:
        for ln in f:
            s = ln.strip()
            if not s or s.startswith('#'):
                continue
            ops.append(s)
    return ops


def blocks(path):
    """yield (header_tokens, trace_lines, dump_lines) per operation block"""
    with open(path) as f:
        hdr = None
        trace = []
        dump = []
        for ln in f:
            ln = ln.rstrip('\n')
            if ln.startswith('op '):
                hdr = ln.split(' ')
                trace = []
                dump = []
            elif ln == 'end':
                yield hdr, trace, dump
                hdr = None
            elif ln.startswith('m '):
                trace.append(ln)
            else:
                dump.append(ln)


class State:
    """parsed dump: key -> list of token lists (tokens after the key)"""
    __slots__ = ('d', 'lines')

    def __init__(self, lines):
        self.lines = lines
        d = {}
        for ln in lines:
            sp = ln.split(' ')
            d.setdefault(sp[0], []).append(sp[1:])
        self.d = d

    def one(self, key):
        v = self.d.get(key)
        return v[0] if v else None

    def all(self, key):
        return self.d.get(key, [])

    def num(self, key, idx, default=0):
        v = self.one(key)
        if v is None or idx >= len(v):
            return default
        try:
            return int(v[idx])
        except ValueError:
            return default

    def table(self, key, nkeys):
        """dict from tuple(first nkeys tokens) to remaining tokens"""
        return {tuple(t[:nkeys]): t[nkeys:] for t in self.all(key)}


def split_funds(op):
    """`funds N DENOM AMT ... TRANSACTION` -> ([(denom, amount)], 'TRANSACTION'); (None, op) otherwise"""
    t = op.split(' ')
    if t[0] != 'funds':
        return None, op
    n = int(t[1])
    coins = [(t[2 + 2 * i], int(t[3 + 2 * i])) for i in range(n)]
    return coins, ' '.join(t[2 + 2 * n:])


def tx_parties(op):
    """(sender, target) of a transaction operation line (without a funds prefix)"""
    t = op.split(' ')
    if t[0] == 'bond':
        return t[2], 'hub'
    if t[0] == 'cw':
        return t[2], t[1]
    return t[1], t[0]


CONTRACT_ADDRS = {'hub', 'reward', 'disp', 'reg', 'bsei', 'stsei', 'swap', 'oracle', 'airdrop'}
ADDRS_ORDER = ['hub', 'reward', 'disp', 'reg', 'bsei', 'stsei', 'swap', 'oracle', 'airdrop', 'owner', 'updater', 'keeper',
               'nobody', 'user0', 'user1', 'user2', 'user3', 'user4', 'user5', 'user6', 'user7']
DENOMS_ORDER = ['uAtom', 'ujunk', 'usei', 'uusd']


def _bank_key(ln):
    sp = ln.split(' ')
    a = ADDRS_ORDER.index(sp[1]) if sp[1] in ADDRS_ORDER else len(ADDRS_ORDER)
    d = DENOMS_ORDER.index(sp[2]) if sp[2] in DENOMS_ORDER else len(DENOMS_ORDER)
    return (a, d, sp[1], sp[2])


def with_transfer(state, sender, target, denom, amt):
    """the dump `state` after a bank transfer of amt denom from sender to target (nothing else changes):
    attached coins reach the target's account before the contract executes, so for the monitors a
    transaction with attached coins is exactly `transfer; the plain transaction`. The bank lines keep the
    canonical order of the dump (ADDRS order, then DENOMS order; zero balances are not listed)."""
    banks = {}
    out = []
    pos = None
    for ln in state.lines:
        sp = ln.split(' ')
        if sp[0] == 'bank' and len(sp) == 4:
            if pos is None:
                pos = len(out)
            banks[(sp[1], sp[2])] = int(sp[3])
        else:
            out.append(ln)
    if pos is None:
        # no bank line at all: the block sits directly before the `env` line (PROTOCOL.md section 5)
        pos = next((i_ for i_, l_ in enumerate(out) if l_.startswith('env ')), len(out))
    if sender != target:
        banks[(sender, denom)] = banks.get((sender, denom), 0) - amt
        banks[(target, denom)] = banks.get((target, denom), 0) + amt
    block = sorted(('bank %s %s %d' % (a, d, x) for (a, d), x in banks.items() if x != 0), key=_bank_key)
    return State(out[:pos] + block + out[pos:])


def op_kind(op):
    coins, op = split_funds(op)
    if coins is not None:
        return op_kind(op) + ' +funds'
    t = op.split(' ')
    if t[0] in ('hub', 'reward', 'disp', 'reg') and len(t) > 2:
        return t[0] + ' ' + t[2]
    if t[0] == 'cw' and len(t) > 3:
        return 'cw ' + t[1] + ' ' + t[3]
    if t[0] == 'bond' and len(t) > 1:
        return 'bond ' + t[1]
    return t[0]


def line_key(ln):
    if ln.startswith('m '):
        sp = ln.split(' ', 2)
        return 'm ' + sp[1]
    return ln.split(' ', 1)[0]


def relevant(spec, opline, difline):
    if difline.startswith('op '):
        opline = split_funds(opline)[1]
        for pat in spec.get('ops', ['.*']):
            if re.match(pat, opline):
                return True
        return False
    # the observation keys of a property are PREFIXES of observation lines (`m bank hub`, `del `,
    # `tok.`, `hub.hist` ...): match them against the whole line
    for pre in spec.get('keys', ['']):
        if difline.startswith(pre):
            return True
    return False


def load_probes(path):
    """probe file of `krp-harness probe` -> list (one per history) of {op index: [token lists]}"""
    hists = []
    cur = None
    with open(path) as f:
        for ln in f:
            ln = ln.rstrip('\n')
            if ln == 'history':
                cur = {}
                hists.append(cur)
            elif ln.startswith('probe ') and cur is not None:
                t = ln.split(' ')
                cur.setdefault(int(t[1]), []).append(t[2:])
    return hists


def compare_and_monitor(opsf, robs, mobs, pid, spec, M, known, probes=None, run_monitors=True):
    """run_monitors=False: DIFF-ONLY stream (the synthesised-state stream): model and implementation
    observations are compared exactly as for every other stream (relevance by the property's keys),
    but the property monitors are not run (a synthesised start state is not guaranteed reachable,
    so a monitor alarm there would not be a violation of the property)"""
    ops = read_ops(opsf)
    probe_hists = load_probes(probes) if probes else None
    hist_no = -1
    res = dict(histories=0, ops=0, ok=0, err=0, first_diffs=0, relevant_diffs=0, opkinds={},
               monitor_checks=0, monitor_violations=[], relevant=[], known_hits={}, samples=[], explain=[])
    mons = M.HISTORY_MONITORS.get(pid, []) if run_monitors else []
    rb = blocks(robs)
    mb = blocks(mobs)
    hist_ops = []
    tainted = False
    prev = None
    hstate = {}
    k = 0
    first_hist = None
    for op in ops:
        try:
            rh, rt, rd = next(rb)
        except StopIteration:
            res['relevant'].append(dict(op_index=k, op=op, implementation='<missing block>', model='', ops=hist_ops + [op]))
            break
        try:
            mh, mt, md = next(mb)
        except StopIteration:
            mh, mt, md = (['op', '?', 'missing'], [], [])
        if op.startswith('reset'):
            hist_no += 1
            if first_hist is None and hist_ops:
                first_hist = hist_ops[:14]
            res['histories'] += 1
            hist_ops = []
            tainted = False
            prev = None
            hstate = {}
        hist_ops.append(op)
        res['ops'] += 1
        okflag = (rh[2] == 'ok')
        res['ok' if okflag else 'err'] += 1
        kind = op_kind(op)
        kk = kind + (':ok' if okflag else ':err')
        res['opkinds'][kk] = res['opkinds'].get(kk, 0) + 1
        # ---- comparison
        if not tainted:
            # all differing lines of this block, in order: the outcome line first, then trace and dump lines
            # (compared position by position; a missing line differs from everything). The disagreement counts
            # against the property if ANY of them is one of its observation keys / operation kinds - not only the
            # first one: an operation kind the property does not list may still change state the property observes
            difs = []
            if rh != mh:
                difs.append((' '.join(rh), ' '.join(mh)))
            rl = rt + rd
            ml = mt + md
            if rl != ml:
                for a, b in zip(rl, ml):
                    if a != b:
                        difs.append((a, b))
                        if len(difs) > 200:
                            break
                if len(rl) > len(ml):
                    difs.append((rl[len(ml)], '<no line>'))
                elif len(ml) > len(rl):
                    difs.append(('<no line>', ml[len(rl)]))
            dif = None
            if difs:
                dif = difs[0]
                for d_ in difs:
                    if relevant(spec, op, d_[0] if d_[0] != '<no line>' else d_[1]):
                        dif = d_
                        break
            if dif is not None:
                tainted = True
                res['first_diffs'] += 1
                key_line = dif[0] if dif[0] != '<no line>' else dif[1]
                if relevant(spec, op, key_line):
                    res['relevant_diffs'] += 1
                    if len(res['relevant']) < 5:
                        res['relevant'].append(dict(op_index=int(rh[1]), op=op, implementation=dif[0], model=dif[1],
                                                    ops=list(hist_ops)))
        # ---- monitors on the implementation
        if mons:
            cur = State(rd)
            if probe_hists is not None:
                hstate['_probes'] = probe_hists[hist_no].get(int(rh[1]), []) if 0 <= hist_no < len(probe_hists) else []
            # a transaction with attached coins is shown to the monitors as the bank transfer(s) of the
            # attached coins (an unsolicited transfer, `gift TARGET DENOM AMT`) followed by the plain
            # transaction on the world after them; a failed transaction moved nothing
            coins, plain = split_funds(op)
            steps = []
            if coins is not None and okflag and tx_parties(plain)[0] in CONTRACT_ADDRS:
                # a contract address "signing" a transaction that carries coins spends that contract's own
                # balance - something no contract of the protocol can do on a chain (contracts hold no keys).
                # Whatever the verb, the rest of the history is not judged by the monitors that quantify over
                # transactions of users / owner / updater (`guarded`, monitors2.py); no synthetic transfer step
                hstate['tainted'] = True
                steps.append((prev, plain, okflag, rt, cur))
            elif coins is not None and okflag and prev is not None:
                sender_, target_ = tx_parties(plain)
                st_ = prev
                for dn_, am_ in coins:
                    nx_ = with_transfer(st_, sender_, target_, dn_, am_)
                    steps.append((st_, 'gift %s %s %d' % (target_, dn_, am_), True, [], nx_))
                    st_ = nx_
                steps.append((st_, plain, okflag, rt, cur))
            elif coins is not None and prev is not None:
                # failed: if the sender cannot pay the attached coins the bank explains the failure and the
                # contracts were never called (nothing to judge); otherwise the plain transaction failed on
                # the world after the transfer (and everything was rolled back). A contract address as
                # sender is not judged either: the intermediate world in which a contract has given away its
                # own coins is not one the properties speak about
                sender_, target_ = tx_parties(plain)
                need = {}
                for dn_, am_ in coins:
                    need[dn_] = need.get(dn_, 0) + am_
                bank_ = {(t_[0], t_[1]): int(t_[2]) for t_ in prev.all('bank') if len(t_) == 3}
                if sender_ in CONTRACT_ADDRS or plain.startswith('bond') or any(bank_.get((sender_, dn_), 0) < am_ for dn_, am_ in need.items()):
                    steps = []
                else:
                    st_ = prev
                    for dn_, am_ in coins:
                        st_ = with_transfer(st_, sender_, target_, dn_, am_)
                    steps.append((st_, plain, False, [], st_))
            else:
                steps.append((prev, plain, okflag, rt, cur))
            for mon in mons:
              for (pv_, op_, ok_, tr_, cu_) in steps:
                res['monitor_checks'] += 1
                try:
                    out = mon(hstate, pv_, op_, ok_, tr_, cu_, known)
                except Exception as e:  # a monitor bug must not masquerade as a violation silently
                    out = ('error', 'monitor %s crashed: %r' % (getattr(mon, '__name__', '?'), e))
                if out is None:
                    continue
                if out[0] == 'known':
                    res['known_hits'][out[1]] = out[2]
                elif out[0] == 'explain':
                    if len(res['explain']) < 400:
                        res['explain'].append(dict(op_index=int(rh[1]), op=op, message=out[1], ops=list(hist_ops)))
                elif len(res['monitor_violations']) < 5:
                    res['monitor_violations'].append(dict(op_index=int(rh[1]), op=op, message=out[1],
                                                          ops=list(hist_ops)))
            prev = cur
        k += 1
    if first_hist is None:
        first_hist = hist_ops[:14]
    res['samples'] = [first_hist]
    return res
