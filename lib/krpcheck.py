"""Core of ./check: builds, audits, correspondence streams, monitors, verdicts, evidence."""
import sys, os, subprocess, json, time, hashlib, re, fcntl, shutil, glob

import props as P
import monitors as M
import obsparse

# development only: VERIF_REPO points the build at another checkout (a pristine worktree for soak runs while
# /repo is being patched); runs with it never write the evidence of record
REPO = os.environ.get('VERIF_REPO', '/repo')
GUARD = 'kryptonitedao_krp_staking_contracts_verif'
FORBIDDEN = re.compile(r'\b(Admitted|admit|Axiom|Axioms|Parameter|Parameters|Conjecture|Conjectures|'
                       r'Unset\s+Guard|bypass_check|Admit\s+Obligations|Hypothesis|Hypotheses|Variable|Variables)\b'
                       r'|type-in-type|impredicative-set|Unset\s+Universe\s+Checking|Unset\s+Positivity')
ALLOWED_ASSUMPTIONS = set()   # names of stdlib axioms allowed in Print Assumptions (none needed so far)


class Ctx:
    def __init__(self, root):
        self.root = root
        self.build = os.environ.get('VERIF_BUILD') or os.path.join(root, 'build')
        self.coq = os.path.join(root, 'coq')
        self.harness_bin = os.path.join(self.build, 'harness-target', 'release', 'krp-harness')
        self.driver_bin = os.path.join(self.build, 'driver')
        self.log = []
        os.makedirs(self.build, exist_ok=True)

    def say(self, *a):
        print(*a, flush=True)


def run(cmd, cwd=None, env=None, timeout=None, stdin=None, capture=True):
    e = dict(os.environ)
    e.update({'CARGO_NET_OFFLINE': 'true'})
    if env:
        e.update(env)
    p = subprocess.run(cmd, cwd=cwd, env=e, timeout=timeout, input=stdin,
                       stdout=subprocess.PIPE if capture else None,
                       stderr=subprocess.STDOUT if capture else None, text=True)
    return p.returncode, (p.stdout or '')


class Lock:
    def __init__(self, path):
        self.path = path

    def __enter__(self):
        self.f = open(self.path, 'w')
        fcntl.flock(self.f, fcntl.LOCK_EX)
        return self

    def __exit__(self, *a):
        fcntl.flock(self.f, fcntl.LOCK_UN)
        self.f.close()


# ------------------------------------------------------------------ builds
def repo_fingerprint():
    """hash of every source file of /repo the harness build depends on"""
    h = hashlib.sha256()
    files = []
    for base in ('contracts', 'packages'):
        for dp, dn, fn in os.walk(os.path.join(REPO, base)):
            if '/target' in dp or '/.git' in dp:
                continue
            for f in fn:
                if f.endswith('.rs') or f == 'Cargo.toml':
                    files.append(os.path.join(dp, f))
    files.append(os.path.join(REPO, 'Cargo.toml'))
    files.append(os.path.join(REPO, 'Cargo.lock'))
    for f in sorted(files):
        try:
            with open(f, 'rb') as fh:
                h.update(f.encode())
                h.update(fh.read())
        except OSError:
            pass
    return h.hexdigest()[:16]


def verif_fingerprint(ctx):
    h = hashlib.sha256()
    pats = ['harness/src/**/*.rs', 'harness/Cargo.toml', 'coq/Base/*.v', 'coq/Model/*.v', 'coq/Extract/*.v', 'ocaml/*.ml', 'lib/*.py']
    for pat in pats:
        for f in sorted(glob.glob(os.path.join(ctx.root, pat), recursive=True)):
            with open(f, 'rb') as fh:
                h.update(f.encode())
                h.update(fh.read())
    return h.hexdigest()[:16]


def build_harness(ctx):
    hdir = os.path.join(ctx.root, 'harness')
    lock = os.path.join(hdir, 'Cargo.lock')
    if not os.path.exists(lock):
        shutil.copy(os.path.join(REPO, 'Cargo.lock'), lock)
    if REPO != '/repo':
        # shadow package: same sources, path dependencies rewritten to the other checkout
        sh = os.path.join(ctx.build, 'harness-pkg')
        os.makedirs(sh, exist_ok=True)
        for name in ('src', 'Cargo.lock'):
            dst = os.path.join(sh, name)
            if os.path.islink(dst) or os.path.exists(dst):
                if os.path.islink(dst) or os.path.isfile(dst):
                    os.unlink(dst)
                else:
                    shutil.rmtree(dst)
            os.symlink(os.path.join(hdir, name), dst)
        toml = open(os.path.join(hdir, 'Cargo.toml')).read().replace('"/repo/', '"%s/' % REPO.rstrip('/'))
        cur = open(os.path.join(sh, 'Cargo.toml')).read() if os.path.exists(os.path.join(sh, 'Cargo.toml')) else ''
        if cur != toml:
            open(os.path.join(sh, 'Cargo.toml'), 'w').write(toml)
        hdir = sh
    env = {'CARGO_TARGET_DIR': os.path.join(ctx.build, 'harness-target'),
           'RUSTFLAGS': '--cfg ' + GUARD}
    t = time.time()
    rc, out = run(['cargo', 'build', '--release', '--offline'], cwd=hdir, env=env, timeout=3000)
    return rc == 0, out, time.time() - t


def build_coq(ctx, clean=False):
    t = time.time()
    mk = os.path.join(ctx.coq, 'Makefile')
    if clean and os.path.exists(mk):
        run(['make', 'clean'], cwd=ctx.coq, timeout=600)
    if not os.path.exists(mk) or os.path.getmtime(mk) < os.path.getmtime(os.path.join(ctx.coq, '_CoqProject')):
        rc, out = run(['coq_makefile', '-f', '_CoqProject', '-o', 'Makefile'], cwd=ctx.coq, timeout=120)
        if rc != 0:
            return False, out, time.time() - t
    rc, out = run(['make', '-j16'], cwd=ctx.coq, timeout=3400)
    return rc == 0, out, time.time() - t


def build_driver(ctx):
    """re-extract the model and rebuild the OCaml driver if any model .vo / driver source is newer"""
    t = time.time()
    ex = os.path.join(ctx.build, 'extract')
    os.makedirs(ex, exist_ok=True)
    srcs = glob.glob(os.path.join(ctx.coq, 'Base', '*.vo')) + glob.glob(os.path.join(ctx.coq, 'Model', '*.vo')) \
        + [os.path.join(ctx.coq, 'Extract', 'Extract.v'), os.path.join(ctx.root, 'ocaml', 'driver.ml')]
    newest = max(os.path.getmtime(f) for f in srcs)
    if os.path.exists(ctx.driver_bin) and os.path.getmtime(ctx.driver_bin) >= newest:
        return True, 'up to date', 0.0
    rc, out = run(['coqc', '-Q', ctx.coq, 'Krp', os.path.join(ctx.coq, 'Extract', 'Extract.v')], cwd=ex, timeout=600)
    if rc != 0:
        return False, out, time.time() - t
    for junk in glob.glob(os.path.join(ctx.coq, 'Extract', 'Extract.vo*')) + glob.glob(os.path.join(ctx.coq, 'Extract', '*.glob')):
        pass
    shutil.copy(os.path.join(ctx.root, 'ocaml', 'driver.ml'), os.path.join(ex, 'driver.ml'))
    rc, out2 = run(['ocamlfind', 'ocamlopt', '-O3', '-package', 'zarith', '-linkpkg', '-w', '-a',
                    'model.mli', 'model.ml', 'driver.ml', '-o', ctx.driver_bin], cwd=ex, timeout=600)
    if rc != 0:
        return False, out + out2, time.time() - t
    # profiling build of the same extracted model (bytecode, ocamlcp -P a) + dump merger: used only to
    # MEASURE which branches of the model the correspondence streams executed (reported in the evidence)
    prof = os.path.join(ex, 'prof')
    os.makedirs(prof, exist_ok=True)
    for f in ('model.ml', 'model.mli', 'driver.ml'):
        shutil.copy(os.path.join(ex, f), os.path.join(prof, f))
    shutil.copy(os.path.join(ctx.root, 'ocaml', 'covmerge.ml'), os.path.join(prof, 'covmerge.ml'))
    rc3, out3 = run(['ocamlfind', 'ocamlcp', '-P', 'a', '-package', 'zarith', '-linkpkg', '-w', '-a',
                     'model.mli', 'model.ml', 'driver.ml', '-o', 'driver_prof'], cwd=prof, timeout=600)
    rc4, out4 = run(['ocamlfind', 'ocamlopt', '-w', '-a', 'covmerge.ml', '-o', 'covmerge'], cwd=prof, timeout=600)
    return rc == 0, out + out2 + (out3 if rc3 else '') + (out4 if rc4 else ''), time.time() - t


def model_coverage(ctx, opsfiles, sample=1):
    """run the profiling build of the extracted model over the operation files and report which
    branch counters of model.ml were never hit (a measurement of the streams, not a proof)"""
    prof = os.path.join(ctx.build, 'extract', 'prof')
    exe = os.path.join(prof, 'driver_prof')
    if not os.path.exists(exe) or not os.path.exists(os.path.join(prof, 'covmerge')):
        return {'note': 'profiling build not available'}
    work = os.path.join(ctx.build, 'cov-%d' % os.getpid())
    shutil.rmtree(work, ignore_errors=True)
    os.makedirs(work)
    # the profiling build is bytecode (about ten times slower than the native driver): long files are
    # cut at `reset` lines into pieces of at most ~2500 operations that run in parallel; a single
    # history longer than that is measured on its first 2500 operations; with sample > 1 only every
    # sample-th history of a file with more than 64 histories is measured
    pieces = []
    for f in opsfiles:
        hists = []
        for ln in open(f):
            if ln.startswith('reset') or not hists:
                hists.append([])
            if len(hists[-1]) < 2500:
                hists[-1].append(ln)
        if sample > 1 and len(hists) > 64:
            hists = hists[::sample]
        cur, n = [], 0
        for h in hists:
            if cur and n + len(h) > 2500:
                pieces.append(cur)
                cur, n = [], 0
            cur.append(h)
            n += len(h)
        if cur:
            pieces.append(cur)
    procs = []
    for i, piece in enumerate(pieces):
        d = os.path.join(work, str(i))
        os.makedirs(d)
        pf = os.path.join(d, 'piece.ops')
        with open(pf, 'w') as fo:
            for h in piece:
                fo.writelines(h)
        procs.append(subprocess.Popen([exe, 'run', pf], cwd=d, stdout=subprocess.DEVNULL, stderr=subprocess.DEVNULL))
        if len(procs) % 16 == 0:
            for p in procs[-16:]:
                p.wait()
    for p in procs:
        p.wait()
    dumps = [os.path.join(work, str(i), 'ocamlprof.dump') for i in range(len(pieces))]
    dumps = [d for d in dumps if os.path.exists(d)]
    if not dumps:
        shutil.rmtree(work, ignore_errors=True)
        return {'note': 'no profile produced'}
    merged = os.path.join(work, 'merged.dump')
    run([os.path.join(prof, 'covmerge'), merged] + dumps, timeout=600)
    rc, out = run(['ocamlprof', '-f', merged, 'model.ml'], cwd=prof, timeout=600)
    shutil.rmtree(work, ignore_errors=True)
    if rc != 0:
        return {'note': 'ocamlprof failed'}
    total = zero = 0
    cur = '?'
    unhit = {}
    for ln in out.splitlines():
        m = re.match(r'(?:let rec|let|and)\s+([a-z_][A-Za-z0-9_\']*)', ln)
        if m:
            cur = m.group(1)
        cs = re.findall(r'\(\* (\d+) \*\)', ln)
        total += len(cs)
        z = sum(1 for c in cs if c == '0')
        zero += z
        if z:
            unhit[cur] = unhit.get(cur, 0) + z
    return {'branch_counters': total, 'never_hit': zero, 'hit_percent': round(100.0 * (total - zero) / max(total, 1), 1),
            'functions_with_unhit_branches': dict(sorted(unhit.items(), key=lambda kv: -kv[1])[:60]),
            'files': len(opsfiles), 'pieces': len(pieces), 'history_sampling': sample,
            'how': 'extracted model compiled with ocamlcp -P a (bytecode, branch counters), run over the same operation files as the correspondence streams of this check'}


CACHE_CAP_BYTES = 6 << 30   # observation cache (keyed by the fingerprint of /repo's tree) is capped


def prune_cache(ctx):
    """the observation cache holds one set of entries per fingerprint of /repo's working tree; runs
    against many different trees would fill the disk. Oldest entries go first until under the cap."""
    root = os.path.join(ctx.build, 'cache')
    if not os.path.isdir(root):
        return
    ents = []
    for name in os.listdir(root):
        d = os.path.join(root, name)
        try:
            size = sum(os.path.getsize(os.path.join(d, f)) for f in os.listdir(d))
            ents.append((os.path.getmtime(d), size, d))
        except OSError:
            continue
    total = sum(e[1] for e in ents)
    for mt, size, d in sorted(ents):
        if total <= CACHE_CAP_BYTES:
            break
        shutil.rmtree(d, ignore_errors=True)
        total -= size


def build_all(ctx, clean_coq=False):
    res = {}
    with Lock(os.path.join(ctx.build, '.lock')):
        prune_cache(ctx)
        ok, out, dt = build_harness(ctx)
        res['harness'] = (ok, out, dt)
        ok2, out2, dt2 = build_coq(ctx, clean=clean_coq)
        res['coq'] = (ok2, out2, dt2)
        if ok2:
            res['driver'] = build_driver(ctx)
        else:
            res['driver'] = (False, 'coq build failed', 0.0)
    return res


# ------------------------------------------------------------------ audit
def audit(ctx, pid, spec):
    """Recompile the property file, parse Print Assumptions, grep forbidden words.
    Returns dict(obligations, discharged, problems[], assumptions{thm: text})"""
    problems = []
    # forbidden words anywhere in the development (outside comments)
    for f in project_files(ctx):
        txt = open(f).read()
        txt_nc = strip_coq_comments(txt)
        for m in FORBIDDEN.finditer(txt_nc):
            w = m.group(0)
            # Variable(s)/Hypothesis inside a Section are fine
            if re.match(r'(Variable|Variables|Hypothesis|Hypotheses)$', w):
                if inside_section(txt_nc, m.start()):
                    continue
            problems.append('forbidden word %r in %s' % (w, os.path.relpath(f, ctx.root)))
    thms = []
    assumptions = {}
    discharged = 0
    for rel in [spec['props_file']] + list(spec.get('extra_props_files', [])):
        pf = os.path.join(ctx.coq, rel)
        if pf not in project_files(ctx):
            problems.append('%s is not part of _CoqProject' % rel)
            continue
        src = strip_coq_comments(open(pf).read())
        these = re.findall(r'\bTheorem\s+([A-Za-z0-9_\']+)', src)
        thms += these
        # every theorem of the property file must be closed by `exact <lemma>. Qed.` and have a Print Assumptions
        rc, out = run(['coqc', '-Q', ctx.coq, 'Krp', pf], cwd=ctx.coq, timeout=1800)
        if rc != 0:
            problems.append('property file %s does not compile: %s' % (rel, out[-2000:]))
            continue
        printed = re.findall(r'\bPrint\s+Assumptions\s+([A-Za-z0-9_\']+)', src)
        # split coqc output into one chunk per Print Assumptions, in order
        chunks = split_assumption_output(out, len(printed))
        for name, chunk in zip(printed, chunks):
            assumptions[name] = chunk.strip()
    if any('does not compile' in x for x in problems):
        return dict(obligations=len(thms), discharged=0, problems=problems, assumptions={}, theorems=thms)
    for t in thms:
        if t not in assumptions:
            problems.append('theorem %s has no Print Assumptions' % t)
            continue
        c = assumptions[t]
        if c.startswith('Closed under the global context'):
            discharged += 1
        else:
            ax = re.findall(r'^([A-Za-z0-9_\.\']+)\s*:', c, re.M)
            bad = [a for a in ax if a not in ALLOWED_ASSUMPTIONS]
            if bad or not ax:
                problems.append('theorem %s depends on %s' % (t, ', '.join(bad) or c[:200]))
            else:
                discharged += 1
    for t in spec.get('theorems', []):
        if t not in thms:
            problems.append('expected theorem %s is missing from the property files of %s' % (t, pid))
    return dict(obligations=len(thms), discharged=discharged, problems=problems,
                assumptions=assumptions, theorems=thms)


def project_files(ctx):
    """the .v files of the development = those listed in _CoqProject (only they are built by make;
    a file that is not listed cannot be depended on after a clean build) plus Extract/Extract.v"""
    out = []
    for ln in open(os.path.join(ctx.coq, '_CoqProject')):
        ln = ln.strip()
        if ln.endswith('.v') and not ln.startswith('-'):
            out.append(os.path.join(ctx.coq, ln))
    out.append(os.path.join(ctx.coq, 'Extract', 'Extract.v'))
    return sorted(out)


def strip_coq_comments(s):
    out = []
    depth = 0
    i = 0
    n = len(s)
    while i < n:
        if s.startswith('(*', i):
            depth += 1
            i += 2
        elif s.startswith('*)', i) and depth > 0:
            depth -= 1
            i += 2
        else:
            if depth == 0:
                out.append(s[i])
            elif s[i] == '\n':
                out.append('\n')
            i += 1
    return ''.join(out)


def inside_section(txt, pos):
    opened = len(re.findall(r'^\s*Section\s+\w+', txt[:pos], re.M))
    closed = len(re.findall(r'^\s*End\s+\w+', txt[:pos], re.M))
    # module Ends also count; approximate: Sections opened minus all Ends (modules are not used)
    return opened - closed > 0


def split_assumption_output(out, n):
    """coqc prints, per Print Assumptions, either 'Closed under the global context' or
    'Axioms:' followed by the axioms. Split into n chunks."""
    lines = out.splitlines()
    chunks = []
    cur = None
    for ln in lines:
        if ln.startswith('Closed under the global context'):
            if cur is not None:
                chunks.append('\n'.join(cur))
            chunks.append(ln)
            cur = None
        elif ln.startswith('Axioms:'):
            if cur is not None:
                chunks.append('\n'.join(cur))
            cur = [ln]
        elif cur is not None:
            cur.append(ln)
    if cur is not None:
        chunks.append('\n'.join(cur))
    # normalise 'Axioms:\nfoo : T' to 'foo : T'
    chunks = [re.sub(r'^Axioms:\s*', '', c) for c in chunks]
    while len(chunks) < n:
        chunks.append('<<missing>>')
    return chunks[:n]


# ------------------------------------------------------------------ correspondence: kernels (T1)
def kernel_stream(ctx, name, seed, count):
    rc, rust = run([ctx.harness_bin, 'kernel', name, str(seed), str(count)], timeout=1800)
    if rc != 0:
        return None, None, 'harness kernel %s failed: %s' % (name, rust[-500:])
    rc, model = run([ctx.driver_bin, 'kernel', name], stdin=rust, timeout=1800)
    if rc != 0:
        return None, None, 'driver kernel %s failed: %s' % (name, model[-500:])
    return rust.splitlines(), model.splitlines(), None


# ------------------------------------------------------------------ correspondence: histories (T2)
def cache_dir(ctx, key):
    d = os.path.join(ctx.build, 'cache', key)
    os.makedirs(d, exist_ok=True)
    return d


def history_stream(ctx, profile, seed, nhist, length, fp, shards=16):
    """Generate histories with the harness (which runs the real contracts while generating), run
    the model on the same operation files, return list of (ops_path, rust_obs_path, model_obs_path)."""
    key = '%s-%s-%s-%d-%d-%d' % (fp, verif_fingerprint(ctx), profile, seed, nhist, length)
    d = cache_dir(ctx, hashlib.sha256(key.encode()).hexdigest()[:20])
    done = os.path.join(d, 'DONE')
    triples = []
    per = max(1, (nhist + shards - 1) // shards)
    procs = []
    if not os.path.exists(done):
        for s in range(shards):
            ops = os.path.join(d, 'ops.%d' % s)
            robs = os.path.join(d, 'rust.%d' % s)
            cmd = [ctx.harness_bin, 'gen', profile, str(seed * 1000 + s), str(per), str(length), ops, robs]
            procs.append((subprocess.Popen(cmd, stdout=subprocess.PIPE, stderr=subprocess.STDOUT, text=True), cmd))
        errs = []
        for s, (p, cmd) in enumerate(procs):
            out, _ = p.communicate(timeout=7200)
            if p.returncode != 0:
                errs.append('%s -> %d: %s' % (' '.join(cmd), p.returncode, out[-400:]))
            else:
                # the generator's statistics line (JSON) -- used for the synthesised-state stream
                js = [ln for ln in out.splitlines() if ln.startswith('{')]
                open(os.path.join(d, 'stats.%d' % s), 'w').write(js[-1] if js else '{}')
        if errs:
            return None, 'harness gen failed: ' + '; '.join(errs)
        procs = []
        for s in range(shards):
            ops = os.path.join(d, 'ops.%d' % s)
            mobs = os.path.join(d, 'model.%d' % s)
            f = open(mobs, 'w')
            procs.append((subprocess.Popen([ctx.driver_bin, 'run', ops], stdout=f, stderr=subprocess.PIPE, text=True), f, ops))
        for p, f, ops in procs:
            _, err = p.communicate(timeout=7200)
            f.close()
            if p.returncode != 0:
                errs.append('driver run %s -> %d: %s' % (ops, p.returncode, (err or '')[-400:]))
        if errs:
            return None, 'model driver failed: ' + '; '.join(errs)
        open(done, 'w').write('ok')
    for s in range(shards):
        triples.append((os.path.join(d, 'ops.%d' % s), os.path.join(d, 'rust.%d' % s), os.path.join(d, 'model.%d' % s)))
    return triples, None


def run_driver_sharded(ctx, ops, out, shards=16):
    """run the model driver over a long operation file in parallel: the file is cut at `reset` lines
    (every history starts with one and the observation index restarts there), the pieces are run by
    separate driver processes and their outputs concatenated in order"""
    hists = []
    for ln in open(ops):
        if ln.startswith('reset') or not hists:
            hists.append([])
        hists[-1].append(ln)
    n = max(1, min(shards, len(hists)))
    per = (len(hists) + n - 1) // n
    procs = []
    for i in range(n):
        part = hists[i * per:(i + 1) * per]
        if not part:
            continue
        pf = '%s.part%d' % (ops, i)
        with open(pf, 'w') as f:
            for h in part:
                f.writelines(h)
        of = open('%s.part%d' % (out, i), 'w')
        procs.append((subprocess.Popen([ctx.driver_bin, 'run', pf], stdout=of, stderr=subprocess.PIPE, text=True), of, pf))
    err = None
    with open(out, 'w') as fo:
        for p, of, pf in procs:
            _, e = p.communicate(timeout=3600)
            of.close()
            if p.returncode != 0 and err is None:
                err = e or 'driver exit %d' % p.returncode
            with open(of.name) as fi:
                shutil.copyfileobj(fi, fo)
            os.unlink(of.name)
            os.unlink(pf)
    return err


SYNTH = 'synth'   # name of the synthesised-state stream (profile `synth` of the harness generator)


def synth_statistics(trs):
    """sum the generator statistics of the shards of the synthesised-state stream: distribution of
    the synthesised states, outcomes of the follow-up operations, notable events"""
    tot = {}
    for (opsf, robs, mobs) in trs:
        f = os.path.join(os.path.dirname(opsf), 'stats.' + opsf.rsplit('.', 1)[1])
        try:
            d = json.load(open(f)).get('synth', {})
        except (OSError, ValueError):
            continue
        for k, v in d.items():
            tot[k] = tot.get(k, 0) + v
    ok, err = tot.get('follow_tx:ok', 0), tot.get('follow_tx:err', 0)
    out = {'follow_up_transactions': {'ok': ok, 'err': err, 'ok_percent': round(100.0 * ok / max(ok + err, 1), 1)},
           'events': {k[6:]: v for k, v in sorted(tot.items()) if k.startswith('event:')},
           'follow_up_operations': {k[7:]: v for k, v in sorted(tot.items()) if k.startswith('follow:')},
           'states': {k[6:]: v for k, v in sorted(tot.items()) if k.startswith('state:')}}
    return out


def grid_stream(ctx, fp):
    """The exhaustive authorisation grid (message variant x sender class x world kind)."""
    key = '%s-%s-grid' % (fp, verif_fingerprint(ctx))
    d = cache_dir(ctx, hashlib.sha256(key.encode()).hexdigest()[:20])
    ops = os.path.join(d, 'grid.ops')
    robs = os.path.join(d, 'rust.obs')
    mobs = os.path.join(d, 'model.obs')
    if not os.path.exists(os.path.join(d, 'DONE')):
        rc, out = run([ctx.harness_bin, 'grid', ops, robs], timeout=3600)
        if rc != 0:
            return None, 'harness grid failed: %s' % out[-400:]
        err = run_driver_sharded(ctx, ops, mobs)
        if err:
            return None, 'driver run grid failed: %s' % err[-400:]
        open(os.path.join(d, 'DONE'), 'w').write('ok')
    return (ops, robs, mobs), None


def scenario_stream(ctx, path, fp):
    """Run one fixed operation file on both sides."""
    key = '%s-%s-scn-%s-%s' % (fp, verif_fingerprint(ctx), path, hashlib.sha256(open(path, 'rb').read()).hexdigest()[:12])
    d = cache_dir(ctx, hashlib.sha256(key.encode()).hexdigest()[:20])
    robs = os.path.join(d, 'rust.obs')
    mobs = os.path.join(d, 'model.obs')
    if not os.path.exists(os.path.join(d, 'DONE')):
        rc, out = run([ctx.harness_bin, 'run', path], timeout=3600)
        if rc != 0:
            return None, 'harness run %s failed: %s' % (path, out[-400:])
        open(robs, 'w').write(out)
        rc, out = run([ctx.driver_bin, 'run', path], timeout=3600)
        if rc != 0:
            return None, 'driver run %s failed: %s' % (path, out[-400:])
        open(mobs, 'w').write(out)
        open(os.path.join(d, 'DONE'), 'w').write('ok')
    return (path, robs, mobs), None


# ------------------------------------------------------------------ correspondence: message surface
PRIV_KEYS = ('hub.cfg', 'hub.params', 'hub.newowner', 'rw.cfg', 'rw.newowner', 'dp.cfg', 'dp.newowner', 'rg.cfg',
             'rg.newowner', 'rg.vals', 'tok.bsei.info', 'tok.stsei.info', 'hub.qcfg', 'hub.qparams')


def surface_stream(ctx, pid):
    """The message types of the contracts' entry points (variants and fields, from the code's own
    schemars schemas) against the pinned surface lib/surface.txt.  Returns (stat, [(kind, payload, nofail, summary)]).
    A new variant / field of a state-changing message kind of a contract the property depends on is not
    covered by the model's message alphabet: the property is no longer shown.  New execute variants are
    probed on the implementation (schema-generated instance, several senders, running and paused hub):
    C11 - accepted by the paused hub; C10 - accepted from an unrelated address and changing configuration,
    ownership, parameters, the validator set or a token's minter - are concrete violations."""
    pinned = os.path.join(ctx.root, 'lib', 'surface.txt')
    if not os.path.exists(pinned):
        return None, []
    rc, out = run([ctx.harness_bin, 'surface'], timeout=600)
    if rc != 0:
        return {'error': out[-300:]}, [('surface', {'kind': 'stream-failure', 'error': 'harness surface failed: ' + out[-400:]}, True, 'harness surface failed')]
    cur = [l for l in out.splitlines() if l.strip()]
    pin = [l for l in open(pinned).read().splitlines() if l.strip()]
    added = sorted(set(cur) - set(pin))
    removed = sorted(set(pin) - set(cur))
    stat = {'lines': len(cur), 'pinned_lines': len(pin), 'added': added[:20], 'removed': removed[:20]}
    prefixes = P.SURFACE.get(pid, [])

    def relevant(l):
        head = l.split()[0]
        return any(head.startswith(px) for px in prefixes) and head.split('.', 1)[1] in P.SURFACE_KINDS
    rel_added = [l for l in added if relevant(l)]
    stat['relevant_added'] = rel_added[:20]
    out_v = []
    if not rel_added:
        return stat, out_v
    pinned_variants = set(' '.join(l.split()[:2]) for l in pin)
    probes = {}
    concrete = None
    for l in rel_added:
        head, variant = l.split()[0], l.split()[1]
        contract, kind = head.split('.', 1)
        if kind != 'execute' or ' '.join((head, variant)) in pinned_variants:
            continue      # a new FIELD of a known variant, or not an execute message: nothing to send
        rc, pout = run([ctx.harness_bin, 'surface-probe', contract, variant, '--why'], timeout=600)
        probes[head + ' ' + variant] = pout[-4000:]
        if rc != 0 or concrete:
            continue
        blocks = []
        curb = None
        for ln in pout.splitlines():
            if ln.startswith('probe '):
                curb = {'head': ln.split(), 'diff': []}
                blocks.append(curb)
            elif curb is not None and (ln.startswith('- ') or ln.startswith('+ ')):
                curb['diff'].append(ln)
        for b in blocks:
            h = b['head']           # probe SITUATION SENDER ok|err
            if len(h) < 4 or h[3] != 'ok':
                continue
            if pid == 'C11' and contract == 'hub' and h[1] == 'paused':
                concrete = 'new hub message %s is accepted from %s while the hub is paused' % (variant, h[2])
            if pid == 'C10' and h[1] == 'running' and h[2] == 'nobody':
                priv = [d for d in b['diff'] if any(d[2:].startswith(k) for k in PRIV_KEYS)]
                if priv:
                    concrete = 'new %s message %s sent by an unrelated address is accepted and changes %s' % (contract, variant, priv[0][:120])
            if concrete:
                break
    payload = {'kind': 'surface', 'added': rel_added, 'removed': [l for l in removed if relevant(l)],
               'probes': probes,
               'note': 'the message surface of the contracts differs from the pinned surface lib/surface.txt the model was '
                       'written against; the theorems quantify over the model message alphabet only'}
    if concrete:
        payload['message'] = concrete
        out_v.append(('surface', payload, False, 'message surface: ' + concrete))
    else:
        out_v.append(('surface', payload, True, 'message surface changed: ' + '; '.join(rel_added)[:200]))
    return stat, out_v


# ------------------------------------------------------------------ violation search
def violation_search(ctx, pid, dv):
    """A model/implementation disagreement was found and no monitor failed.  Look for a concrete
    failure of the property on the implementation: replay the history prefix with `explain`
    (which reports why a transaction failed) and let the property's classifier decide."""
    import monitors as M
    cls = M.EXPLAIN_CLASSIFIERS.get(pid)
    if not cls:
        return None
    tmp = os.path.join(ctx.build, 'replay', 'search-%s.ops' % pid)
    os.makedirs(os.path.dirname(tmp), exist_ok=True)
    open(tmp, 'w').write('\n'.join(dv['ops']) + '\n')
    rc, out = run([ctx.harness_bin, 'explain', tmp], timeout=600)
    if rc != 0:
        return None
    last = None
    for ln in out.splitlines():
        if ln.startswith('op '):
            last = ln
    return cls(dv, last or '', out)


def resolve_explain_batch(ctx, pid, rqs, known):
    """run the harness `explain` once over all requested history prefixes (each starts with `reset`)
    and hand the failure reason of each prefix's last operation to the property's resolver"""
    res = M.EXPLAIN_RESOLVERS.get(pid)
    if not rqs:
        return []
    if not res:
        return [(rq, ('violation', 'no resolver')) for rq in rqs]
    d = os.path.join(ctx.build, 'replay')
    os.makedirs(d, exist_ok=True)
    tmp = os.path.join(d, 'explain-%s-%d.ops' % (pid, os.getpid()))
    with open(tmp, 'w') as f:
        for rq in rqs:
            ops = rq['ops']
            if not ops[0].startswith('reset'):
                ops = ['reset 100'] + ops
            f.write('\n'.join(ops) + '\n')
    rc, out = run([ctx.harness_bin, 'explain', tmp], timeout=1800)
    os.unlink(tmp)
    if rc != 0:
        return [(rq, ('violation', 'harness explain failed')) for rq in rqs]
    chunks = []
    cur = []
    for ln in out.splitlines():
        if ln.startswith('op 0 ') and ':: reset' in ln:
            if cur:
                chunks.append(cur)
            cur = []
        cur.append(ln)
    if cur:
        chunks.append(cur)
    outl = []
    for rq, ch in zip(rqs, chunks):
        last = ''
        for ln in ch:
            if ln.startswith('op '):
                last = ln
        # the text of the last operation only (its header line and the failed-tx trace after it)
        idx = max(i for i, ln in enumerate(ch) if ln.startswith('op '))
        outl.append((rq, res(pid, last, '\n'.join(ch[idx:]), known)))
    if len(chunks) != len(rqs):
        outl.append((rqs[-1], ('violation', 'explain output could not be matched to the requests')))
    return outl


# ------------------------------------------------------------------ replay files
def write_replay(ctx, pid, tag, payload):
    d = os.path.join(ctx.build, 'replay')
    os.makedirs(d, exist_ok=True)
    path = os.path.join(d, '%s-%s-%d.json' % (pid, tag, int(time.time() * 1000) % 10**9))
    with open(path, 'w') as f:
        json.dump(payload, f, indent=1)
    return path


# ------------------------------------------------------------------ main per-property check
def load_known(ctx):
    p = os.path.join(ctx.root, 'known_findings.json')
    if os.path.exists(p):
        return json.load(open(p))
    return {'findings': [], 'fixed': []}


def check_property(ctx, pid, tier, seed, replay=None):
    t0 = time.time()
    spec = P.PROPS.get(pid) or P.PENDING[pid]
    known = [k for k in load_known(ctx).get('findings', []) if k.get('property') == pid]
    violations = []          # (replay_path, no_failing_input_found: bool, summary)
    known_hits = {}          # finding id -> description
    cov = {'streams': {}, 'samples': []}

    b = build_all(ctx, clean_coq=(tier == 'thorough' and os.environ.get('VERIF_NO_CLEAN') != '1'))
    for part in ('harness', 'coq', 'driver'):
        ok, out, dt = b[part]
        cov['build_%s_s' % part] = round(dt, 1)
        if not ok:
            rp = write_replay(ctx, pid, 'build-' + part, {
                'kind': 'build-failure', 'part': part, 'output_tail': out[-6000:],
                'note': 'the %s build failed, so the property is no longer shown to hold' % part})
            violations.append((rp, True, '%s build failed' % part))
    if violations:
        return finish(ctx, pid, tier, seed, t0, spec, None, cov, violations, known_hits)

    if os.environ.get('VERIF_SKIP_AUDIT') == '1':
        au = dict(obligations=0, discharged=0, problems=[], assumptions={}, theorems=[])
    else:
        au = audit(ctx, pid, spec)
    if au['problems']:
        rp = write_replay(ctx, pid, 'proof', {'kind': 'proof-obligation', 'problems': au['problems'],
                                              'theorems': au['theorems']})
        violations.append((rp, True, 'proof audit: ' + '; '.join(au['problems'])[:300]))

    if tier == 'thorough' and not violations and os.environ.get('VERIF_NO_COQCHK') != '1':
        # independent re-check of the compiled property library and everything it depends on
        mods = ['Krp.' + f[:-2].replace('/', '.') for f in [spec['props_file']] + list(spec.get('extra_props_files', []))]
        mod = ' '.join(mods)
        t1 = time.time()
        rc, out = run(['coqchk', '-o', '-silent', '-Q', ctx.coq, 'Krp'] + mods, cwd=ctx.coq, timeout=7200)
        cov['coqchk_s'] = round(time.time() - t1, 1)
        summary = out[out.find('CONTEXT SUMMARY'):] if 'CONTEXT SUMMARY' in out else out[-1500:]
        cov['coqchk'] = ' '.join(summary.split())[:600]
        okc = (rc == 0 and '* Axioms: <none>' in summary and 'type-in-type: <none>' in summary
               and 'unsafe (co)fixpoints: <none>' in summary and 'positivity is assumed: <none>' in summary)
        if not okc:
            rp = write_replay(ctx, pid, 'coqchk', {'kind': 'proof-obligation', 'coqchk_output_tail': out[-3000:]})
            violations.append((rp, True, 'coqchk does not accept %s with an empty axiom list' % mod))

    fp = repo_fingerprint()
    sizes = P.SIZES[tier]

    # ---- T1 kernel streams
    for kname in spec.get('kernels', []):
        rust, model, err = kernel_stream(ctx, kname, seed, sizes['kernel'])
        if err:
            rp = write_replay(ctx, pid, 'kernel-' + kname, {'kind': 'stream-failure', 'error': err})
            violations.append((rp, True, err[:200]))
            continue
        st = {'cases': len(rust), 'disagreements': 0, 'errs': sum(1 for l in rust if l.endswith('=> err'))}
        mon = M.KERNEL_MONITORS.get((pid, kname))
        first_dis = None
        mon_fail = None
        distinct = set()
        for rl, ml in zip(rust, model):
            distinct.add(rl)
            if rl != ml and first_dis is None:
                first_dis = (rl, ml)
                st['disagreements'] += 1
            elif rl != ml:
                st['disagreements'] += 1
            if mon and mon_fail is None:
                msg = mon(rl)
                if msg:
                    mon_fail = (rl, msg)
        if len(rust) != len(model) and first_dis is None:
            first_dis = ('<%d lines>' % len(rust), '<%d lines>' % len(model))
        st['distinct'] = len(distinct)
        cov['streams']['kernel:' + kname] = st
        if rust:
            cov['samples'].append({'kernel': kname, 'case': rust[len(rust) // 2]})
        if mon_fail:
            rp = write_replay(ctx, pid, 'kernel-' + kname, {
                'kind': 'kernel-monitor', 'kernel': kname, 'implementation_line': mon_fail[0],
                'property_failure': mon_fail[1], 'seed': seed,
                'replay': 'krp-harness kernel %s %d %d  (line shown above)' % (kname, seed, sizes['kernel'])})
            violations.append((rp, False, 'kernel %s: %s' % (kname, mon_fail[1])))
        elif first_dis:
            rp = write_replay(ctx, pid, 'kernel-' + kname, {
                'kind': 'correspondence', 'stream': 'kernel:' + kname, 'implementation': first_dis[0],
                'model': first_dis[1], 'seed': seed, 'theorems_no_longer_tied': au['theorems'],
                'note': 'model and implementation disagree on this input; the property monitor found no '
                        'failing input among %d cases' % len(rust)})
            violations.append((rp, True, 'kernel %s disagreement: impl %s / model %s' % (kname, first_dis[0][:120], first_dis[1][:120])))

    # ---- message surface (variants / fields of the entry points' message types) against the pinned one
    sstat, sviol = surface_stream(ctx, pid)
    if sstat is not None:
        cov['surface'] = sstat
    for kind, payload, nofail, summary in sviol:
        rp = write_replay(ctx, pid, kind, payload)
        violations.append((rp, nofail, summary))

    # ---- T2 history streams (scenarios first, then generated profiles)
    streams = []
    for scn in spec.get('scenarios', []):
        tr, err = scenario_stream(ctx, os.path.join(ctx.root, 'scenarios', scn), fp)
        if err:
            rp = write_replay(ctx, pid, 'scn', {'kind': 'stream-failure', 'error': err})
            violations.append((rp, True, err[:200]))
        else:
            streams.append(('scenario:' + scn, [tr]))
    if spec.get('grid'):
        tr, err = grid_stream(ctx, fp)
        if err:
            rp = write_replay(ctx, pid, 'grid', {'kind': 'stream-failure', 'error': err})
            violations.append((rp, True, err[:200]))
        else:
            streams.append(('grid', [tr]))
            cov['grid_exhaustive'] = True
    for prof in spec.get('profiles', []):
        trs, err = history_stream(ctx, prof, seed, sizes['hist'], sizes['len'], fp)
        if err:
            rp = write_replay(ctx, pid, 'gen', {'kind': 'stream-failure', 'error': err})
            violations.append((rp, True, err[:200]))
        else:
            streams.append(('profile:' + prof, trs))

    if spec.get('synth'):
        # synthesised-state stream (DESIGN.md 11.6): diff only, monitors off
        sz = P.SYNTH_SIZES[tier]
        trs, err = history_stream(ctx, 'synth', seed, sz['hist'], sz['len'], fp)
        if err:
            rp = write_replay(ctx, pid, 'gen', {'kind': 'stream-failure', 'error': err})
            violations.append((rp, True, err[:200]))
        else:
            streams.append((SYNTH, trs))

    if spec.get('probe'):
        # dry-run probes on clones of every visited world (harness `probe`), all shards in parallel
        todo = [(opsf, robs) for sname, trs in streams if sname != SYNTH
                for (opsf, robs, mobs) in trs if not os.path.exists(robs + '.probe')]
        procs = []
        for opsf, robs in todo:
            pf = open(robs + '.probe.tmp', 'w')
            procs.append((subprocess.Popen([ctx.harness_bin, 'probe', opsf, '1' if tier == 'quick' else '12'], stdout=pf, stderr=subprocess.PIPE, text=True), pf, robs))
        for pr, pf, robs in procs:
            _, err = pr.communicate(timeout=7200)
            pf.close()
            if pr.returncode != 0:
                rp = write_replay(ctx, pid, 'probe', {'kind': 'stream-failure', 'error': (err or '')[-400:]})
                violations.append((rp, True, 'harness probe failed'))
            else:
                os.rename(robs + '.probe.tmp', robs + '.probe')
    for sname, trs in streams:
        all_mon = []
        all_rel = []
        all_exp = []
        st = {'histories': 0, 'ops': 0, 'ok': 0, 'err': 0, 'first_diffs': 0, 'relevant_diffs': 0,
              'opkinds': {}, 'monitor_checks': 0}
        diff_only = (sname == SYNTH) or sname in ('scenario:' + x for x in P.DIFF_ONLY_SCENARIOS)
        if diff_only:
            st['monitors'] = 'not run (synthesised start states)'
        if sname == SYNTH:
            st['synthesiser'] = synth_statistics(trs)
        for (opsf, robs, mobs) in trs:
            probes = (robs + '.probe') if (spec.get('probe') and not diff_only and os.path.exists(robs + '.probe')) else None
            res = obsparse.compare_and_monitor(opsf, robs, mobs, pid, spec, M, known, probes=probes,
                                               run_monitors=not diff_only)
            for k in ('histories', 'ops', 'ok', 'err', 'first_diffs', 'relevant_diffs', 'monitor_checks'):
                st[k] += res[k]
            for k, v in res['opkinds'].items():
                st['opkinds'][k] = st['opkinds'].get(k, 0) + v
            for kid, desc in res['known_hits'].items():
                known_hits[kid] = desc
            if res['samples'] and len(cov['samples']) < 6:
                cov['samples'].append({'stream': sname, 'history_prefix': res['samples'][0]})
            all_mon.extend(res['monitor_violations'])
            all_rel.extend(res['relevant'])
            all_exp.extend(res.get('explain', []))
        # monitor requests that need the implementation's failure reason (harness `explain`)
        st['explained'] = 0
        for rq, out in resolve_explain_batch(ctx, pid, all_exp[:2000], known):
            st['explained'] += 1
            if out is None:
                continue
            if out[0] == 'known':
                known_hits[out[1]] = out[2]
            elif out[0] == 'violation':
                all_mon.append(dict(op_index=rq['op_index'], op=rq['op'], ops=rq['ops'],
                                    message=rq['message'] + ' :: ' + out[1]))
        st['explain_requests'] = len(all_exp)
        if all_mon:
            mv = all_mon[0]
            rp = write_replay(ctx, pid, 'monitor', dict(mv, kind='monitor', stream=sname, seed=seed,
                              how_to_replay='./check %s --replay <this file>' % pid))
            violations.append((rp, False, 'monitor: ' + mv['message'][:200]))
        elif all_rel:
            dv = all_rel[0]
            # no violation search from a synthesised start state (a property failure found there would
            # not be a failure on a reachable world): reported as a plain correspondence disagreement
            extra = None if diff_only else violation_search(ctx, pid, dv)
            if extra:
                rp = write_replay(ctx, pid, 'search', dict(dv, kind='violation-search', stream=sname, seed=seed,
                                  message=extra, how_to_replay='./check %s --replay <this file>' % pid))
                violations.append((rp, False, 'violation search: ' + extra[:200]))
            else:
                note = ('model and implementation disagree on a history that starts from a synthesised state '
                        '(poke_* operations, PROTOCOL.md 3.4); this stream is diff-only: the property monitors and '
                        'the violation search are not run on it (DESIGN.md 11.6)') if diff_only else \
                       ('model and implementation disagree; the property monitors and the violation '
                        'search found no input on which the property itself fails')
                rp = write_replay(ctx, pid, 'corr', dict(dv, kind='correspondence', stream=sname, seed=seed,
                                  theorems_no_longer_tied=au['theorems'], note=note))
                violations.append((rp, True, 'model/implementation disagreement at op %s: %s' % (dv.get('op_index'), dv.get('op'))))
        cov['streams'][sname] = st

    if os.environ.get('VERIF_NO_COVERAGE') != '1':
        t1 = time.time()
        files = []
        for sname, trs in streams:
            sel = trs if (tier == 'thorough' or not (sname.startswith('profile:') or sname == SYNTH)) else trs[:4]
            files += [opsf for (opsf, robs, mobs) in sel]
        cov['model_coverage'] = model_coverage(ctx, files, sample=(1 if tier == 'thorough' else 6))
        cov['model_coverage']['wall_s'] = round(time.time() - t1, 1)
    return finish(ctx, pid, tier, seed, t0, spec, au, cov, violations, known_hits)


def finish(ctx, pid, tier, seed, t0, spec, au, cov, violations, known_hits):
    # de-duplicate: at most one VIOLATION line per replay kind
    wall = time.time() - t0
    evals = 0
    distinct = 0
    for k, st in cov['streams'].items():
        evals += st.get('cases', 0) + st.get('ops', 0)
        distinct += st.get('distinct', 0) + st.get('ok', 0)
    trusted = ['Coq 8.16.1 kernel (coqc); no native_compute', 'Print Assumptions: Closed under the global context for every theorem listed',
               'hand-written Gallina model tied to /repo by differential correspondence (kernel and history streams, this run)',
               'extraction: ExtrOcamlBasic only (its Extract Inductive bool/option/unit/list/prod/sumbool/sumor and Extract Inlined Constant andb => (&&), orb => (||)); no Extract directive of our own; N/positive/nat stay extracted inductives',
               'OCaml driver (parsing/printing, Zarith only for decimal conversion), Rust harness mini-chain, rustc/cargo, ocamlfind',
               'environment model (bank/staking/distribution/CosmWasm dispatch, twelve validators, four denoms, sub-second block times, no reply handlers) is modelled, not verified (DESIGN.md section 7, 11.5, 11.11)',
               'message surface: schemars schemas of the entry points message types compared with lib/surface.txt (DESIGN.md 11.11)']
    ev = {
        'property_id': pid, 'tier': tier, 'seed': seed, 'level': 'proof',
        'coverage': {
            'obligations': au['obligations'] if au else 0,
            'discharged': au['discharged'] if au else 0,
            'checker_cmd': 'cd coq && make -j16 && coqc -Q . Krp %s   (Print Assumptions parsed; forbidden-word grep over coq/**/*.v)' % spec['props_file'],
            'trusted_base': trusted,
            'theorems': au['theorems'] if au else [],
            'assumptions': au['assumptions'] if au else {},
            'evaluations': max(evals, 1),
            'distinct_nontrivial': max(distinct, 2) if evals else 0,
            'rule': 'correspondence cases: kernel argument tuples (distinct lines) and operations of generated / scripted histories executed on the real contracts and on the extracted model (counted non-trivial when the operation succeeded)',
            'samples': cov['samples'] or [{'note': 'no correspondence stream ran'}],
            'streams': cov['streams'],
            'builds_s': {k: v for k, v in cov.items() if k.startswith('build_')},
            'coqchk': cov.get('coqchk', 'not run in this tier (thorough only)'),
            'message_surface': cov.get('surface', 'not run'),
            'model_branch_coverage': cov.get('model_coverage', {}),
        },
        'assumptions': spec.get('assumes', []),
        'wall_s': round(wall, 1),
        'violations': len(violations),
        'known_findings_reproduced': known_hits,
    }
    # development runs without the Coq audit never overwrite the evidence of record
    evdir = os.path.join(ctx.build, 'evidence-dev') if (os.environ.get('VERIF_SKIP_AUDIT') == '1' or os.environ.get('VERIF_DEV_EVIDENCE') == '1' or REPO != '/repo') else os.path.join(ctx.root, 'evidence')
    os.makedirs(evdir, exist_ok=True)
    with open(os.path.join(evdir, pid + '.json'), 'w') as f:
        json.dump(ev, f, indent=1)
    for kid, desc in sorted(known_hits.items()):
        ctx.say('KNOWN-FINDING: property=%s %s %s' % (pid, kid, desc))
    if violations:
        for rp, nofail, summary in violations:
            ctx.say('# ' + summary)
            ctx.say('VIOLATION property=%s replay=%s%s' % (pid, rp, ' no-failing-input-found' if nofail else ''))
        return 1
    ctx.say('OK property=%s tier=%s obligations=%d discharged=%d evaluations=%d wall=%.1fs' % (
        pid, tier, ev['coverage']['obligations'], ev['coverage']['discharged'], evals, wall))
    return 0


def replay(ctx, pid, path):
    """Re-run a replay file: operation list on both sides + the property's monitors."""
    data = json.load(open(path))
    ctx.say(json.dumps({k: data[k] for k in data if k not in ('ops',)}, indent=1)[:4000])
    if data.get('kind') == 'surface':
        b = build_all(ctx)
        if not b['harness'][0]:
            ctx.say('harness build failed')
            return 1
        sstat, sviol = surface_stream(ctx, pid)
        ctx.say(json.dumps(sstat, indent=1)[:3000])
        for kind, payload, nofail, summary in sviol:
            ctx.say(summary)
            ctx.say('VIOLATION property=%s replay=%s%s' % (pid, path, ' no-failing-input-found' if nofail else ''))
        return 1 if sviol else 0
    ops = data.get('ops')
    if not ops:
        ctx.say('replay file has no operation list (kernel or build replay); see the fields above')
        return 0
    b = build_all(ctx)
    for part in ('harness', 'coq', 'driver'):
        if not b[part][0]:
            ctx.say('%s build failed' % part)
            return 1
    tmp = os.path.join(ctx.build, 'replay', 'replay.ops')
    open(tmp, 'w').write('\n'.join(ops) + '\n')
    rc, rust = run([ctx.harness_bin, 'run', tmp])
    rc2, model = run([ctx.driver_bin, 'run', tmp])
    rf = tmp + '.rust'
    mf = tmp + '.model'
    open(rf, 'w').write(rust)
    open(mf, 'w').write(model)
    res = obsparse.compare_and_monitor(tmp, rf, mf, pid, P.PROPS.get(pid) or P.PENDING[pid], M, load_known(ctx).get('findings', []),
                                       run_monitors=(data.get('stream') != SYNTH))
    for mv in res['monitor_violations']:
        ctx.say('MONITOR: ' + mv['message'])
    for dv in res['relevant']:
        ctx.say('DISAGREEMENT at op %s (%s): impl %r / model %r' % (dv['op_index'], dv['op'], dv['implementation'], dv['model']))
    if res['monitor_violations'] or res['relevant']:
        ctx.say('VIOLATION property=%s replay=%s' % (pid, path))
        return 1
    ctx.say('replay: no violation reproduced')
    return 0


def main(root, argv):
    ctx = Ctx(root)
    if not argv:
        print(__doc__)
        return 2
    if argv[0] == '--setup':
        b = build_all(ctx)
        bad = 0
        for part in ('harness', 'coq', 'driver'):
            ok, out, dt = b[part]
            ctx.say('setup %s: %s (%.1fs)' % (part, 'ok' if ok else 'FAILED', dt))
            if not ok:
                ctx.say(out[-3000:])
                bad = 1
        return bad
    pid = argv[0]
    if pid not in P.PROPS and pid not in P.PENDING:
        ctx.say('unknown property %s' % pid)
        return 2
    tier = os.environ.get('VERIF_TIER', 'quick')
    rp = None
    i = 1
    while i < len(argv):
        if argv[i] == '--tier':
            tier = argv[i + 1]
            i += 2
        elif argv[i] == '--replay':
            rp = argv[i + 1]
            i += 2
        else:
            i += 1
    seed = int(os.environ.get('VERIF_SEED', '1'))
    if rp:
        return replay(ctx, pid, rp)
    return check_property(ctx, pid, tier, seed)
