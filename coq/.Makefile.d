Base/Prelude.vo Base/Prelude.glob Base/Prelude.v.beautified Base/Prelude.required_vo: Base/Prelude.v 
Base/Prelude.vio: Base/Prelude.v 
Base/Prelude.vos Base/Prelude.vok Base/Prelude.required_vos: Base/Prelude.v 
Base/Tactics.vo Base/Tactics.glob Base/Tactics.v.beautified Base/Tactics.required_vo: Base/Tactics.v Base/Prelude.vo
Base/Tactics.vio: Base/Tactics.v Base/Prelude.vio
Base/Tactics.vos Base/Tactics.vok Base/Tactics.required_vos: Base/Tactics.v Base/Prelude.vos
Base/Fixed.vo Base/Fixed.glob Base/Fixed.v.beautified Base/Fixed.required_vo: Base/Fixed.v Base/Prelude.vo
Base/Fixed.vio: Base/Fixed.v Base/Prelude.vio
Base/Fixed.vos Base/Fixed.vok Base/Fixed.required_vos: Base/Fixed.v Base/Prelude.vos
Base/FMap.vo Base/FMap.glob Base/FMap.v.beautified Base/FMap.required_vo: Base/FMap.v Base/Prelude.vo
Base/FMap.vio: Base/FMap.v Base/Prelude.vio
Base/FMap.vos Base/FMap.vok Base/FMap.required_vos: Base/FMap.v Base/Prelude.vos
Model/Types.vo Model/Types.glob Model/Types.v.beautified Model/Types.required_vo: Model/Types.v Base/Prelude.vo Base/Fixed.vo Base/FMap.vo
Model/Types.vio: Model/Types.v Base/Prelude.vio Base/Fixed.vio Base/FMap.vio
Model/Types.vos Model/Types.vok Model/Types.required_vos: Model/Types.v Base/Prelude.vos Base/Fixed.vos Base/FMap.vos
Model/Env.vo Model/Env.glob Model/Env.v.beautified Model/Env.required_vo: Model/Env.v Model/Types.vo
Model/Env.vio: Model/Env.v Model/Types.vio
Model/Env.vos Model/Env.vok Model/Env.required_vos: Model/Env.v Model/Types.vos
Model/Registry.vo Model/Registry.glob Model/Registry.v.beautified Model/Registry.required_vo: Model/Registry.v Model/Types.vo Model/Env.vo
Model/Registry.vio: Model/Registry.v Model/Types.vio Model/Env.vio
Model/Registry.vos Model/Registry.vok Model/Registry.required_vos: Model/Registry.v Model/Types.vos Model/Env.vos
Model/Cw20.vo Model/Cw20.glob Model/Cw20.v.beautified Model/Cw20.required_vo: Model/Cw20.v Model/Types.vo Model/Env.vo
Model/Cw20.vio: Model/Cw20.v Model/Types.vio Model/Env.vio
Model/Cw20.vos Model/Cw20.vok Model/Cw20.required_vos: Model/Cw20.v Model/Types.vos Model/Env.vos
Model/Reward.vo Model/Reward.glob Model/Reward.v.beautified Model/Reward.required_vo: Model/Reward.v Model/Types.vo Model/Env.vo
Model/Reward.vio: Model/Reward.v Model/Types.vio Model/Env.vio
Model/Reward.vos Model/Reward.vok Model/Reward.required_vos: Model/Reward.v Model/Types.vos Model/Env.vos
Model/Dispatcher.vo Model/Dispatcher.glob Model/Dispatcher.v.beautified Model/Dispatcher.required_vo: Model/Dispatcher.v Model/Types.vo Model/Env.vo
Model/Dispatcher.vio: Model/Dispatcher.v Model/Types.vio Model/Env.vio
Model/Dispatcher.vos Model/Dispatcher.vok Model/Dispatcher.required_vos: Model/Dispatcher.v Model/Types.vos Model/Env.vos
Model/Hub.vo Model/Hub.glob Model/Hub.v.beautified Model/Hub.required_vo: Model/Hub.v Model/Types.vo Model/Env.vo Model/Registry.vo Model/Cw20.vo
Model/Hub.vio: Model/Hub.v Model/Types.vio Model/Env.vio Model/Registry.vio Model/Cw20.vio
Model/Hub.vos Model/Hub.vok Model/Hub.required_vos: Model/Hub.v Model/Types.vos Model/Env.vos Model/Registry.vos Model/Cw20.vos
Model/Exec.vo Model/Exec.glob Model/Exec.v.beautified Model/Exec.required_vo: Model/Exec.v Model/Types.vo Model/Env.vo Model/Registry.vo Model/Cw20.vo Model/Reward.vo Model/Dispatcher.vo Model/Hub.vo
Model/Exec.vio: Model/Exec.v Model/Types.vio Model/Env.vio Model/Registry.vio Model/Cw20.vio Model/Reward.vio Model/Dispatcher.vio Model/Hub.vio
Model/Exec.vos Model/Exec.vok Model/Exec.required_vos: Model/Exec.v Model/Types.vos Model/Env.vos Model/Registry.vos Model/Cw20.vos Model/Reward.vos Model/Dispatcher.vos Model/Hub.vos
Proofs/RegistryP.vo Proofs/RegistryP.glob Proofs/RegistryP.v.beautified Proofs/RegistryP.required_vo: Proofs/RegistryP.v Base/Tactics.vo Base/Prelude.vo Base/Fixed.vo Model/Types.vo Model/Registry.vo
Proofs/RegistryP.vio: Proofs/RegistryP.v Base/Tactics.vio Base/Prelude.vio Base/Fixed.vio Model/Types.vio Model/Registry.vio
Proofs/RegistryP.vos Proofs/RegistryP.vok Proofs/RegistryP.required_vos: Proofs/RegistryP.v Base/Tactics.vos Base/Prelude.vos Base/Fixed.vos Model/Types.vos Model/Registry.vos
Props/C12.vo Props/C12.glob Props/C12.v.beautified Props/C12.required_vo: Props/C12.v Base/Tactics.vo Base/Prelude.vo Base/Fixed.vo Model/Types.vo Model/Registry.vo Proofs/RegistryP.vo
Props/C12.vio: Props/C12.v Base/Tactics.vio Base/Prelude.vio Base/Fixed.vio Model/Types.vio Model/Registry.vio Proofs/RegistryP.vio
Props/C12.vos Props/C12.vok Props/C12.required_vos: Props/C12.v Base/Tactics.vos Base/Prelude.vos Base/Fixed.vos Model/Types.vos Model/Registry.vos Proofs/RegistryP.vos
Proofs/DispatcherP.vo Proofs/DispatcherP.glob Proofs/DispatcherP.v.beautified Proofs/DispatcherP.required_vo: Proofs/DispatcherP.v Base/Tactics.vo Base/Prelude.vo Base/Fixed.vo Base/FMap.vo Model/Types.vo Model/Env.vo Model/Dispatcher.vo
Proofs/DispatcherP.vio: Proofs/DispatcherP.v Base/Tactics.vio Base/Prelude.vio Base/Fixed.vio Base/FMap.vio Model/Types.vio Model/Env.vio Model/Dispatcher.vio
Proofs/DispatcherP.vos Proofs/DispatcherP.vok Proofs/DispatcherP.required_vos: Proofs/DispatcherP.v Base/Tactics.vos Base/Prelude.vos Base/Fixed.vos Base/FMap.vos Model/Types.vos Model/Env.vos Model/Dispatcher.vos
Props/C17.vo Props/C17.glob Props/C17.v.beautified Props/C17.required_vo: Props/C17.v Base/Tactics.vo Base/Prelude.vo Base/Fixed.vo Base/FMap.vo Model/Types.vo Model/Env.vo Model/Dispatcher.vo Proofs/DispatcherP.vo
Props/C17.vio: Props/C17.v Base/Tactics.vio Base/Prelude.vio Base/Fixed.vio Base/FMap.vio Model/Types.vio Model/Env.vio Model/Dispatcher.vio Proofs/DispatcherP.vio
Props/C17.vos Props/C17.vok Props/C17.required_vos: Props/C17.v Base/Tactics.vos Base/Prelude.vos Base/Fixed.vos Base/FMap.vos Model/Types.vos Model/Env.vos Model/Dispatcher.vos Proofs/DispatcherP.vos
Proofs/ExecP.vo Proofs/ExecP.glob Proofs/ExecP.v.beautified Proofs/ExecP.required_vo: Proofs/ExecP.v Base/Tactics.vo Base/Prelude.vo Base/Fixed.vo Base/FMap.vo Model/Types.vo Model/Env.vo Model/Registry.vo Model/Cw20.vo Model/Reward.vo Model/Dispatcher.vo Model/Hub.vo Model/Exec.vo
Proofs/ExecP.vio: Proofs/ExecP.v Base/Tactics.vio Base/Prelude.vio Base/Fixed.vio Base/FMap.vio Model/Types.vio Model/Env.vio Model/Registry.vio Model/Cw20.vio Model/Reward.vio Model/Dispatcher.vio Model/Hub.vio Model/Exec.vio
Proofs/ExecP.vos Proofs/ExecP.vok Proofs/ExecP.required_vos: Proofs/ExecP.v Base/Tactics.vos Base/Prelude.vos Base/Fixed.vos Base/FMap.vos Model/Types.vos Model/Env.vos Model/Registry.vos Model/Cw20.vos Model/Reward.vos Model/Dispatcher.vos Model/Hub.vos Model/Exec.vos
Proofs/Hist.vo Proofs/Hist.glob Proofs/Hist.v.beautified Proofs/Hist.required_vo: Proofs/Hist.v Base/Tactics.vo Base/Prelude.vo Base/Fixed.vo Base/FMap.vo Model/Types.vo Model/Env.vo Model/Registry.vo Model/Cw20.vo Model/Reward.vo Model/Dispatcher.vo Model/Hub.vo Model/Exec.vo Proofs/ExecP.vo
Proofs/Hist.vio: Proofs/Hist.v Base/Tactics.vio Base/Prelude.vio Base/Fixed.vio Base/FMap.vio Model/Types.vio Model/Env.vio Model/Registry.vio Model/Cw20.vio Model/Reward.vio Model/Dispatcher.vio Model/Hub.vio Model/Exec.vio Proofs/ExecP.vio
Proofs/Hist.vos Proofs/Hist.vok Proofs/Hist.required_vos: Proofs/Hist.v Base/Tactics.vos Base/Prelude.vos Base/Fixed.vos Base/FMap.vos Model/Types.vos Model/Env.vos Model/Registry.vos Model/Cw20.vos Model/Reward.vos Model/Dispatcher.vos Model/Hub.vos Model/Exec.vos Proofs/ExecP.vos
Proofs/Inv.vo Proofs/Inv.glob Proofs/Inv.v.beautified Proofs/Inv.required_vo: Proofs/Inv.v Base/Tactics.vo Base/Prelude.vo Base/Fixed.vo Base/FMap.vo Model/Types.vo Model/Env.vo Model/Registry.vo Model/Cw20.vo Model/Reward.vo Model/Dispatcher.vo Model/Hub.vo Model/Exec.vo
Proofs/Inv.vio: Proofs/Inv.v Base/Tactics.vio Base/Prelude.vio Base/Fixed.vio Base/FMap.vio Model/Types.vio Model/Env.vio Model/Registry.vio Model/Cw20.vio Model/Reward.vio Model/Dispatcher.vio Model/Hub.vio Model/Exec.vio
Proofs/Inv.vos Proofs/Inv.vok Proofs/Inv.required_vos: Proofs/Inv.v Base/Tactics.vos Base/Prelude.vos Base/Fixed.vos Base/FMap.vos Model/Types.vos Model/Env.vos Model/Registry.vos Model/Cw20.vos Model/Reward.vos Model/Dispatcher.vos Model/Hub.vos Model/Exec.vos
Proofs/HubFrame.vo Proofs/HubFrame.glob Proofs/HubFrame.v.beautified Proofs/HubFrame.required_vo: Proofs/HubFrame.v Base/Tactics.vo Base/Prelude.vo Base/Fixed.vo Base/FMap.vo Model/Types.vo Model/Env.vo Model/Registry.vo Model/Cw20.vo Model/Hub.vo
Proofs/HubFrame.vio: Proofs/HubFrame.v Base/Tactics.vio Base/Prelude.vio Base/Fixed.vio Base/FMap.vio Model/Types.vio Model/Env.vio Model/Registry.vio Model/Cw20.vio Model/Hub.vio
Proofs/HubFrame.vos Proofs/HubFrame.vok Proofs/HubFrame.required_vos: Proofs/HubFrame.v Base/Tactics.vos Base/Prelude.vos Base/Fixed.vos Base/FMap.vos Model/Types.vos Model/Env.vos Model/Registry.vos Model/Cw20.vos Model/Hub.vos
Proofs/HubAdmin.vo Proofs/HubAdmin.glob Proofs/HubAdmin.v.beautified Proofs/HubAdmin.required_vo: Proofs/HubAdmin.v Base/Tactics.vo Base/Prelude.vo Base/Fixed.vo Base/FMap.vo Model/Types.vo Model/Env.vo Model/Registry.vo Model/Cw20.vo Model/Hub.vo Proofs/HubFrame.vo
Proofs/HubAdmin.vio: Proofs/HubAdmin.v Base/Tactics.vio Base/Prelude.vio Base/Fixed.vio Base/FMap.vio Model/Types.vio Model/Env.vio Model/Registry.vio Model/Cw20.vio Model/Hub.vio Proofs/HubFrame.vio
Proofs/HubAdmin.vos Proofs/HubAdmin.vok Proofs/HubAdmin.required_vos: Proofs/HubAdmin.v Base/Tactics.vos Base/Prelude.vos Base/Fixed.vos Base/FMap.vos Model/Types.vos Model/Env.vos Model/Registry.vos Model/Cw20.vos Model/Hub.vos Proofs/HubFrame.vos
Proofs/Auth.vo Proofs/Auth.glob Proofs/Auth.v.beautified Proofs/Auth.required_vo: Proofs/Auth.v Base/Tactics.vo Base/Prelude.vo Base/Fixed.vo Base/FMap.vo Model/Types.vo Model/Env.vo Model/Registry.vo Model/Cw20.vo Model/Reward.vo Model/Dispatcher.vo Model/Hub.vo Model/Exec.vo Proofs/HubFrame.vo Proofs/HubAdmin.vo
Proofs/Auth.vio: Proofs/Auth.v Base/Tactics.vio Base/Prelude.vio Base/Fixed.vio Base/FMap.vio Model/Types.vio Model/Env.vio Model/Registry.vio Model/Cw20.vio Model/Reward.vio Model/Dispatcher.vio Model/Hub.vio Model/Exec.vio Proofs/HubFrame.vio Proofs/HubAdmin.vio
Proofs/Auth.vos Proofs/Auth.vok Proofs/Auth.required_vos: Proofs/Auth.v Base/Tactics.vos Base/Prelude.vos Base/Fixed.vos Base/FMap.vos Model/Types.vos Model/Env.vos Model/Registry.vos Model/Cw20.vos Model/Reward.vos Model/Dispatcher.vos Model/Hub.vos Model/Exec.vos Proofs/HubFrame.vos Proofs/HubAdmin.vos
Proofs/Pause.vo Proofs/Pause.glob Proofs/Pause.v.beautified Proofs/Pause.required_vo: Proofs/Pause.v Base/Tactics.vo Base/Prelude.vo Base/Fixed.vo Base/FMap.vo Model/Types.vo Model/Env.vo Model/Registry.vo Model/Cw20.vo Model/Hub.vo Model/Exec.vo Proofs/HubFrame.vo Proofs/HubAdmin.vo Proofs/Auth.vo
Proofs/Pause.vio: Proofs/Pause.v Base/Tactics.vio Base/Prelude.vio Base/Fixed.vio Base/FMap.vio Model/Types.vio Model/Env.vio Model/Registry.vio Model/Cw20.vio Model/Hub.vio Model/Exec.vio Proofs/HubFrame.vio Proofs/HubAdmin.vio Proofs/Auth.vio
Proofs/Pause.vos Proofs/Pause.vok Proofs/Pause.required_vos: Proofs/Pause.v Base/Tactics.vos Base/Prelude.vos Base/Fixed.vos Base/FMap.vos Model/Types.vos Model/Env.vos Model/Registry.vos Model/Cw20.vos Model/Hub.vos Model/Exec.vos Proofs/HubFrame.vos Proofs/HubAdmin.vos Proofs/Auth.vos
Proofs/Params.vo Proofs/Params.glob Proofs/Params.v.beautified Proofs/Params.required_vo: Proofs/Params.v Base/Tactics.vo Base/Prelude.vo Base/Fixed.vo Base/FMap.vo Model/Types.vo Model/Env.vo Model/Registry.vo Model/Cw20.vo Model/Reward.vo Model/Dispatcher.vo Model/Hub.vo Model/Exec.vo Proofs/ExecP.vo Proofs/HubFrame.vo Proofs/HubAdmin.vo Proofs/DispatcherP.vo
Proofs/Params.vio: Proofs/Params.v Base/Tactics.vio Base/Prelude.vio Base/Fixed.vio Base/FMap.vio Model/Types.vio Model/Env.vio Model/Registry.vio Model/Cw20.vio Model/Reward.vio Model/Dispatcher.vio Model/Hub.vio Model/Exec.vio Proofs/ExecP.vio Proofs/HubFrame.vio Proofs/HubAdmin.vio Proofs/DispatcherP.vio
Proofs/Params.vos Proofs/Params.vok Proofs/Params.required_vos: Proofs/Params.v Base/Tactics.vos Base/Prelude.vos Base/Fixed.vos Base/FMap.vos Model/Types.vos Model/Env.vos Model/Registry.vos Model/Cw20.vos Model/Reward.vos Model/Dispatcher.vos Model/Hub.vos Model/Exec.vos Proofs/ExecP.vos Proofs/HubFrame.vos Proofs/HubAdmin.vos Proofs/DispatcherP.vos
Props/C10.vo Props/C10.glob Props/C10.v.beautified Props/C10.required_vo: Props/C10.v Base/Tactics.vo Base/Prelude.vo Base/Fixed.vo Base/FMap.vo Model/Types.vo Model/Env.vo Model/Registry.vo Model/Cw20.vo Model/Reward.vo Model/Dispatcher.vo Model/Hub.vo Model/Exec.vo Proofs/HubFrame.vo Proofs/HubAdmin.vo Proofs/Auth.vo
Props/C10.vio: Props/C10.v Base/Tactics.vio Base/Prelude.vio Base/Fixed.vio Base/FMap.vio Model/Types.vio Model/Env.vio Model/Registry.vio Model/Cw20.vio Model/Reward.vio Model/Dispatcher.vio Model/Hub.vio Model/Exec.vio Proofs/HubFrame.vio Proofs/HubAdmin.vio Proofs/Auth.vio
Props/C10.vos Props/C10.vok Props/C10.required_vos: Props/C10.v Base/Tactics.vos Base/Prelude.vos Base/Fixed.vos Base/FMap.vos Model/Types.vos Model/Env.vos Model/Registry.vos Model/Cw20.vos Model/Reward.vos Model/Dispatcher.vos Model/Hub.vos Model/Exec.vos Proofs/HubFrame.vos Proofs/HubAdmin.vos Proofs/Auth.vos
Props/C11.vo Props/C11.glob Props/C11.v.beautified Props/C11.required_vo: Props/C11.v Base/Tactics.vo Base/Prelude.vo Base/Fixed.vo Base/FMap.vo Model/Types.vo Model/Env.vo Model/Registry.vo Model/Cw20.vo Model/Hub.vo Model/Exec.vo Proofs/HubFrame.vo Proofs/HubAdmin.vo Proofs/Auth.vo Proofs/Pause.vo
Props/C11.vio: Props/C11.v Base/Tactics.vio Base/Prelude.vio Base/Fixed.vio Base/FMap.vio Model/Types.vio Model/Env.vio Model/Registry.vio Model/Cw20.vio Model/Hub.vio Model/Exec.vio Proofs/HubFrame.vio Proofs/HubAdmin.vio Proofs/Auth.vio Proofs/Pause.vio
Props/C11.vos Props/C11.vok Props/C11.required_vos: Props/C11.v Base/Tactics.vos Base/Prelude.vos Base/Fixed.vos Base/FMap.vos Model/Types.vos Model/Env.vos Model/Registry.vos Model/Cw20.vos Model/Hub.vos Model/Exec.vos Proofs/HubFrame.vos Proofs/HubAdmin.vos Proofs/Auth.vos Proofs/Pause.vos
Props/C20.vo Props/C20.glob Props/C20.v.beautified Props/C20.required_vo: Props/C20.v Base/Tactics.vo Base/Prelude.vo Base/Fixed.vo Base/FMap.vo Model/Types.vo Model/Env.vo Model/Registry.vo Model/Cw20.vo Model/Reward.vo Model/Dispatcher.vo Model/Hub.vo Model/Exec.vo Proofs/ExecP.vo Proofs/HubFrame.vo Proofs/HubAdmin.vo Proofs/DispatcherP.vo Proofs/Auth.vo Proofs/Params.vo
Props/C20.vio: Props/C20.v Base/Tactics.vio Base/Prelude.vio Base/Fixed.vio Base/FMap.vio Model/Types.vio Model/Env.vio Model/Registry.vio Model/Cw20.vio Model/Reward.vio Model/Dispatcher.vio Model/Hub.vio Model/Exec.vio Proofs/ExecP.vio Proofs/HubFrame.vio Proofs/HubAdmin.vio Proofs/DispatcherP.vio Proofs/Auth.vio Proofs/Params.vio
Props/C20.vos Props/C20.vok Props/C20.required_vos: Props/C20.v Base/Tactics.vos Base/Prelude.vos Base/Fixed.vos Base/FMap.vos Model/Types.vos Model/Env.vos Model/Registry.vos Model/Cw20.vos Model/Reward.vos Model/Dispatcher.vos Model/Hub.vos Model/Exec.vos Proofs/ExecP.vos Proofs/HubFrame.vos Proofs/HubAdmin.vos Proofs/DispatcherP.vos Proofs/Auth.vos Proofs/Params.vos
Proofs/Cw20P.vo Proofs/Cw20P.glob Proofs/Cw20P.v.beautified Proofs/Cw20P.required_vo: Proofs/Cw20P.v Base/Tactics.vo Base/Prelude.vo Base/Fixed.vo Base/FMap.vo Model/Types.vo Model/Env.vo Model/Cw20.vo Model/Exec.vo Proofs/ExecP.vo
Proofs/Cw20P.vio: Proofs/Cw20P.v Base/Tactics.vio Base/Prelude.vio Base/Fixed.vio Base/FMap.vio Model/Types.vio Model/Env.vio Model/Cw20.vio Model/Exec.vio Proofs/ExecP.vio
Proofs/Cw20P.vos Proofs/Cw20P.vok Proofs/Cw20P.required_vos: Proofs/Cw20P.v Base/Tactics.vos Base/Prelude.vos Base/Fixed.vos Base/FMap.vos Model/Types.vos Model/Env.vos Model/Cw20.vos Model/Exec.vos Proofs/ExecP.vos
Proofs/TokenWorld.vo Proofs/TokenWorld.glob Proofs/TokenWorld.v.beautified Proofs/TokenWorld.required_vo: Proofs/TokenWorld.v Base/Tactics.vo Base/Prelude.vo Base/Fixed.vo Base/FMap.vo Model/Types.vo Model/Env.vo Model/Registry.vo Model/Cw20.vo Model/Reward.vo Model/Dispatcher.vo Model/Hub.vo Model/Exec.vo Proofs/ExecP.vo Proofs/Cw20P.vo
Proofs/TokenWorld.vio: Proofs/TokenWorld.v Base/Tactics.vio Base/Prelude.vio Base/Fixed.vio Base/FMap.vio Model/Types.vio Model/Env.vio Model/Registry.vio Model/Cw20.vio Model/Reward.vio Model/Dispatcher.vio Model/Hub.vio Model/Exec.vio Proofs/ExecP.vio Proofs/Cw20P.vio
Proofs/TokenWorld.vos Proofs/TokenWorld.vok Proofs/TokenWorld.required_vos: Proofs/TokenWorld.v Base/Tactics.vos Base/Prelude.vos Base/Fixed.vos Base/FMap.vos Model/Types.vos Model/Env.vos Model/Registry.vos Model/Cw20.vos Model/Reward.vos Model/Dispatcher.vos Model/Hub.vos Model/Exec.vos Proofs/ExecP.vos Proofs/Cw20P.vos
Props/C18.vo Props/C18.glob Props/C18.v.beautified Props/C18.required_vo: Props/C18.v Base/Tactics.vo Base/Prelude.vo Base/Fixed.vo Base/FMap.vo Model/Types.vo Model/Env.vo Model/Registry.vo Model/Cw20.vo Model/Reward.vo Model/Dispatcher.vo Model/Hub.vo Model/Exec.vo Proofs/ExecP.vo Proofs/Cw20P.vo Proofs/TokenWorld.vo Proofs/Auth.vo
Props/C18.vio: Props/C18.v Base/Tactics.vio Base/Prelude.vio Base/Fixed.vio Base/FMap.vio Model/Types.vio Model/Env.vio Model/Registry.vio Model/Cw20.vio Model/Reward.vio Model/Dispatcher.vio Model/Hub.vio Model/Exec.vio Proofs/ExecP.vio Proofs/Cw20P.vio Proofs/TokenWorld.vio Proofs/Auth.vio
Props/C18.vos Props/C18.vok Props/C18.required_vos: Props/C18.v Base/Tactics.vos Base/Prelude.vos Base/Fixed.vos Base/FMap.vos Model/Types.vos Model/Env.vos Model/Registry.vos Model/Cw20.vos Model/Reward.vos Model/Dispatcher.vos Model/Hub.vos Model/Exec.vos Proofs/ExecP.vos Proofs/Cw20P.vos Proofs/TokenWorld.vos Proofs/Auth.vos
