(** C01 (world / history level) — "At every moment the hub's liquid balance of the staking coin
    covers the sum of all matured (released) withdrawal claims, so a WithdrawUnbonded by any claimant
    whose matured claims are worth at least one base unit succeeds".
    Property theorems only (proofs: Proofs/FundWorldHub.v, Proofs/FundWorld.v).  Appended to the C01
    claim; the hub-contract level is in Props/C01.v.

    Named predicates (definitions in the proof files, all short; WD_*, GR_* as in Props/C01.v):
    - [WD_R h]            value of all wait entries on released batches (all users);
      [WD_Fund h bank]    hs_phb h <= bank /\ WD_R h <= hs_phb h  (hs_phb = prev_hub_balance);
    - [FW_HubOK h]        hp_underlying = usei /\ HPInv h (C20 ranges) /\ h_oldwait h = [] (E6) /\
                          ClaimsInv h (C07) /\ LifeInv h (C08);
    - [FW w]              if the hub is instantiated in [w]: FW_HubOK h /\ WD_Fund h (bal A_hub usei);
    - [FW_pend stack]     sum, over the pending messages whose sender is the hub, of the usei they
                          carry away ([outflow usei]: funds of a contract call, coins of a Bank send,
                          amount of a Delegate);
    - [FW_stk_ok (s, m)]  m is not a call of WithdrawUnbonded, and if s is the hub and m a contract
                          call then no funds are attached;
    - [FW_J w stack]      Forall FW_stk_ok stack, and if the hub is instantiated: FW_HubOK h /\
                          WD_R h <= hs_phb h /\ hs_phb h + FW_pend stack <= bal A_hub usei;
    - [FW_okb m]          m carries no coins (contract call without funds, Undelegate, Redelegate,
                          WithdrawDelegatorReward, SetWithdrawAddress) and is not a call of
                          WithdrawUnbonded;  [FW_okd m] = FW_okb m or m is a Delegate;
      [FW_nwb m]          m is not a call of WithdrawUnbonded;
    - envelope, per operation of the history:
      [legacy_free ops]   E6, no injected pre-v2 wait entries (as in C07);
      [FW_no_hub_root o]  o is not a transaction signed by the hub's own address (contracts hold
                          no keys; needed in the model, see C01w_hub_root_witness);
      [FW_hub_usei o]     E4: a hub instantiation uses underlying_coin_denom = usei;
    - envelope, per visited world:
      [FW_RelEnv w]       E1': GR_E1' for the group of batches that a withdrawal at w's block time
                          would release (GR_group h (now - unbonding_period)) and the coins arrived
                          so far (bal A_hub usei - hs_phb h); vacuous while no hub exists.
                          [FW_relenv_b w] is a computable sufficient condition:
                          (k - 1) * (coins the group expects) <= 1e18 per token type.
    No assumption on time (E2), delivery (E3) or wiring of the other contracts is needed for the
    funding invariant: whatever arrives late or never only delays or shrinks a release. *)
From Krp Require Import Tactics Prelude Fixed FMap Types Env Registry Cw20 Reward Dispatcher Hub Exec
     ExecP Hist HubFrame HubAdmin ClaimsStep ClaimsP LifeP GroupRelease WithdrawP RewardP RewardWorld
     FundWorldHub FundWorld.
Open Scope N_scope.

(** *** A. the property, for every history inside the envelope *)

(** in every world reached from the empty chain: released claims <= prev_hub_balance <= the hub's
    bank balance of usei, which is the hub's underlying coin *)
Theorem C01w_funded_reachable : forall ut ops h,
  legacy_free ops = true -> forallb FW_no_hub_root ops = true -> forallb FW_hub_usei ops = true ->
  always FW_RelEnv ops (empty_world ut) ->
  let w := run_ops ops (empty_world ut) in
  w_hub w = Some h ->
  WD_Fund h (bal (w_env w) A_hub usei) /\ WD_R h <= bal (w_env w) A_hub usei /\
  hp_underlying (h_params h) = usei.
Proof. exact FW_funded. Qed.

(** ... together with the C07 / C08 / C20 state invariants (the full operation-level invariant) *)
Theorem C01w_invariant_reachable : forall ut ops,
  legacy_free ops = true -> forallb FW_no_hub_root ops = true -> forallb FW_hub_usei ops = true ->
  always FW_RelEnv ops (empty_world ut) -> FW (run_ops ops (empty_world ut)).
Proof. exact FW_reachable. Qed.

(** from any world satisfying the invariant (not only the empty one) *)
Theorem C01w_invariant_history : forall ops w0,
  legacy_free ops = true -> forallb FW_no_hub_root ops = true -> forallb FW_hub_usei ops = true ->
  always FW_RelEnv ops w0 -> FW w0 -> FW (run_ops ops w0).
Proof. exact FW_history. Qed.

(** *** B. WithdrawUnbonded succeeds in every reachable world (E1 magnitudes for the release) *)

(** handler level: the release succeeds, all released claims stay covered, and any claimant [u]
    whose released claims are then worth >= 1 is paid exactly their value *)
Theorem C01w_withdraw_succeeds : forall ut ops h u,
  legacy_free ops = true -> forallb FW_no_hub_root ops = true -> forallb FW_hub_usei ops = true ->
  always FW_RelEnv ops (empty_world ut) ->
  let w := run_ops ops (empty_world ut) in
  w_hub w = Some h ->
  let balance := bal (w_env w) A_hub usei in
  let t := e_now (w_env w) - hp_unbonding (h_params h) in
  hp_unbonding (h_params h) <= e_now (w_env w) ->
  WD_E1 (GR_group h t) balance ->
  exists h1,
    process_withdraw_rate h t balance = Some h1 /\
    WD_R h1 <= balance /\
    (1 <= WD_user_val h1 u ->
     WD_user_val h1 u <= balance /\
     execute_withdraw w h A_hub u =
     Some (WD_paid h1 u balance, [MBank u [(usei, WD_user_val h1 u)]])).
Proof. exact FW_withdraw_succeeds. Qed.

(** transaction level (hub not paused): the whole transaction — handler and bank transfer — is
    accepted, executes exactly these two messages, and moves exactly the claim value *)
Theorem C01w_withdraw_tx_succeeds : forall ut ops h u,
  legacy_free ops = true -> forallb FW_no_hub_root ops = true -> forallb FW_hub_usei ops = true ->
  always FW_RelEnv ops (empty_world ut) ->
  let w := run_ops ops (empty_world ut) in
  w_hub w = Some h -> paused h = false ->
  let balance := bal (w_env w) A_hub usei in
  let t := e_now (w_env w) - hp_unbonding (h_params h) in
  hp_unbonding (h_params h) <= e_now (w_env w) ->
  WD_E1 (GR_group h t) balance ->
  exists h1,
    process_withdraw_rate h t balance = Some h1 /\
    (1 <= WD_user_val h1 u ->
     let v := WD_user_val h1 u in
     exists w',
       step w (OTx u A_hub (WHub HWithdraw) []) =
       (w', (true, [(u, MWasm A_hub (WHub HWithdraw) []); (A_hub, MBank u [(usei, v)])])) /\
       w_hub w' = Some (WD_paid h1 u balance) /\
       (u <> A_hub -> bal (w_env w') u usei = bal (w_env w) u usei + v /\
                      bal (w_env w') A_hub usei = balance - v)).
Proof. exact FW_withdraw_tx_succeeds. Qed.

(** *** C. how the invariant is kept: operations, transactions, messages *)

Theorem C01w_operation_preserves : forall w o,
  not_legacy o = true -> FW_no_hub_root o = true -> FW_hub_usei o = true ->
  FW_RelEnv w -> FW w -> FW (fst (step w o)).
Proof. exact FW_step. Qed.

Theorem C01w_transaction_preserves : forall w s target m funds w' tr,
  s <> A_hub -> FW_RelEnv w -> FW w ->
  run tx_fuel w [(s, MWasm target m funds)] [] = Some (w', tr) -> FW w'.
Proof. exact FW_tx. Qed.

(** inside a transaction, every executed message keeps: released claims <= prev_hub_balance and
    prev_hub_balance + (usei still to leave with the hub's pending messages) <= bank balance *)
Theorem C01w_message_preserves : forall w s m rest w' out,
  FW_J w ((s, m) :: rest) -> step_msg w s m = Some (w', out) -> FW_J w' (out ++ rest).
Proof. exact FW_step_J. Qed.

(** the root of a WithdrawUnbonded transaction: afterwards prev_hub_balance + payment <= balance *)
Theorem C01w_withdraw_root : forall w s to funds w1 out,
  s <> A_hub -> FW_RelEnv w -> FW w ->
  step_msg w s (MWasm to (WHub HWithdraw) funds) = Some (w1, out) -> FW_J w1 out.
Proof. exact FW_root_withdraw. Qed.

(** what leaves the hub: a handler other than WithdrawUnbonded emits only coin-free messages and
    Delegates; the Delegates carry at most [p], and [p] is 0 unless the call arrived with exactly
    the one coin (underlying, p) attached (Bond, BondForStSei, BondRewards) *)
Theorem C01w_hub_emits : forall w h self sender funds hm h' out,
  hub_execute w h self sender funds hm = Some (h', out) -> hm <> HWithdraw ->
  forallb FW_okd out = true /\
  exists p, sumN (map (outflow usei) out) <= p /\
            (p = 0 \/ funds = [(hp_underlying (h_params h), p)]).
Proof. exact FW_hub_out. Qed.

(** no other contract touches the hub state or ever emits a call of WithdrawUnbonded: a withdrawal
    (and hence a release) happens only as the root message of a transaction *)
Theorem C01w_no_nested_withdraw : forall w s to wm funds w' o,
  call_effect w s to wm funds w' o -> to <> A_hub ->
  w_hub w' = w_hub w /\ forallb FW_nwb o = true.
Proof. exact FW_call_other. Qed.

(** coins attached to a message arrive in full *)
Theorem C01w_funds_arrive : forall cs e from to e' d,
  send_coins e from to cs = Some e' -> from <> to ->
  bal e to d + coin_sum d cs <= bal e' to d.
Proof. exact FW_send_coins_credit. Qed.

(** *** D. the envelope clause E1' *)

(** E1' is monotone in the arrived coins (so funds attached to a withdrawal cannot break it) *)
Theorem C01w_E1'_mono : forall g A A', A <= A' -> GR_E1' g A -> GR_E1' g A'.
Proof. exact FW_E1'_mono. Qed.

(** it holds whenever (k - 1) * expected coins <= 1e18 per token type, whatever arrives *)
Theorem C01w_E1'_from_expected : forall g A,
  (N.of_nat (length g) - 1) * GR_tot_s g <= D -> (N.of_nat (length g) - 1) * GR_tot_b g <= D ->
  GR_E1' g A.
Proof. exact FW_E1'_from_expected. Qed.

Theorem C01w_relenv_check : forall w, FW_relenv_b w = true -> FW_RelEnv w.
Proof. exact FW_relenv_check. Qed.

(** *** E. non-vacuity and necessity of the hub-root clause *)

(** deploy, wire, bond (bSei and stSei), slash, unbond (direct and by allowance), close the batch,
    wait the unbonding period, alice withdraws: every envelope hypothesis holds, and bob's released
    claims worth 14906 are covered by prev_hub_balance = balance = 14907 *)
Theorem C01w_nonvacuous :
  legacy_free FW_ex_ops = true /\ forallb FW_no_hub_root FW_ex_ops = true /\
  forallb FW_hub_usei FW_ex_ops = true /\ always FW_RelEnv FW_ex_ops (empty_world 100) /\
  let w := run_ops FW_ex_ops (empty_world 100) in
  exists h, w_hub w = Some h /\ WD_Fund h (bal (w_env w) A_hub usei) /\
            WD_R h = 14906 /\ hs_phb (h_state h) = 14907 /\ bal (w_env w) A_hub usei = 14907.
Proof. exact FW_nonvacuous. Qed.

(** the world just before alice's withdrawal satisfies all hypotheses of C01w_withdraw_tx_succeeds *)
Theorem C01w_withdraw_nonvacuous :
  legacy_free FW_ex_pre = true /\ forallb FW_no_hub_root FW_ex_pre = true /\
  forallb FW_hub_usei FW_ex_pre = true /\ always FW_RelEnv FW_ex_pre (empty_world 100) /\
  let w := run_ops FW_ex_pre (empty_world 100) in
  exists h h1, w_hub w = Some h /\ paused h = false /\
    hp_unbonding (h_params h) <= e_now (w_env w) /\
    WD_E1 (GR_group h (e_now (w_env w) - hp_unbonding (h_params h))) (bal (w_env w) A_hub usei) /\
    process_withdraw_rate h (e_now (w_env w) - hp_unbonding (h_params h)) (bal (w_env w) A_hub usei)
      = Some h1 /\
    WD_user_val h1 cx_alice = 20816 /\ WD_user_val h1 cx_bob = 14906 /\
    bal (w_env w) A_hub usei = 35723 /\
    snd (step w (OTx cx_bob A_hub (WHub HWithdraw) []))
    = (true, [(cx_bob, MWasm A_hub (WHub HWithdraw) []); (A_hub, MBank cx_bob [(usei, 14906)])]).
Proof. exact FW_withdraw_nonvacuous. Qed.

(** if the hub's own address could sign a Bond with funds, the coins reserved for bob would be
    delegated away and his withdrawal would fail: the clause FW_no_hub_root is needed in the model *)
Theorem C01w_hub_root_witness :
  let ops := FW_ex_ops ++ [OTx A_hub A_hub (WHub HBond) [(usei, 10000)]] in
  let w := run_ops ops (empty_world 100) in
  forallb FW_no_hub_root ops = false /\
  exists h, w_hub w = Some h /\ WD_R h = 14906 /\ bal (w_env w) A_hub usei = 4907 /\
            step w (OTx cx_bob A_hub (WHub HWithdraw) []) = (w, (false, [])).
Proof. exact FW_hub_root_witness. Qed.

Print Assumptions C01w_funded_reachable.
Print Assumptions C01w_invariant_reachable.
Print Assumptions C01w_invariant_history.
Print Assumptions C01w_withdraw_succeeds.
Print Assumptions C01w_withdraw_tx_succeeds.
Print Assumptions C01w_operation_preserves.
Print Assumptions C01w_transaction_preserves.
Print Assumptions C01w_message_preserves.
Print Assumptions C01w_withdraw_root.
Print Assumptions C01w_hub_emits.
Print Assumptions C01w_no_nested_withdraw.
Print Assumptions C01w_funds_arrive.
Print Assumptions C01w_E1'_mono.
Print Assumptions C01w_E1'_from_expected.
Print Assumptions C01w_relenv_check.
Print Assumptions C01w_nonvacuous.
Print Assumptions C01w_withdraw_nonvacuous.
Print Assumptions C01w_hub_root_witness.
