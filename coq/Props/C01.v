(** C01 — Matured unbond claims are always fully funded and paid exactly once.
    Property theorems only (proofs: Proofs/GroupRelease.v, Proofs/WithdrawP.v).
    Level: the hub contract.  The hub's bank balance of the staking coin is the value
    [bal (w_env w) self underlying] read by the handler; [hs_phb] is prev_hub_balance.

    Named predicates (definitions in the proof files, all short):
    - [GR_group h t]      the release group of hub [h] at historical time [t] = now - unbonding_period:
                          the consecutive batches after last_processed_batch that are present, not
                          released and not younger than [t] (the model's [release_group]).
    - [GR_tot_s g], [GR_tot_b g]  coins the group expects per token type: sum of floor(amount*rate/1e18).
    - [GR_split Us Ub A]  the model's split of the arriving coins [A] into (stSei part, bSei part).
    - [GR_release g A]    the entries of [g] after the release with arriving coins [A] (closed form of
                          calculate_new_withdraw_rate for every batch); [GR_after h g A] the hub after it.
    - [GR_batch_value e]  floor(samt*swithdraw/1e18) + floor(bamt*bwithdraw/1e18): what ALL claims on a
                          batch are worth together at its withdraw rates.
    - [GR_E1' g A]        envelope clause E1': per token type, (k-1) * (expected - arrived part) <= 1e18,
                          k = length g, truncated subtraction.  [GR_E1'_total g A]: A <= 1e18 and
                          (k-1) * (U_st + U_b - A) <= 1e18 (the form of DESIGN.md section 4).
    - [WD_entry_val hist kv]  value of a wait entry: its claim value if its batch is released, else 0.
      [WD_user_val h u]   sum over [u]'s wait entries;  [WD_R h] sum over all wait entries.
    - [WD_mine u hist kv] wait entry [kv] belongs to [u] and its batch is released in [hist].
    - [WD_paid h1 u balance]  hub [h1] with [u]'s released entries filtered out and
                          prev_hub_balance := balance - WD_user_val h1 u.
    - [WD_claims_le h g]  C07-type hypothesis: for every batch of [g] the claims recorded in the wait
                          list sum to at most the batch's amounts (per token type).
    - [WD_Fund h bank]    hs_phb <= bank /\ WD_R h <= hs_phb  (the funding invariant).
    - [WD_E1 g balance]   E1 magnitudes: balance <= 1e18, U_st + U_b <= 1e18, every batch amount of
                          [g] <= 1e18 and its rates fit in 128 bits.
    - [WD_keeps h h']     prev_hub_balance and WD_R are equal in [h] and [h'].
    - [WD_open_unreleased h]  the open batch id has no released history entry (C08 life-cycle).
    - [WD_amount_of msgs] the amount of a single-coin single bank message, else 0. *)
From Krp Require Import Tactics Prelude Fixed FMap Types Env Registry Cw20 Hub HubFrame
     GroupRelease WithdrawP.
Open Scope N_scope.

(** *** A. The total paid for batches released together never exceeds the arrived coins *)

(** the release step in closed form: it either finds no group and changes nothing, or requires
    balance >= prev_hub_balance and replaces exactly the group's entries *)
Theorem C01_release_closed_form : forall h historical bal h',
  process_withdraw_rate h historical bal = Some h' ->
  (GR_group h historical = [] /\ h' = h) \/
  (GR_group h historical <> [] /\ hs_phb (h_state h) <= bal /\
   h' = GR_after h (GR_group h historical) (bal - hs_phb (h_state h))).
Proof. exact GR_pwr_spec. Qed.

(** pure core: for every group and every amount of arriving coins, under E1' only *)
Theorem C01_group_paid_le_arrived : forall g A,
  GR_E1' g A ->
  sumN (map (fun ie => GR_batch_value (snd ie)) (GR_release g A)) <= A.
Proof. exact GR_group_paid_le_arrived. Qed.

(** E1' follows from E1 (A <= 1e18) and (k-1) * total loss <= 1e18 *)
Theorem C01_E1'_from_total : forall g A,
  A <= D /\ (N.of_nat (length g) - 1) * (GR_tot_s g + GR_tot_b g - A) <= D -> GR_E1' g A.
Proof. exact GR_E1'_from_total. Qed.

(** claim floors only lose: claims that do not exceed a batch's amounts are worth at most the batch *)
Theorem C01_claims_le_batch : forall e (claims : list (N * N)),
  sumN (map fst claims) <= he_bamt e -> sumN (map snd claims) <= he_samt e ->
  sumN (map (GR_claim_val e) claims) <= GR_batch_value e.
Proof. exact GR_claims_le_batch. Qed.

(** hub level: the claims (of all users) that become payable in a release are together worth at most
    balance - prev_hub_balance *)
Theorem C01_hub_group_paid_le_arrived : forall h t balance h1,
  process_withdraw_rate h t balance = Some h1 ->
  GR_E1' (GR_group h t) (balance - hs_phb (h_state h)) ->
  WD_claims_le h (GR_group h t) ->
  exists newly, WD_R h1 = WD_R h + newly /\
                (GR_group h t <> [] -> newly <= balance - hs_phb (h_state h) /\ hs_phb (h_state h) <= balance) /\
                (GR_group h t = [] -> newly = 0).
Proof. exact WD_group_paid_le_arrived. Qed.

(** the former F3 witness (1, 1, 1000 stSei at rate 0.9; 810 of 900 coins arrive) now pays 809 <= 810 *)
Theorem C01_F3_witness_now_ok :
  (GR_tot_s GR_ex_g, GR_tot_b GR_ex_g) = (900, 0) /\
  map (fun ie => (fst ie, GR_batch_value (snd ie))) (GR_release GR_ex_g 810) = [(1, 0); (2, 0); (3, 809)] /\
  sumN (map (fun ie => GR_batch_value (snd ie)) (GR_release GR_ex_g 810)) = 809.
Proof. exact GR_F3_witness_now_ok. Qed.

(** outside E1' the per-batch credits can exceed the arrived coins by one unit (the payouts of this
    instance still do not) *)
Theorem C01_outside_E1'_witness :
  GR_tot_s GR_ex_g4 = 819426398650946263 /\ GR_tot_b GR_ex_g4 = 0 /\
  ~ GR_E1' GR_ex_g4 GR_ex_A4 /\
  sumN (map (fun u => GR_credited u (GR_tot_s GR_ex_g4) (GR_tot_s GR_ex_g4 - GR_ex_A4) false)
            (GR_us GR_ex_g4)) = GR_ex_A4 + 1 /\
  sumN (map (fun ie => GR_batch_value (snd ie)) (GR_release GR_ex_g4 GR_ex_A4)) = GR_ex_A4 - 3.
Proof. exact GR_outside_E1'_witness. Qed.

(** *** B. Rounding dust absent slashing and unsolicited transfers (A = U_st + U_b <= 1e18) *)

(** every batch is credited exactly what it expected: the new rate is floor(u * 1e18 / amount) *)
Theorem C01_release_no_loss : forall g,
  GR_tot_s g + GR_tot_b g <= D ->
  GR_release g (GR_tot_s g + GR_tot_b g) = map (fun ie => (fst ie, GR_rel_exact (snd ie))) g.
Proof. exact GR_release_no_loss. Qed.

(** the group falls short of the arrived coins by at most 2 base units per batch (1 per token type) *)
Theorem C01_group_dust : forall g,
  GR_tot_s g + GR_tot_b g <= D ->
  (forall ie, In ie g -> he_samt (snd ie) <= D /\ he_bamt (snd ie) <= D) ->
  GR_tot_s g + GR_tot_b g <=
  sumN (map (fun ie => GR_batch_value (snd ie)) (GR_release g (GR_tot_s g + GR_tot_b g)))
  + 2 * N.of_nat (length g).
Proof. exact GR_group_dust. Qed.

(** a claim of [c] tokens of a batch of [a] tokens expecting [u] coins is paid more than c*u/a - 2 *)
Theorem C01_claim_dust : forall e c,
  (he_samt e <= D -> c <= he_samt e -> he_samt e <> 0 ->
   c * (he_samt e * he_swithdraw e / D) < (c * he_swithdraw (GR_rel_exact e) / D + 2) * he_samt e) /\
  (he_bamt e <= D -> c <= he_bamt e -> he_bamt e <> 0 ->
   c * (he_bamt e * he_bwithdraw e / D) < (c * he_bwithdraw (GR_rel_exact e) / D + 2) * he_bamt e).
Proof. exact GR_claim_dust. Qed.

(** *** C. The release depends on balance and prev_hub_balance only through their difference *)
Theorem C01_release_deterministic : forall h1 h2 historical bal1 bal2 r1 r2,
  h_hist h1 = h_hist h2 -> hs_lpb (h_state h1) = hs_lpb (h_state h2) ->
  bal1 - hs_phb (h_state h1) = bal2 - hs_phb (h_state h2) ->
  process_withdraw_rate h1 historical bal1 = Some r1 ->
  process_withdraw_rate h2 historical bal2 = Some r2 ->
  h_hist r1 = h_hist r2 /\ hs_lpb (h_state r1) = hs_lpb (h_state r2).
Proof. exact GR_release_deterministic. Qed.

Theorem C01_release_balance_guard : forall h historical bal,
  GR_group h historical <> [] -> bal < hs_phb (h_state h) ->
  process_withdraw_rate h historical bal = None.
Proof. exact GR_pwr_balance_guard. Qed.

(** *** D. WithdrawUnbonded *)

(** exact effect: one bank message to the sender with exactly the value of its claims on released
    batches (after this call's release) at the batches' final rates; exactly those wait entries are
    removed; prev_hub_balance := balance - amount *)
Theorem C01_withdraw_exact : forall w h self sender h' msgs,
  execute_withdraw w h self sender = Some (h', msgs) ->
  let p := h_params h in
  let balance := bal (w_env w) self (hp_underlying p) in
  hp_unbonding p <= e_now (w_env w) /\
  exists h1,
    process_withdraw_rate h (e_now (w_env w) - hp_unbonding p) balance = Some h1 /\
    WD_user_val h1 sender <> 0 /\ WD_user_val h1 sender <= balance /\
    msgs = [MBank sender [(hp_underlying p, WD_user_val h1 sender)]] /\
    h' = WD_paid h1 sender balance.
Proof. exact WD_withdraw_exact. Qed.

(** the wait list afterwards, entry by entry: the sender's entries on released batches are gone, all
    other entries (other users, unreleased batches) are unchanged *)
Theorem C01_wait_of_after : forall h1 sender balance u b,
  wait_of (WD_paid h1 sender balance) u b =
  if (u =? sender) && WD_rel (h_hist h1) b then (0, 0) else wait_of h1 u b.
Proof. exact WD_wait_of_after. Qed.

(** configuration, parameters, open batch, pools and rates are untouched; released history entries
    are final *)
Theorem C01_withdraw_frame : forall w h self sender h' msgs,
  execute_withdraw w h self sender = Some (h', msgs) ->
  h_cfg h' = h_cfg h /\ h_params h' = h_params h /\ h_batch h' = h_batch h /\
  h_newowner h' = h_newowner h /\ h_oldwait h' = h_oldwait h /\
  hs_ber (h_state h') = hs_ber (h_state h) /\ hs_ser (h_state h') = hs_ser (h_state h) /\
  hs_bb (h_state h') = hs_bb (h_state h) /\ hs_bst (h_state h') = hs_bst (h_state h) /\
  hs_lim (h_state h') = hs_lim (h_state h) /\ hs_lut (h_state h') = hs_lut (h_state h) /\
  (forall j e, get N.eqb (h_hist h) j = Some e -> he_released e = true ->
               get N.eqb (h_hist h') j = Some e).
Proof. exact WD_withdraw_frame. Qed.

(** never paid twice: an immediately repeated withdrawal by the same sender fails, whatever the
    hub's balance then is *)
Theorem C01_paid_once : forall w h self sender h' msgs w',
  execute_withdraw w h self sender = Some (h', msgs) ->
  e_now (w_env w') = e_now (w_env w) ->
  execute_withdraw w' h' self sender = None.
Proof. exact WD_paid_once. Qed.

(** under the funding invariant and the envelope, the release succeeds, all released claims stay
    covered by the balance, and any claimant whose released claims are worth >= 1 is paid *)
Theorem C01_withdraw_succeeds : forall w h self sender,
  let p := h_params h in
  let balance := bal (w_env w) self (hp_underlying p) in
  let t := e_now (w_env w) - hp_unbonding p in
  let g := GR_group h t in
  hp_unbonding p <= e_now (w_env w) ->
  WD_Fund h balance -> WD_E1 g balance ->
  GR_E1' g (balance - hs_phb (h_state h)) -> WD_claims_le h g ->
  exists h1,
    process_withdraw_rate h t balance = Some h1 /\
    WD_R h1 <= balance /\
    (1 <= WD_user_val h1 sender ->
     execute_withdraw w h self sender =
     Some (WD_paid h1 sender balance, [MBank sender [(hp_underlying p, WD_user_val h1 sender)]])).
Proof. exact WD_withdraw_succeeds. Qed.

(** the funding invariant is preserved by a withdrawal (bank balance after the payment) *)
Theorem C01_fund_withdraw : forall w h self sender h' msgs,
  execute_withdraw w h self sender = Some (h', msgs) ->
  let p := h_params h in
  let balance := bal (w_env w) self (hp_underlying p) in
  let g := GR_group h (e_now (w_env w) - hp_unbonding p) in
  WD_Fund h balance ->
  GR_E1' g (balance - hs_phb (h_state h)) ->
  WD_claims_le h g ->
  exists amount, msgs = [MBank sender [(hp_underlying p, amount)]] /\ amount <= balance /\
                 WD_Fund h' (balance - amount) /\ hs_phb (h_state h') = balance - amount.
Proof. exact WD_fund_withdraw. Qed.

(** ... and by every other hub message, as long as the bank balance does not decrease *)
Theorem C01_other_messages_keep : forall w h self sender funds m h' out,
  hub_execute w h self sender funds m = Some (h', out) ->
  m <> HWithdraw -> h_oldwait h = [] -> WD_open_unreleased h ->
  WD_keeps h h'.
Proof. exact WD_hub_execute_keeps. Qed.

Theorem C01_fund_frame : forall h h' bank bank',
  WD_keeps h h' -> bank <= bank' -> WD_Fund h bank -> WD_Fund h' bank'.
Proof. exact WD_fund_frame. Qed.

(** one step of the hub preserves the funding invariant *)
Theorem C01_fund_step : forall w h self sender funds m h' out bank',
  hub_execute w h self sender funds m = Some (h', out) ->
  let balance := bal (w_env w) self (hp_underlying (h_params h)) in
  let g := GR_group h (e_now (w_env w) - hp_unbonding (h_params h)) in
  WD_Fund h balance -> h_oldwait h = [] -> WD_open_unreleased h ->
  (m = HWithdraw -> GR_E1' g (balance - hs_phb (h_state h)) /\ WD_claims_le h g /\
                    bank' = balance - WD_amount_of out) ->
  (m <> HWithdraw -> balance <= bank') ->
  WD_Fund h' bank'.
Proof. exact WD_fund_step. Qed.

(** order independence: if u then v succeeds (v's call running at the balance left by u's payment),
    then v then u succeeds, emits the same two bank messages and ends in the same hub state *)
Theorem C01_order_independent : forall w h self u v hu mu wu huv mv,
  u <> v ->
  let d := hp_underlying (h_params h) in
  execute_withdraw w h self u = Some (hu, mu) ->
  e_now (w_env wu) = e_now (w_env w) ->
  bal (w_env wu) self d = bal (w_env w) self d - WD_amount_of mu ->
  execute_withdraw wu hu self v = Some (huv, mv) ->
  forall wv,
    e_now (w_env wv) = e_now (w_env w) ->
    bal (w_env wv) self d = bal (w_env w) self d - WD_amount_of mv ->
    exists hv, execute_withdraw w h self v = Some (hv, mv) /\
               execute_withdraw wv hv self u = Some (huv, mu).
Proof. exact WD_order_independent. Qed.

(** non-vacuity: a concrete hub and world satisfy all hypotheses used above, and run as stated *)
Theorem C01_hyps_nonvacuous :
  let w := WD_ex_world 810 in
  let h := WD_ex_hub in
  let balance := bal (w_env w) A_hub (hp_underlying (h_params h)) in
  let g := GR_group h (e_now (w_env w) - hp_unbonding (h_params h)) in
  hp_unbonding (h_params h) <= e_now (w_env w) /\
  WD_Fund h balance /\ WD_E1 g balance /\ GR_E1' g (balance - hs_phb (h_state h)) /\
  WD_claims_le h g /\ WD_open_unreleased h /\ h_oldwait h = [].
Proof. exact WD_ex_hyps_nonvacuous. Qed.

Theorem C01_example_run :
  exists h22 h23,
    execute_withdraw (WD_ex_world 810) WD_ex_hub A_hub 22 = Some (h22, [MBank 22 [(usei, 485)]]) /\
    execute_withdraw (WD_ex_world 325) h22 A_hub 23 = Some (h23, [MBank 23 [(usei, 323)]]) /\
    execute_withdraw (WD_ex_world 325) h22 A_hub 22 = None /\
    execute_withdraw (WD_ex_world 325) h22 A_hub 20 = None /\
    hs_phb (h_state h23) = 2 /\ WD_R h23 = 0 /\
    exists h23', execute_withdraw (WD_ex_world 810) WD_ex_hub A_hub 23 = Some (h23', [MBank 23 [(usei, 323)]]) /\
                 execute_withdraw (WD_ex_world 487) h23' A_hub 22 = Some (h23, [MBank 22 [(usei, 485)]]).
Proof. exact WD_ex_run. Qed.

Print Assumptions C01_release_closed_form.
Print Assumptions C01_group_paid_le_arrived.
Print Assumptions C01_E1'_from_total.
Print Assumptions C01_claims_le_batch.
Print Assumptions C01_hub_group_paid_le_arrived.
Print Assumptions C01_F3_witness_now_ok.
Print Assumptions C01_outside_E1'_witness.
Print Assumptions C01_release_no_loss.
Print Assumptions C01_group_dust.
Print Assumptions C01_claim_dust.
Print Assumptions C01_release_deterministic.
Print Assumptions C01_release_balance_guard.
Print Assumptions C01_withdraw_exact.
Print Assumptions C01_wait_of_after.
Print Assumptions C01_withdraw_frame.
Print Assumptions C01_paid_once.
Print Assumptions C01_withdraw_succeeds.
Print Assumptions C01_fund_withdraw.
Print Assumptions C01_other_messages_keep.
Print Assumptions C01_fund_frame.
Print Assumptions C01_fund_step.
Print Assumptions C01_order_independent.
Print Assumptions C01_hyps_nonvacuous.
Print Assumptions C01_example_run.
