(** C11 (world / history level) — Pause blocks every state-changing path except the owner's unpause.
    Property theorems only.  Proofs: Proofs/PauseHistFrozen.v (part 1), Proofs/PauseHistLegacy.v
    (part 2), Proofs/PauseHistFlag.v, Proofs/PauseHistSim.v, Proofs/PauseHistFree.v (part 3),
    Proofs/PauseHist.v (pause cycles), Proofs/PauseHistEx.v (examples, witnesses).
    Handler-level statements: Props/C11.v.

    Named predicates (definitions in the proof files, all short):
    - [HubPaused w]          := exists h, w_hub w = Some h /\ paused h = true;
    - [exempt_hub_msg m]     := m is HParams .. or HMigrate ..   (bool);
    - [exempt_wasm wm]       := wm = WHub m with exempt_hub_msg m   (bool);
    - [hub_exempt_op o]      := o is OReset / OInstHub / OLegacyWait (operations that replace or
                                edit the hub from OUTSIDE the contracts), or a transaction
                                [OTx _ A_hub wm _] with [exempt_wasm wm]   (bool);
    - [to_hub m]             := exists wm f, m = MWasm A_hub wm f;
    - [LegacyLocked w]       := forall h, w_hub w = Some h -> h_oldwait h <> [] -> paused h = true;
    - [legacy_guard w o]     := if o = OLegacyWait .. then (forall h, w_hub w = Some h -> paused h = true)
                                else True   (legacy entries are injected only into a paused hub);
    - [guarded G ops w]      := G w_i o_i at every step i of the history ops from w;
    - [oldwait_of w]         := option_map h_oldwait (w_hub w);
    - [legacy_edit_op o]     := o is OReset / OInstHub / OLegacyWait or [OTx _ A_hub (WHub (HMigrate _)) _];
    - [hub_eqv h h']         := with_paused h None = with_paused h' None /\ paused h = paused h'
                                (equal except for the representation None / Some false of the flag);
    - [wsim w w']  (w ~ w')  := the hubs are both absent or [hub_eqv], all other components equal;
    - [wflag w w']           := the hubs are both absent or equal up to the stored flag (any two
                                values), all other components equal;
    - [outcomes ops w]       := the list of outcomes (success flag, executed trace) of the history;
    - [hits_hub tr]          := some message of the trace tr is addressed to the hub   (bool);
    - [hub_free w o]         := hits_hub (trace of step w o) = false;
    - [pause_op owner]       := OTx owner A_hub (WHub (HParams None None None None (Some true) None)) [];
    - [unpause_op owner pz]  := OTx owner A_hub (WHub (HParams None None None None pz None)) [];
    - [CycleReady w owner]   := exists h, w_hub w = Some h /\ hc_creator (h_cfg h) = owner /\
                                paused h = false /\ h_oldwait h = [] /\ HPInv h. *)
From Krp Require Import Tactics Prelude Fixed FMap Types Env Registry Cw20 Reward Dispatcher Hub Exec
     ExecP Hist HubFrame HubAdmin Auth Pause MirrorWire ExitWorld
     PauseHistFrozen PauseHistLegacy PauseHistFlag PauseHistSim PauseHistFree PauseHist PauseHistEx.
Open Scope N_scope.

(** * Part 1 — while paused nothing anywhere can change the hub or make it emit a message *)

(** EVERY operation of the alphabet other than the exempt ones leaves the hub of a paused world
    exactly as it was: transactions by any sender to any of the six contracts or the stubs (with
    whatever message tree they unfold into), time, slashing, reward accrual, gifts, stub modes,
    (re-)instantiation of the other contracts *)
Theorem C11h_paused_frozen : forall w o,
  HubPaused w -> hub_exempt_op o = false -> w_hub (fst (step w o)) = w_hub w.
Proof. exact paused_frozen. Qed.

(** ... hence along every history of such operations, in every intermediate world *)
Theorem C11h_paused_frozen_history : forall ops1 ops2 w,
  HubPaused w -> Forall (fun o => hub_exempt_op o = false) (ops1 ++ ops2) ->
  w_hub (run_ops ops1 w) = w_hub w.
Proof. exact paused_frozen_always. Qed.

(** no handler of any contract ever emits UpdateParams / MigrateUnbondWaitList: the two exempt
    messages can only be ROOT messages of transactions *)
Theorem C11h_exempt_only_root : forall w s m w' out,
  step_msg w s m = Some (w', out) ->
  Forall (fun sm => match snd sm with MWasm _ wm _ => exempt_wasm wm | _ => false end = false) out.
Proof. exact step_msg_emits_nx. Qed.

(** in ANY successful transaction in a paused world every executed message addressed to the hub is
    UpdateParams / MigrateUnbondWaitList, and no executed message other than the root was sent by
    the hub: the paused hub emitted nothing *)
Theorem C11h_paused_tx_hub_messages : forall w sender target m funds w' tr,
  HubPaused w -> step w (OTx sender target m funds) = (w', (true, tr)) ->
  Forall (fun sm => forall wm f, snd sm = MWasm A_hub wm f ->
                    exists hm, wm = WHub hm /\ exempt_hub_msg hm = true) tr /\
  Forall (fun sm => fst sm <> A_hub) (tl tr).
Proof. exact paused_tx_hub_messages. Qed.

(** a successful transaction with a non-exempt root: hub unchanged, the root was not addressed to
    the hub, no other executed message was addressed to or sent by the hub *)
Theorem C11h_paused_tx_trace : forall w h sender target m funds w' tr,
  w_hub w = Some h -> paused h = true ->
  (target =? A_hub) && exempt_wasm m = false ->
  run tx_fuel w [(sender, MWasm target m funds)] [] = Some (w', tr) ->
  w_hub w' = Some h /\ target <> A_hub /\
  exists rest, tr = (sender, MWasm target m funds) :: rest /\
               Forall (fun sm => fst sm <> A_hub /\ ~ to_hub (snd sm)) rest.
Proof. exact paused_tx_trace. Qed.

(** exact effect of the two exempt transactions: one message, nothing emitted *)
Theorem C11h_params_tx_effect : forall w h sender a b c d pz f funds w' tr,
  w_hub w = Some h ->
  step w (OTx sender A_hub (WHub (HParams a b c d pz f)) funds) = (w', (true, tr)) ->
  sender = hc_creator (h_cfg h) /\ (pz <> Some true -> h_oldwait h = []) /\
  exists e1, send_coins (w_env w) sender A_hub funds = Some e1 /\
    w' = set_hub (set_env w e1) (set_h_params h (new_params (h_params h) a b c d pz f)) /\
    tr = [(sender, MWasm A_hub (WHub (HParams a b c d pz f)) funds)].
Proof. exact params_tx_effect. Qed.

Theorem C11h_params_nonowner_rejected : forall w h sender a b c d pz f funds,
  w_hub w = Some h -> sender <> hc_creator (h_cfg h) ->
  step w (OTx sender A_hub (WHub (HParams a b c d pz f)) funds) = (w, (false, [])).
Proof. exact params_nonowner_rejected. Qed.

Theorem C11h_migrate_tx_effect : forall w h sender limit funds w' tr,
  w_hub w = Some h ->
  step w (OTx sender A_hub (WHub (HMigrate limit)) funds) = (w', (true, tr)) ->
  paused h = true /\
  exists e1, send_coins (w_env w) sender A_hub funds = Some e1 /\
    w' = set_hub (set_env w e1) (migrate_wait_lists h limit) /\
    tr = [(sender, MWasm A_hub (WHub (HMigrate limit)) funds)].
Proof. exact migrate_tx_effect. Qed.

(** corollary: a transaction whose root makes its contract emit a message to the hub fails as a
    whole and changes nothing (users' token balances included) *)
Theorem C11h_paused_tx_needing_hub_fails : forall w sender target m funds,
  HubPaused w -> (target =? A_hub) && exempt_wasm m = false ->
  (forall e1 w1 out, send_coins (w_env w) sender target funds = Some e1 ->
      call (set_env w e1) sender target m funds = Some (w1, out) ->
      exists wm f, In (MWasm A_hub wm f) out) ->
  step w (OTx sender target m funds) = (w, (false, [])).
Proof. exact paused_tx_needing_hub_fails. Qed.

(** instances: token Send / SendFrom to the hub with ANY hook (Unbond, Convert), BurnFrom, and the
    registry's RemoveValidator (which calls the hub's RedelegateProxy and UpdateGlobalIndex) *)
Theorem C11h_paused_bsei_send_fails : forall w u amt hk funds,
  HubPaused w -> step w (OTx u A_bsei (WCw20 (CSend A_hub amt hk)) funds) = (w, (false, [])).
Proof. exact paused_bsei_send_fails. Qed.

Theorem C11h_paused_stsei_send_fails : forall w u amt hk funds,
  HubPaused w -> step w (OTx u A_stsei (WCw20 (CSend A_hub amt hk)) funds) = (w, (false, [])).
Proof. exact paused_stsei_send_fails. Qed.

Theorem C11h_paused_bsei_sendfrom_fails : forall w u o amt hk funds,
  HubPaused w -> step w (OTx u A_bsei (WCw20 (CSendFrom o A_hub amt hk)) funds) = (w, (false, [])).
Proof. exact paused_bsei_sendfrom_fails. Qed.

Theorem C11h_paused_stsei_sendfrom_fails : forall w u o amt hk funds,
  HubPaused w -> step w (OTx u A_stsei (WCw20 (CSendFrom o A_hub amt hk)) funds) = (w, (false, [])).
Proof. exact paused_stsei_sendfrom_fails. Qed.

Theorem C11h_paused_bsei_burnfrom_fails : forall w t u o amt funds,
  HubPaused w -> w_bsei w = Some t -> tk_hub t = A_hub ->
  step w (OTx u A_bsei (WCw20 (CBurnFrom o amt)) funds) = (w, (false, [])).
Proof. exact paused_bsei_burnfrom_fails. Qed.

Theorem C11h_paused_stsei_burnfrom_fails : forall w t u o amt funds,
  HubPaused w -> w_stsei w = Some t -> tk_hub t = A_hub ->
  step w (OTx u A_stsei (WCw20 (CBurnFrom o amt)) funds) = (w, (false, [])).
Proof. exact paused_stsei_burnfrom_fails. Qed.

Theorem C11h_paused_reg_remove_fails : forall w g s v amount,
  HubPaused w -> w_reg w = Some g -> rg_hub g = A_hub ->
  delegation (w_env w) A_hub v = Some amount -> can_redelegate (w_env w) v = true ->
  step w (OTx s A_reg (WReg (GRemove v)) []) = (w, (false, [])).
Proof. exact paused_reg_remove_fails. Qed.

(** * Part 2 — legacy entries keep the hub paused along histories *)

(** every operation preserves [LegacyLocked], except the injection of legacy entries into an
    UN-paused hub (which [legacy_guard] excludes) *)
Theorem C11h_step_legacy : forall w o,
  LegacyLocked w -> legacy_guard w o -> LegacyLocked (fst (step w o)).
Proof. exact step_legacy. Qed.

(** the exclusion is needed *)
Theorem C11h_legacy_inject_witness :
  LegacyLocked legacy_w0 /\ ~ LegacyLocked (fst (step legacy_w0 (OLegacyWait 11 1 5))).
Proof. exact legacy_inject_witness. Qed.

(** along every guarded history, in every intermediate world, the hub is never un-paused while
    legacy entries remain *)
Theorem C11h_legacy_locked_always : forall ops1 ops2 w,
  LegacyLocked w -> guarded legacy_guard (ops1 ++ ops2) w -> LegacyLocked (run_ops ops1 w).
Proof. exact legacy_locked_always. Qed.

Theorem C11h_legacy_locked_reachable : forall ut ops1 ops2,
  guarded legacy_guard (ops1 ++ ops2) (empty_world ut) ->
  LegacyLocked (run_ops ops1 (empty_world ut)).
Proof. exact legacy_locked_reachable. Qed.

(** ... and an UpdateParams that would lift the pause is never accepted there *)
Theorem C11h_no_unpause_along_history : forall ops1 ops2 w0 h sender a b c d pz f funds w' tr,
  LegacyLocked w0 -> guarded legacy_guard (ops1 ++ ops2) w0 ->
  w_hub (run_ops ops1 w0) = Some h -> h_oldwait h <> [] ->
  paused h = true /\
  (pz <> Some true ->
   step (run_ops ops1 w0) (OTx sender A_hub (WHub (HParams a b c d pz f)) funds)
     <> (w', (true, tr))).
Proof. exact no_unpause_along_history. Qed.

(** the legacy list is changed by no operation other than a root MigrateUnbondWaitList to the hub
    (and the external OReset / OInstHub / OLegacyWait), in ANY world, paused or not *)
Theorem C11h_oldwait_only_migrate : forall w o,
  legacy_edit_op o = false -> oldwait_of (fst (step w o)) = oldwait_of w.
Proof. exact oldwait_only_migrate. Qed.

Theorem C11h_oldwait_only_migrate_history : forall ops w,
  Forall (fun o => legacy_edit_op o = false) ops -> oldwait_of (run_ops ops w) = oldwait_of w.
Proof. exact oldwait_only_migrate_history. Qed.

(** ... and the migration only removes entries, and only while paused *)
Theorem C11h_migrate_tx_oldwait : forall w h sender limit funds w' tr,
  w_hub w = Some h ->
  step w (OTx sender A_hub (WHub (HMigrate limit)) funds) = (w', (true, tr)) ->
  paused h = true /\ exists h', w_hub w' = Some h' /\ h' = migrate_wait_lists h limit /\
    incl (h_oldwait h') (h_oldwait h).
Proof. exact migrate_tx_oldwait. Qed.

(** * Part 3 — the two representations of "not paused" are behaviourally indistinguishable *)

(** handler level: [hub_execute] respects [hub_eqv] for EVERY message, sender, payload *)
Theorem C11h_hub_execute_sim : forall w h h' self sender funds m,
  hub_eqv h h' ->
  match hub_execute w h self sender funds m, hub_execute w h' self sender funds m with
  | Some (h1, o1), Some (h2, o2) => hub_eqv h1 h2 /\ o1 = o2
  | None, None => True
  | _, _ => False
  end.
Proof. exact hub_execute_sim. Qed.

(** the handlers never read the stored flag except at the dispatch gate: every message other than
    the two exempt ones commutes with overwriting the flag by a value that reads the same *)
Theorem C11h_hub_execute_flag_blind : forall w h self sender funds m pz,
  exempt_hub_msg m = false -> (match pz with Some b => b | None => false end) = paused h ->
  hub_execute w (with_paused h pz) self sender funds m =
  option_map (fun r => (with_paused (fst r) pz, snd r)) (hub_execute w h self sender funds m).
Proof. exact hub_execute_wp. Qed.

(** SIMULATION: for EVERY operation of the alphabet, [~]-related worlds give the same outcome
    (success flag AND executed trace) and [~]-related worlds *)
Theorem C11h_step_sim : forall w w' o,
  wsim w w' -> snd (step w o) = snd (step w' o) /\ wsim (fst (step w o)) (fst (step w' o)).
Proof. exact step_sim. Qed.

Theorem C11h_run_ops_sim : forall ops w w',
  wsim w w' -> outcomes ops w = outcomes ops w' /\ wsim (run_ops ops w) (run_ops ops w').
Proof. exact run_ops_sim. Qed.

(** all hub queries except the raw Parameters flag agree *)
Theorem C11h_hub_queries_eqv : forall w self h h' u start limit,
  hub_eqv h h' ->
  query_actual_state w self h = query_actual_state w self h' /\
  hub_query_history h start limit = hub_query_history h' start limit /\
  user_waits h u = user_waits h' u /\ finished_amount h u = finished_amount h' u /\
  h_cfg h = h_cfg h' /\ h_state h = h_state h' /\ h_batch h = h_batch h' /\
  h_newowner h = h_newowner h' /\ h_wait h = h_wait h' /\ h_hist h = h_hist h' /\
  h_oldwait h = h_oldwait h' /\
  hp_epoch (h_params h) = hp_epoch (h_params h') /\
  hp_underlying (h_params h) = hp_underlying (h_params h') /\
  hp_unbonding (h_params h) = hp_unbonding (h_params h') /\
  hp_pegfee (h_params h) = hp_pegfee (h_params h') /\
  hp_thr (h_params h) = hp_thr (h_params h') /\
  hp_rdenom (h_params h) = hp_rdenom (h_params h') /\
  paused h = paused h'.
Proof. exact hub_queries_eqv. Qed.

Theorem C11h_wsim_queries : forall w w' self u,
  wsim w w' ->
  hub_query_state w self = hub_query_state w' self /\
  hub_query_withdrawable w u = hub_query_withdrawable w' u /\
  opt_rel hub_eqv (w_hub w) (w_hub w').
Proof. exact wsim_queries. Qed.

(** pause; un-pause with nothing in between = identity up to [~] *)
Theorem C11h_pause_unpause_identity : forall w owner pz,
  CycleReady w owner -> pz <> Some true ->
  exists w1 w2 t1 t2,
    step w (pause_op owner) = (w1, (true, t1)) /\ HubPaused w1 /\
    step w1 (unpause_op owner pz) = (w2, (true, t2)) /\ wsim w w2.
Proof. exact pause_unpause_identity. Qed.

(** pause; ANY history of non-exempt operations; un-pause: in between the hub is frozen (part 1);
    afterwards the world is the one reached inside the pause with the hub of before the pause put
    back, up to [~] *)
Theorem C11h_pause_mid_unpause : forall w owner pz mid,
  CycleReady w owner -> pz <> Some true -> Forall (fun o => hub_exempt_op o = false) mid ->
  let w1 := fst (step w (pause_op owner)) in
  let w2 := run_ops mid w1 in
  let w3 := fst (step w2 (unpause_op owner pz)) in
  HubPaused w1 /\ w_hub w2 = w_hub w1 /\
  fst (snd (step w2 (unpause_op owner pz))) = true /\
  wsim (set_w_hub w2 (w_hub w)) w3.
Proof. exact pause_mid_unpause. Qed.

(** an operation that uses no hub message behaves the same with the hub paused *)
Theorem C11h_step_flag : forall w wp o,
  wflag w wp -> HubPaused wp -> hub_exempt_op o = false -> hub_free w o ->
  snd (step w o) = snd (step wp o) /\ wflag (fst (step w o)) (fst (step wp o)) /\
  w_hub (fst (step w o)) = w_hub w.
Proof. exact step_flag. Qed.

(** what the paused twin of a run does in general: it fails where the original fails, fails as
    soon as the original executes a message addressed to the hub, and mirrors it otherwise *)
Theorem C11h_run_flag : forall fuel w wp stack tr,
  wflag w wp -> HubPaused wp ->
  Forall (fun sm => match snd sm with
                    | MWasm to wm _ => (to =? A_hub) && exempt_wasm wm
                    | _ => false
                    end = false) stack ->
  (run fuel w stack tr = None -> run fuel wp stack tr = None) /\
  (forall w1 tr1, run fuel w stack tr = Some (w1, tr1) ->
     exists ex, tr1 = tr ++ ex /\
       ((hits_hub ex = true /\ run fuel wp stack tr = None) \/
        (hits_hub ex = false /\ w_hub w1 = w_hub w /\
         exists wp1, run fuel wp stack tr = Some (wp1, tr1) /\ wflag w1 wp1 /\ w_hub wp1 = w_hub wp))).
Proof. exact run_flag. Qed.

(** transparency of a pause cycle placed anywhere in a history, around a stretch [mid] that is
    hub-free when run WITHOUT the cycle, followed by any history [ops2]: same outcomes of [mid] and
    of [ops2], final worlds [~]-related.  ([mid = []] : "pause; un-pause inserted anywhere".) *)
Theorem C11h_pause_cycle_history : forall ops1 mid ops2 w0 owner pz,
  CycleReady (run_ops ops1 w0) owner -> pz <> Some true ->
  Forall (fun o => hub_exempt_op o = false) mid -> guarded hub_free mid (run_ops ops1 w0) ->
  let plain := ops1 ++ mid ++ ops2 in
  let cycled := ops1 ++ pause_op owner :: mid ++ unpause_op owner pz :: ops2 in
  wsim (run_ops plain w0) (run_ops cycled w0) /\
  outcomes mid (run_ops ops1 w0) = outcomes mid (run_ops (ops1 ++ [pause_op owner]) w0) /\
  outcomes ops2 (run_ops (ops1 ++ mid) w0) =
  outcomes ops2 (run_ops (ops1 ++ pause_op owner :: mid ++ [unpause_op owner pz]) w0).
Proof. exact pause_cycle_history. Qed.

(** the hub-free hypothesis is needed: an Unbond (token Send to the hub) in between succeeds without
    the cycle and is rejected inside it; the final worlds differ in the sender's token balance *)
Theorem C11h_pause_cycle_blocked_witness :
  CycleReady world0 A_owner /\ hub_exempt_op ph_unbond = false /\ ~ hub_free world0 ph_unbond /\
  outcomes [ph_unbond] world0 <> outcomes [ph_unbond] (fst (step world0 (pause_op A_owner))) /\
  ~ wsim (run_ops [ph_unbond] world0)
         (run_ops (pause_op A_owner :: [ph_unbond] ++ [unpause_op A_owner None]) world0).
Proof. exact pause_cycle_blocked_witness. Qed.

(** * Part 4 — non-vacuity (concrete reachable worlds, vm_compute) *)

(** a reachable paused world whose users hold tokens; the token Send carrying the Unbond hook is
    accepted before the pause and fails as a whole after it, the world is unchanged *)
Theorem C11h_ex_paused_world :
  HubPaused ph_wp /\
  option_map (fun t => tbal t alice) (w_bsei ph_wp) = Some 1000000 /\
  option_map (fun t => tbal t bob) (w_stsei ph_wp) = Some 2000000.
Proof. exact ph_paused_world_nonvacuous. Qed.

Theorem C11h_ex_unbond_ok_unpaused : fst (snd (step world0 ph_unbond)) = true.
Proof. exact ph_unbond_ok_unpaused. Qed.

Theorem C11h_ex_unbond_rejected_paused : step ph_wp ph_unbond = (ph_wp, (false, [])).
Proof. exact ph_unbond_rejected_paused_computed. Qed.

(** a non-exempt operation that does change the paused world — but not the hub *)
Theorem C11h_ex_transfer_paused :
  fst (snd (step ph_wp ph_transfer)) = true /\
  option_map (fun t => tbal t alice) (w_bsei (fst (step ph_wp ph_transfer))) = Some 999000 /\
  hub_exempt_op ph_transfer = false /\
  w_hub (fst (step ph_wp ph_transfer)) = w_hub ph_wp.
Proof. exact ph_transfer_paused. Qed.

(** a history with legacy entries: both forms of the un-pause are refused, also after a partial
    migration; the final migration page lifts the pause *)
Theorem C11h_ex_legacy_history :
  map fst (outcomes ph_legacy_ops (empty_world 100)) =
  [true; true; true; true; true; true; true; true; true; true; true; true;
   true; true; false; false; true; false; true] /\
  guarded legacy_guard ph_legacy_ops (empty_world 100) /\
  option_map (fun h => (hp_paused (h_params h), h_oldwait h, h_wait h))
             (w_hub (run_ops ph_legacy_ops (empty_world 100))) =
  Some (Some false, [], [((alice, 1), (500, 0)); ((bob, 1), (0, 0))]).
Proof. exact ph_legacy_history. Qed.

Theorem C11h_ex_unpause_refused :
  (exists h, w_hub ph_wl = Some h /\ h_oldwait h = [((alice, 1), 500); ((bob, 1), 0)] /\ paused h = true) /\
  LegacyLocked ph_wl /\
  step ph_wl (unpause_op A_owner None) = (ph_wl, (false, [])) /\
  step ph_wl (unpause_op A_owner (Some false)) = (ph_wl, (false, [])).
Proof. exact ph_unpause_refused. Qed.

(** the hypotheses of the pause-cycle theorems are satisfiable; both representations occur *)
Theorem C11h_ex_cycle :
  CycleReady world0 A_owner /\
  (Forall (fun o => hub_exempt_op o = false) ph_mid /\ guarded hub_free ph_mid world0 /\
   map fst (outcomes ph_mid world0) = [true; true; true; true]) /\
  wsim (run_ops ph_mid world0)
       (run_ops (pause_op A_owner :: ph_mid ++ [unpause_op A_owner None]) world0) /\
  option_map (fun h => hp_paused (h_params h)) (w_hub (run_ops ph_mid world0)) = Some (Some false) /\
  option_map (fun h => hp_paused (h_params h))
    (w_hub (run_ops (pause_op A_owner :: ph_mid ++ [unpause_op A_owner None]) world0)) = Some None.
Proof. exact ph_cycle_summary. Qed.

Print Assumptions C11h_paused_frozen.
Print Assumptions C11h_paused_frozen_history.
Print Assumptions C11h_exempt_only_root.
Print Assumptions C11h_paused_tx_hub_messages.
Print Assumptions C11h_paused_tx_trace.
Print Assumptions C11h_params_tx_effect.
Print Assumptions C11h_params_nonowner_rejected.
Print Assumptions C11h_migrate_tx_effect.
Print Assumptions C11h_paused_tx_needing_hub_fails.
Print Assumptions C11h_paused_bsei_send_fails.
Print Assumptions C11h_paused_stsei_send_fails.
Print Assumptions C11h_paused_bsei_sendfrom_fails.
Print Assumptions C11h_paused_stsei_sendfrom_fails.
Print Assumptions C11h_paused_bsei_burnfrom_fails.
Print Assumptions C11h_paused_stsei_burnfrom_fails.
Print Assumptions C11h_paused_reg_remove_fails.
Print Assumptions C11h_step_legacy.
Print Assumptions C11h_legacy_inject_witness.
Print Assumptions C11h_legacy_locked_always.
Print Assumptions C11h_legacy_locked_reachable.
Print Assumptions C11h_no_unpause_along_history.
Print Assumptions C11h_oldwait_only_migrate.
Print Assumptions C11h_oldwait_only_migrate_history.
Print Assumptions C11h_migrate_tx_oldwait.
Print Assumptions C11h_hub_execute_sim.
Print Assumptions C11h_hub_execute_flag_blind.
Print Assumptions C11h_step_sim.
Print Assumptions C11h_run_ops_sim.
Print Assumptions C11h_hub_queries_eqv.
Print Assumptions C11h_wsim_queries.
Print Assumptions C11h_pause_unpause_identity.
Print Assumptions C11h_pause_mid_unpause.
Print Assumptions C11h_step_flag.
Print Assumptions C11h_run_flag.
Print Assumptions C11h_pause_cycle_history.
Print Assumptions C11h_pause_cycle_blocked_witness.
Print Assumptions C11h_ex_paused_world.
Print Assumptions C11h_ex_unbond_ok_unpaused.
Print Assumptions C11h_ex_unbond_rejected_paused.
Print Assumptions C11h_ex_transfer_paused.
Print Assumptions C11h_ex_legacy_history.
Print Assumptions C11h_ex_unpause_refused.
Print Assumptions C11h_ex_cycle.
