(** C14 / C15 — history-level and transaction-level complements.
    Property theorems only (proofs: Proofs/RewardHist.v; vocabulary of Props/C14.v, Props/C15.v).

    PART A (C14: "nothing is stranded ... total claimed never exceeds total rewards delivered",
    for every history of operations on worlds).  Ghost quantities, not part of the model, computed
    by functions defined in Proofs/RewardHist.v:
      wghost = { wg_delivered; wg_claimed; wg_upds : list N }
      rmsg_of m          = the reward message that chain message [m] delivers to the reward
                           contract (WReward rm, or the hub-shaped UpdateGlobalIndex), if any
      gmsg d0 w s m w' g = ghosts after ONE executed message (s, m) taking world w to w':
                             wg_delivered += increase of the reward contract's bank balance of coin
                                             d0 (bal w' + coins this message carried away - bal w);
                             wg_claimed   += acc r s / D  when m is an executed ClaimRewards of s
                                             (payout_of r s rm, r = reward state in w);
                             wg_upds       = rw_total r :: wg_upds when m is an executed
                                             UpdateGlobalIndex with rw_total r <> 0
      grun d0            = Exec.run threading the ghosts through gmsg (same fuel, same stack order)
      gstep d0 w o g     = ghosts after operation o: OReset restarts them at 0; a transaction uses
                           grun (unchanged if the transaction fails); every other operation adds
                           the increase of the reward contract's balance (gifts, matured coins)
      gfold d0 ops w g   = gstep folded along the history;   g_zero = all ghosts 0
      cap g              = SUM over t in wg_upds g of (t - 1): dust allowance;
                           length (wg_upds g) = number of effective index updates
      eff_cap r m        = rw_total r - 1 if m is UpdateGlobalIndex and rw_total r <> 0, else 0
      UB M g             = Forall (fun t => t <= M) (wg_upds g);   nosettle_s (s, m) = nosettle m = true
      DG r g             = rw_prev r * D <= sum_acc r + cap g  /\
                           rw_gi r <= (rw_prev r + wg_claimed g) * D
      GW d0 w g          = bal (w_env w) A_reward d0 + wg_claimed g = wg_delivered g  /\
                           DG r g for the reward state r of w (if instantiated)
    Envelope: exactly that of C14_reachable — [REnv d0] (E4 reward configuration) in every visited
    world, [NoRewardRoot] (the reward contract signs no transaction).  E1 is needed only for the
    closed form "less than one base unit per update": the supplies seen by the executed effective
    index updates must be at most 10^18, [Forall (fun t => t <= LIM) (wg_upds g)] = [UB LIM g].
    This predicate on the executed reward calls is DERIVED (C14w_updates_within_E1) from the
    always-style world predicate [RTot LIM w] = "rw_total r <= 10^18 for the reward state of w"
    (under C16 this is the bSei supply) holding in every visited world, because a transaction
    that executes an index update never executes an Increase/DecreaseBalance:
      nosettle m = m is one of WSwap, WOpaque, DSwap, DDispatch, hub UpdateGlobalIndex /
                   BondRewards / RedelegateProxy, reward Swap / ClaimRewards / UpdateGlobalIndex,
                   registry RemoveValidator / Redelegations, or a bank / staking message;
                   every message is calm (PART B) or nosettle.

    PART B (C15 (e): "transferring, sending, unbonding or burning tokens moves no past rewards, and
    tokens acquired after an update earn nothing from it", for whole transactions).
      calm m   = m is in [exit_class] of NonInterf.v (everything except WSwap, DSwap, DDispatch,
                 hub UpdateGlobalIndex, reward SwapToRewardDenom, registry RemoveValidator /
                 Redelegations) and is not the reward contract's ClaimRewards / UpdateGlobalIndex.
                 Every cw20 message of both tokens is calm; so are hub Bond, Receive (the Unbond /
                 Convert hooks), WithdrawUnbonded, CheckSlashing.
      calm_s (s, m) = calm m = true
      no_rcall m    = m is not a [WReward] call, or it is Increase/DecreaseBalance *)
From Krp Require Import Tactics Prelude Fixed FMap Types Env Registry Cw20 Reward Dispatcher Hub Exec
     ExecP Hist Inv MirrorWire MirrorP NonInterf RewardP RewardWorld RewardHist.
Open Scope N_scope.

(** * PART A *)

(** the instrumentation does not change the execution *)
Theorem C14w_ghost_run_same_world : forall d0 fuel w st g tr,
  option_map fst (grun d0 fuel w st g) = option_map fst (run fuel w st tr).
Proof. exact grun_world. Qed.

(** every reward call inside a transaction is a step [cstep] of the contract-level trace semantics
    of C14 (Proofs/RewardP.v), with [bank] = the contract's real balance when the handler runs *)
Theorem C14w_call_is_contract_step : forall w s m w' out r rm,
  step_msg w s m = Some (w', out) -> w_reward w = Some r -> rmsg_of m = Some rm ->
  exists w1 r' o,
    w_env w1 = w_env w' /\ w_reward w' = Some r' /\
    reward_execute w1 r A_reward s rm = Some (r', o) /\
    out = map (fun x => (A_reward, x)) o /\
    forall g, cstep (r, bal (w_env w1) A_reward (rw_denom r), g)
                    (r', bal (w_env w1) A_reward (rw_denom r) - payout_of r s rm,
                     mkGhost (g_delivered g) (g_claimed g + payout_of r s rm)
                             (g_updates g + effective_update r rm)).
Proof. exact reward_call_is_cstep. Qed.

(** contract level, without any magnitude assumption: an index update over supply T strands at
    most T - 1 atomics, every other message strands nothing; the index stays below the coins
    accounted so far *)
Theorem C14w_handler_dust : forall w r self s m r' out bank cp cl,
  RInv r bank -> bal (w_env w) self (rw_denom r) = bank ->
  reward_execute w r self s m = Some (r', out) ->
  rw_prev r * D <= sum_acc r + cp -> rw_gi r <= (rw_prev r + cl) * D ->
  rw_prev r' * D <= sum_acc r' + (cp + eff_cap r m) /\
  rw_gi r' <= (rw_prev r' + (cl + payout_of r s m)) * D.
Proof. exact exec_ghost. Qed.

(** one operation of a history *)
Theorem C14w_step : forall d0 w o g,
  match o with OTx s _ _ _ => s <> A_reward | _ => True end ->
  REnv d0 w -> RWInv w -> GW d0 w g -> GW d0 (fst (step w o)) (gstep d0 w o g).
Proof. exact gstep_inv. Qed.

(** every history inside the envelope of C14_reachable keeps the ghost identities, in every
    reached world (the theorem holds for every [ops], hence for every prefix) *)
Theorem C14w_reachable : forall d0 ops w0 g0,
  NoRewardRoot ops -> always (REnv d0) ops w0 -> RWInv w0 -> GW d0 w0 g0 ->
  RWInv (run_ops ops w0) /\ GW d0 (run_ops ops w0) (gfold d0 ops w0 g0).
Proof. exact ghost_reachable. Qed.

Theorem C14w_reachable_from_empty : forall d0 ut ops,
  NoRewardRoot ops -> always (REnv d0) ops (empty_world ut) ->
  RWInv (run_ops ops (empty_world ut)) /\
  GW d0 (run_ops ops (empty_world ut)) (gfold d0 ops (empty_world ut) g_zero).
Proof. exact ghost_from_empty. Qed.

(** total claimed never exceeds total delivered; the real bank balance is exactly
    delivered - claimed; claimed plus everything still accrued to holders never exceeds delivered;
    the global index never exceeds delivered coins per 1 bSei *)
Theorem C14w_claimed_le_delivered : forall d0 ops w0 g0 r,
  NoRewardRoot ops -> always (REnv d0) ops w0 -> RWInv w0 -> GW d0 w0 g0 ->
  w_reward (run_ops ops w0) = Some r ->
  bal (w_env (run_ops ops w0)) A_reward d0 + wg_claimed (gfold d0 ops w0 g0)
    = wg_delivered (gfold d0 ops w0 g0) /\
  wg_claimed (gfold d0 ops w0 g0) <= wg_delivered (gfold d0 ops w0 g0) /\
  wg_claimed (gfold d0 ops w0 g0) * D + sum_acc r <= wg_delivered (gfold d0 ops w0 g0) * D /\
  rw_prev r + wg_claimed (gfold d0 ops w0 g0) <= wg_delivered (gfold d0 ops w0 g0) /\
  rw_gi r <= wg_delivered (gfold d0 ops w0 g0) * D.
Proof. exact hist_claimed_le_delivered. Qed.

(** nothing is stranded: recorded balance minus the holders' accrued rewards is at most t - 1
    atomics per effective update over supply t (unconditionally), i.e. less than one base unit per
    update when those supplies are within E1 — independent of the number of holders; and every
    delivered coin is claimed, accrued to a holder, waiting for the next update, or such dust *)
Theorem C14w_stranded_dust : forall d0 ops w0 g0 r,
  NoRewardRoot ops -> always (REnv d0) ops w0 -> RWInv w0 -> GW d0 w0 g0 ->
  w_reward (run_ops ops w0) = Some r ->
  sum_acc r <= rw_prev r * D /\
  rw_prev r * D - sum_acc r <= cap (gfold d0 ops w0 g0) /\
  (Forall (fun t => t <= LIM) (wg_upds (gfold d0 ops w0 g0)) ->
   rw_prev r * D - sum_acc r
     <= N.of_nat (length (wg_upds (gfold d0 ops w0 g0))) * (D - 1)) /\
  wg_delivered (gfold d0 ops w0 g0) * D
    <= wg_claimed (gfold d0 ops w0 g0) * D + sum_acc r
       + (bal (w_env (run_ops ops w0)) A_reward d0 - rw_prev r) * D + cap (gfold d0 ops w0 g0).
Proof. exact hist_stranded_dust. Qed.

Theorem C14w_dust_allowance_bound : forall g,
  Forall (fun t => t <= LIM) (wg_upds g) -> cap g <= N.of_nat (length (wg_upds g)) * (D - 1).
Proof. exact cap_bound. Qed.

(** E1 for the executed updates from E1 for the visited worlds: every message is calm or nosettle;
    nosettle is closed under emission and never changes the mirrored supply; a calm transaction
    executes no index update *)
Theorem C14w_calm_or_nosettle : forall m, calm m = true \/ nosettle m = true.
Proof. exact calm_or_nosettle. Qed.

Theorem C14w_nosettle_closed : forall w s m w' out,
  step_msg w s m = Some (w', out) -> nosettle m = true -> Forall nosettle_s out.
Proof. exact nosettle_closed. Qed.

Theorem C14w_nosettle_keeps_supply : forall M w s m w' out,
  nosettle m = true -> step_msg w s m = Some (w', out) -> RTot M w -> RTot M w'.
Proof. exact nosettle_step_total. Qed.

Theorem C14w_updates_within_E1 : forall d0 M ops w0 g0,
  always (RTot M) ops w0 -> UB M g0 -> UB M (gfold d0 ops w0 g0).
Proof. exact upds_bounded. Qed.

(** nothing is stranded, closed form, E1 as an always-style predicate on the visited worlds *)
Theorem C14w_stranded_dust_E1 : forall d0 ops w0 g0 r,
  NoRewardRoot ops -> always (REnv d0) ops w0 -> always (RTot LIM) ops w0 ->
  RWInv w0 -> GW d0 w0 g0 -> UB LIM g0 ->
  w_reward (run_ops ops w0) = Some r ->
  sum_acc r <= rw_prev r * D /\
  rw_prev r * D - sum_acc r
    <= N.of_nat (length (wg_upds (gfold d0 ops w0 g0))) * (D - 1).
Proof. exact hist_stranded_dust_E1. Qed.

Theorem C14w_stranded_dust_E1_from_empty : forall d0 ut ops r,
  NoRewardRoot ops -> always (REnv d0) ops (empty_world ut) ->
  always (RTot LIM) ops (empty_world ut) ->
  w_reward (run_ops ops (empty_world ut)) = Some r ->
  sum_acc r <= rw_prev r * D /\
  rw_prev r * D - sum_acc r
    <= N.of_nat (length (wg_upds (gfold d0 ops (empty_world ut) g_zero))) * (D - 1).
Proof. exact hist_stranded_dust_E1_empty. Qed.

(** from the empty chain, all ghosts starting at 0 *)
Theorem C14w_from_empty : forall d0 ut ops r,
  NoRewardRoot ops -> always (REnv d0) ops (empty_world ut) ->
  w_reward (run_ops ops (empty_world ut)) = Some r ->
  bal (w_env (run_ops ops (empty_world ut))) A_reward d0
    + wg_claimed (gfold d0 ops (empty_world ut) g_zero)
    = wg_delivered (gfold d0 ops (empty_world ut) g_zero) /\
  wg_claimed (gfold d0 ops (empty_world ut) g_zero)
    <= wg_delivered (gfold d0 ops (empty_world ut) g_zero) /\
  rw_prev r + wg_claimed (gfold d0 ops (empty_world ut) g_zero)
    <= wg_delivered (gfold d0 ops (empty_world ut) g_zero) /\
  sum_acc r <= rw_prev r * D /\
  rw_prev r * D - sum_acc r <= cap (gfold d0 ops (empty_world ut) g_zero) /\
  (Forall (fun t => t <= LIM) (wg_upds (gfold d0 ops (empty_world ut) g_zero)) ->
   rw_prev r * D - sum_acc r
     <= N.of_nat (length (wg_upds (gfold d0 ops (empty_world ut) g_zero))) * (D - 1)).
Proof. exact hist_from_empty. Qed.

(** non-vacuity: the contract-only history of RewardWorld.v, and a full deployment of the six
    contracts with bond, transfers, unbond, 1000 coins indexed over supply 800, and a claim of 562 *)
Theorem C14w_example_nonvacuous :
  NoRewardRoot ex_ops /\ always (REnv uusd) ex_ops (empty_world 100) /\
  RWInv (empty_world 100) /\ GW uusd (empty_world 100) g_zero /\
  gfold uusd ex_ops (empty_world 100) g_zero = mkWG 10 4 [7] /\
  Forall (fun t => t <= LIM) (wg_upds (gfold uusd ex_ops (empty_world 100) g_zero)) /\
  exists r, w_reward (run_ops ex_ops (empty_world 100)) = Some r /\
            rw_prev r = 6 /\ dust r = 3 /\ bal (w_env (run_ops ex_ops (empty_world 100))) A_reward uusd = 6.
Proof. exact ghost_nonvacuous. Qed.

Theorem C14w_example_wired_nonvacuous :
  NoRewardRoot hx_all /\ always (REnv uusd) hx_all (empty_world 50) /\
  gfold uusd hx_all (empty_world 50) g_zero = mkWG 1000 562 [800] /\
  exists r, w_reward (run_ops hx_all (empty_world 50)) = Some r /\
            rw_prev r = 438 /\ dust r = 0 /\ acc r ex_alice = 500000000000000000 /\
            bal (w_env (run_ops hx_all (empty_world 50))) A_reward uusd = 438 /\
            bal (w_env (run_ops hx_all (empty_world 50))) ex_alice uusd = 562.
Proof. exact ghost_wired_nonvacuous. Qed.

Theorem C14w_example_E1_nonvacuous :
  NoRewardRoot hx_all /\ always (REnv uusd) hx_all (empty_world 50) /\
  always (RTot LIM) hx_all (empty_world 50) /\
  length (wg_upds (gfold uusd hx_all (empty_world 50) g_zero)) = 1%nat.
Proof. exact dust_E1_nonvacuous. Qed.

(** * PART B *)

(** every cw20 message, to either token (or any target), with any arguments, is in the class *)
Theorem C15w_token_messages_calm : forall to cm f, calm (MWasm to (WCw20 cm) f) = true.
Proof. exact calm_cw20. Qed.

(** a calm message is neither an index update (in either wire format) nor a claim *)
Theorem C15w_calm_no_update_no_claim : forall sm,
  calm_s sm ->
  rmsg_of (snd sm) <> Some RUpdateIndex /\ forall rcp, rmsg_of (snd sm) <> Some (RClaim rcp).
Proof. exact calm_no_update_no_claim. Qed.

(** no contract executing a message of [exit_class] emits a reward call other than the bSei
    token's Increase/DecreaseBalance *)
Theorem C15w_only_token_emits_reward_calls : forall w s m w' out,
  step_msg w s m = Some (w', out) -> exit_class m = true ->
  Forall (fun sm => no_rcall (snd sm)) out.
Proof. exact emit_no_reward_call. Qed.

Theorem C15w_class_closed : forall w s m w' out,
  step_msg w s m = Some (w', out) -> calm m = true -> Forall calm_s out.
Proof. exact calm_closed. Qed.

(** every message executed by a run from a calm stack is calm: no index update, no claim *)
Theorem C15w_trace_calm : forall fuel w st tr w' tr',
  run fuel w st tr = Some (w', tr') -> Forall calm_s st -> Forall calm_s tr -> Forall calm_s tr'.
Proof. exact run_trace_calm. Qed.

(** one calm message leaves every address's accrued atomics, the index and prev unchanged *)
Theorem C15w_calm_message_preserves_acc : forall r0 w s m w' out,
  calm m = true -> step_msg w s m = Some (w', out) ->
  (exists r, w_reward w = Some r /\ rw_gi r = rw_gi r0 /\ rw_prev r = rw_prev r0 /\
             forall a, acc r a = acc r0 a) ->
  (exists r, w_reward w' = Some r /\ rw_gi r = rw_gi r0 /\ rw_prev r = rw_prev r0 /\
             forall a, acc r a = acc r0 a).
Proof. exact calm_step_acc. Qed.

(** a successful transaction with a calm root — every bSei token message: Transfer, Send to any
    contract with any hook (unbonding / converting through the hub), TransferFrom, SendFrom,
    BurnFrom, Burn, Mint, allowances — executes no index update and no claim, and leaves the
    accrued atomics of EVERY address (sender, recipient, owner, spender, hub, bystanders), the
    global index and the recorded balance unchanged; any world, any sender *)
Theorem C15w_tx_preserves_acc : forall w sender target m funds w' tr r,
  calm (MWasm target m funds) = true -> w_reward w = Some r ->
  run tx_fuel w [(sender, MWasm target m funds)] [] = Some (w', tr) ->
  Forall calm_s tr /\
  exists r', w_reward w' = Some r' /\ rw_gi r' = rw_gi r /\ rw_prev r' = rw_prev r /\
             forall a, acc r' a = acc r a.
Proof. exact calm_tx_preserves_acc. Qed.

(** bSei token roots in a Wired, Mirror world by anyone but the token contract's own address:
    at the end the reward-side balances are the new token balances (Mirror), all accrued rewards
    are where they were *)
Theorem C15w_bsei_tx_rewards_stay : forall w sender cm funds w' tr r,
  Wired w -> Mirror w -> sender <> A_bsei -> w_reward w = Some r ->
  run tx_fuel w [(sender, MWasm A_bsei (WCw20 cm) funds)] [] = Some (w', tr) ->
  Wired w' /\ Mirror w' /\ Forall calm_s tr /\
  exists r', w_reward w' = Some r' /\ rw_gi r' = rw_gi r /\ rw_prev r' = rw_prev r /\
             forall a, acc r' a = acc r a.
Proof. exact bsei_tx_rewards_stay. Qed.

(** tokens acquired (by any calm transaction) after an index update earn nothing from it *)
Theorem C15w_late_tokens_tx : forall w0 r self s r1 o1 w sender target m funds w' tr a,
  reward_execute w0 r self s RUpdateIndex = Some (r1, o1) -> rw_total r <> 0 ->
  ho_idx (holder_of r a) <= rw_gi r ->
  w_reward w = Some r1 -> calm (MWasm target m funds) = true ->
  run tx_fuel w [(sender, MWasm target m funds)] [] = Some (w', tr) ->
  exists r2, w_reward w' = Some r2 /\
    acc r2 a = acc r a + ho_bal (holder_of r a) * index_step r (bal (w_env w0) self (rw_denom r)).
Proof. exact late_tokens_tx. Qed.

(** non-vacuity: alice (450 bSei, 562.5 coins accrued) transfers 100 bSei to bob (350 bSei,
    437.5 coins accrued) in a wired, mirrored world: balances move, accrued rewards do not *)
Theorem C15w_example_nonvacuous :
  Wired hx_w3 /\ Mirror hx_w3 /\ ex_alice <> A_bsei /\
  exists r tr r',
    w_reward hx_w3 = Some r /\
    run tx_fuel hx_w3 hx_tx [] = Some (hx_w4, tr) /\ length tr = 3%nat /\
    w_reward hx_w4 = Some r' /\
    acc r ex_alice = 562500000000000000000 /\ acc r' ex_alice = 562500000000000000000 /\
    acc r ex_bob = 437500000000000000000 /\ acc r' ex_bob = 437500000000000000000 /\
    ho_bal (holder_of r ex_alice) = 450 /\ ho_bal (holder_of r' ex_alice) = 350 /\
    ho_bal (holder_of r ex_bob) = 350 /\ ho_bal (holder_of r' ex_bob) = 450.
Proof. exact calm_tx_nonvacuous. Qed.

Print Assumptions C14w_ghost_run_same_world.
Print Assumptions C14w_call_is_contract_step.
Print Assumptions C14w_handler_dust.
Print Assumptions C14w_step.
Print Assumptions C14w_reachable.
Print Assumptions C14w_reachable_from_empty.
Print Assumptions C14w_claimed_le_delivered.
Print Assumptions C14w_stranded_dust.
Print Assumptions C14w_dust_allowance_bound.
Print Assumptions C14w_from_empty.
Print Assumptions C14w_calm_or_nosettle.
Print Assumptions C14w_nosettle_closed.
Print Assumptions C14w_nosettle_keeps_supply.
Print Assumptions C14w_updates_within_E1.
Print Assumptions C14w_stranded_dust_E1.
Print Assumptions C14w_stranded_dust_E1_from_empty.
Print Assumptions C14w_example_E1_nonvacuous.
Print Assumptions C14w_example_nonvacuous.
Print Assumptions C14w_example_wired_nonvacuous.
Print Assumptions C15w_token_messages_calm.
Print Assumptions C15w_calm_no_update_no_claim.
Print Assumptions C15w_only_token_emits_reward_calls.
Print Assumptions C15w_class_closed.
Print Assumptions C15w_trace_calm.
Print Assumptions C15w_calm_message_preserves_acc.
Print Assumptions C15w_tx_preserves_acc.
Print Assumptions C15w_bsei_tx_rewards_stay.
Print Assumptions C15w_late_tokens_tx.
Print Assumptions C15w_example_nonvacuous.
