(** C18 — Both tokens conserve supply; only the hub mints and burns.
    Property theorems only (proofs: Proofs/Cw20P.v, Proofs/TokenWorld.v, Proofs/Auth.v). *)
From Krp Require Import Tactics Prelude Fixed FMap Types Env Registry Cw20 Reward Dispatcher Hub Exec
     ExecP Cw20P TokenWorld Auth.
Open Scope N_scope.

(** in every world reached by ANY history (every instantiate message, including repeated addresses
    in the initial balances, and every sequence of token operations), for both tokens, the balances
    sum to the reported total supply *)
Theorem C18_supply_invariant_reachable : forall ut ops, TokInv (run_ops ops (empty_world ut)).
Proof. exact TokInv_reachable. Qed.

(** finding F4 (fixed in /repo): repeated initial addresses are rejected *)
Theorem C18_F4_rejected : tok_instantiate false 1 0 [(14, 1); (14, 2)] = None.
Proof. exact F4_rejected. Qed.

Theorem C18_bsei_preserves : forall w t sender m t' out,
  bsei_execute w t sender m = Some (t', out) -> TInv t -> TInv t' /\ tk_hub t' = tk_hub t.
Proof. exact bsei_execute_tinv. Qed.

Theorem C18_stsei_preserves : forall w t sender m t' out,
  stsei_execute w t sender m = Some (t', out) -> TInv t -> TInv t' /\ tk_hub t' = tk_hub t.
Proof. exact stsei_execute_tinv. Qed.

Theorem C18_instantiate : forall base hubaddr mk rows t,
  tok_instantiate base hubaddr mk rows = Some t ->
  TInv t /\ tk_hub t = hubaddr /\ tk_minter t = Some (hubaddr, None) /\ has_dup (map fst rows) = false.
Proof. exact tok_instantiate_tinv. Qed.

(** transfers and sends (direct and allowance-based) conserve supply and move exactly [amt] *)
Theorem C18_move_conserves : forall t from to amt t',
  tok_move t from to amt = Some t' ->
  amt <= tbal t from /\ bal_sum t' = bal_sum t /\ tk_supply t' = tk_supply t /\
  tk_minter t' = tk_minter t /\ tk_allow t' = tk_allow t /\ tk_hub t' = tk_hub t /\
  (from <> to -> tbal t' from = tbal t from - amt /\ tbal t' to = tbal t to + amt) /\
  (from = to -> tbal t' from = tbal t from) /\
  (forall a, a <> from -> a <> to -> tbal t' a = tbal t a).
Proof. exact tok_move_spec. Qed.

(** only the minter (the hub, set at instantiate) mints; only the hub burns its own holdings *)
Theorem C18_mint_only_minter : forall t sender to amt t',
  tok_mint t sender to amt = Some t' -> exists cap, tk_minter t = Some (sender, cap).
Proof. exact tok_mint_auth. Qed.

Theorem C18_burn_only_hub : forall w t sender amt t' out,
  (bsei_execute w t sender (CBurn amt) = Some (t', out) -> sender = tk_hub t) /\
  (stsei_execute w t sender (CBurn amt) = Some (t', out) -> sender = tk_hub t).
Proof.
  intros. split; intros H; [exact (auth_bsei _ _ _ _ _ _ H) | exact (auth_stsei _ _ _ _ _ _ H)].
Qed.

(** allowance-based operations never use more than the unexpired allowance and lower it exactly *)
Theorem C18_allowance_bound : forall t now o s amt t',
  deduct_allowance t now o s amt = Some t' ->
  exists a, allowance_of t o s = Some a /\ is_expired (al_exp a) now (height_of now) = false /\
            amt <= al_amt a /\
            allowance_of t' o s = Some (mkAllow (al_amt a - amt) (al_exp a)) /\
            tk_bal t' = tk_bal t /\ tk_supply t' = tk_supply t /\ tk_minter t' = tk_minter t /\
            tk_hub t' = tk_hub t /\
            (forall k, k <> (o, s) -> get eqbNN (tk_allow t') k = get eqbNN (tk_allow t) k).
Proof. exact deduct_allowance_spec. Qed.

Print Assumptions C18_supply_invariant_reachable.
Print Assumptions C18_F4_rejected.
Print Assumptions C18_bsei_preserves.
Print Assumptions C18_stsei_preserves.
Print Assumptions C18_instantiate.
Print Assumptions C18_move_conserves.
Print Assumptions C18_mint_only_minter.
Print Assumptions C18_burn_only_hub.
Print Assumptions C18_allowance_bound.
