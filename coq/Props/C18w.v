(** C18 (transaction / history level) — the minter stays the hub, a burn makes the hub refresh its
    rates in the same transaction, allowances are never overspent cumulatively.
    Property theorems only (proofs: Proofs/TokenTx.v, Proofs/TokenTxNoUpd.v, Proofs/TokenTxAllow.v;
    handler level and the supply invariant: Props/C18.v).

    Named predicates / definitions used below (all short; definitions in Proofs/TokenTx.v for parts A, B
    and Proofs/TokenTxAllow.v for part C):

    PART A
    - [MinterHub a w]  : every instantiated token t of w (bSei and stSei) has
                         tk_hub t = a  and  tk_minter t = Some (a, None)   (minter = a, no cap).
    - [minter_env_op a o] : the envelope on one operation o of a history:
                         OInstBsei / OInstStsei name a as the hub address;
                         a root transaction carrying a cw20 UpdateMinter is not SIGNED by a
                         (contracts have no keys, so for a = A_hub this excludes nothing real; the chain
                         model lets any address sign);  every other operation is unrestricted.
    - [noupd m]        : m is not a wasm message carrying cw20 UpdateMinter.
    PART B
    - [TokHub w]       : every instantiated token of w has tk_hub = A_hub.
      [inst_hub_op o]  : OInstBsei / OInstStsei name A_hub; every other operation is unrestricted.
    - [is_burn cm]     : cm is Burn or BurnFrom.
    - [check_msg]      = MWasm A_hub (WHub HCheckSlashing) [].
    - [SyncLeg wa tok wb] : step_msg wa tok check_msg = Some (wb, [])  and there are h, h1 with
                         w_hub wa = Some h, paused h = false, slashing wa A_hub h = Some h1 and
                         wb = set_hub wa h1 — i.e. the CheckSlashing message sent by tok executed from wa
                         to wb and was exactly Hub.slashing (= query_actual_state: the pools and both
                         exchange rates recomputed from delegations and supplies; see Props/C06.v).
    PART C   (fixed owner o, spender s; [base] = false: bSei / cw20-legacy, true: stSei / cw20-base)
    - [tok_exec base w t sender m] = stsei_execute / bsei_execute w t sender m.
    - [stored t o s]   : stored allowance amount of (o, s) in t, 0 if no entry.
      [AllowWf t]      : the allowance table of t has unique keys.
    - [spend_of m]     : Some (owner, amount) for TransferFrom / BurnFrom / SendFrom, else None.
    - [spend_amt o s sender m], [grant_amt o s sender m], [lower_amt t o s sender m] : amount spent from
      o by s / granted by o to s / removed by a DecreaseAllowance of o for s (min (amount, stored))
      by the message m sent by sender (0 for any other message or principals).
    - [tok_run base evs t] : the token-level history evs (list of (world seen by the handler, sender,
      message)) folded with the handler, failed messages leaving the state unchanged;
      [ag_run base o s evs t ag0] : its ghost sums (ag_granted, ag_spent, ag_lowered), summed over the
      SUCCESSFUL messages.
    - [tok_addr base], [tok_at_w base w], [wstored base w o s] : address, state and stored allowance of
      the selected token in a world (0 if not instantiated).
    - [ag_hist base o s ops w ag0] : the same ghost sums along a chain history: every successfully
      executed message of every successful transaction that is addressed to the token counts; OReset and
      a (re-)instantiation of the token restart them (a fresh token has no allowances). *)
From Krp Require Import Tactics Prelude Fixed FMap Types Env Registry Cw20 Reward Dispatcher Hub Exec
     ExecP Cw20P TokenTxNoUpd TokenTx TokenTxAllow.
Open Scope N_scope.

(** * A — the minter stays the hub *)

(** no bSei message changes the minter; the only stSei message that does is UpdateMinter, which
    requires the current minter as sender *)
Theorem C18w_bsei_minter_fixed : forall w t sender m t' out,
  bsei_execute w t sender m = Some (t', out) -> tk_minter t' = tk_minter t.
Proof. exact bsei_execute_minter. Qed.

Theorem C18w_stsei_minter_fixed : forall w t sender m t' out,
  stsei_execute w t sender m = Some (t', out) -> (forall nm, m <> CUpdMinter nm) ->
  tk_minter t' = tk_minter t.
Proof. exact stsei_execute_minter. Qed.

Theorem C18w_update_minter_auth : forall w t sender nm t' out,
  stsei_execute w t sender (CUpdMinter nm) = Some (t', out) ->
  exists cap, tk_minter t = Some (sender, cap) /\ out = [] /\
    t' = set_tk_minter t (match nm with Some x => Some (x, cap) | None => None end).
Proof. exact stsei_updminter_auth. Qed.

(** no contract ever emits an UpdateMinter: whatever message executes, in whatever world *)
Theorem C18w_no_contract_emits_update_minter : forall w s m w' out,
  step_msg w s m = Some (w', out) -> Forall (fun sm => noupd (snd sm)) out.
Proof. exact step_msg_emits_noupd. Qed.

(** every world visited by every history inside the envelope *)
Theorem C18w_minter_stays_hub : forall a ut ops n,
  Forall (minter_env_op a) ops -> MinterHub a (run_ops (firstn n ops) (empty_world ut)).
Proof. exact minter_hub_reachable. Qed.

(** one transaction: any root except an UpdateMinter signed by [a] *)
Theorem C18w_minter_stays_hub_tx : forall a fuel w s tgt m f tr w' tr',
  MinterHub a w -> (s = a -> noupd (MWasm tgt m f)) ->
  run fuel w [(s, MWasm tgt m f)] tr = Some (w', tr') -> MinterHub a w'.
Proof. exact tx_minterhub. Qed.

(** both envelope clauses are needed (facts about the chain model, not defects of the contracts) *)
Theorem C18w_minter_change_witness_root :
  option_map tk_minter
    (w_stsei (run_ops (ExitWorld.genesis_ops ++ [OTx A_hub A_stsei (WCw20 (CUpdMinter (Some 14))) []])
                      (empty_world 100))) = Some (Some (14, None)).
Proof. exact minter_change_witness_root. Qed.

Theorem C18w_minter_change_witness_inst :
  option_map (fun t => (tk_hub t, tk_minter t, tk_supply t))
    (w_stsei (run_ops [OInstStsei A_owner 14 2 [];
                       OTx 14 A_stsei (WCw20 (CUpdMinter (Some 15))) [];
                       OTx 15 A_stsei (WCw20 (CMint 15 1000)) []] (empty_world 100)))
  = Some (14, Some (15, None), 1000).
Proof. exact minter_change_witness_inst. Qed.

(** consequence: every Mint executed anywhere in a successful transaction was sent by the hub *)
Theorem C18w_every_mint_from_hub_tx : forall a w s tgt m f w' tr x tok to amt fm,
  MinterHub a w -> (s = a -> noupd (MWasm tgt m f)) ->
  run tx_fuel w [(s, MWasm tgt m f)] [] = Some (w', tr) ->
  In (x, MWasm tok (WCw20 (CMint to amt)) fm) tr -> tok = A_bsei \/ tok = A_stsei ->
  x = a.
Proof. exact mint_sender_is_hub_tx. Qed.

Theorem C18w_every_mint_from_hub : forall a ut ops s tgt m f w' tr x tok to amt fm,
  Forall (minter_env_op a) (ops ++ [OTx s tgt m f]) ->
  run tx_fuel (run_ops ops (empty_world ut)) [(s, MWasm tgt m f)] [] = Some (w', tr) ->
  In (x, MWasm tok (WCw20 (CMint to amt)) fm) tr -> tok = A_bsei \/ tok = A_stsei ->
  x = a.
Proof. exact mint_sender_is_hub_history. Qed.

(** * B — a burn makes the hub synchronise in the same transaction *)

(** handler level *)
Theorem C18w_stsei_burn_emits_check : forall w t sender amt t' out,
  stsei_execute w t sender (CBurn amt) = Some (t', out) ->
  out = [MWasm (tk_hub t) (WHub HCheckSlashing) []].
Proof. exact stsei_burn_emits. Qed.

Theorem C18w_stsei_burnfrom_emits_check : forall w t sender o amt t' out,
  stsei_execute w t sender (CBurnFrom o amt) = Some (t', out) ->
  out = [MWasm (tk_hub t) (WHub HCheckSlashing) []].
Proof. exact stsei_burnfrom_emits. Qed.

Theorem C18w_bsei_burnfrom_emits_check : forall w t sender o amt t' out,
  bsei_execute w t sender (CBurnFrom o amt) = Some (t', out) ->
  exists rc, query_reward_contract w t = Some rc /\
    out = [MWasm rc (WReward (RDec o amt)) []; MWasm (tk_hub t) (WHub HCheckSlashing) []].
Proof. exact bsei_burnfrom_emits. Qed.

(** the negative fact: bSei plain Burn (hub only; used inside unbond / convert, where the hub has
    already synchronised) emits the reward mirror message and NO CheckSlashing *)
Theorem C18w_bsei_burn_emits_no_check : forall w t sender amt t' out,
  bsei_execute w t sender (CBurn amt) = Some (t', out) ->
  sender = tk_hub t /\
  exists rc, query_reward_contract w t = Some rc /\ out = [MWasm rc (WReward (RDec sender amt)) []].
Proof. exact bsei_burn_emits. Qed.

(** the tokens name the hub in every world of every history whose instantiations do *)
Theorem C18w_tokens_name_hub : forall ut ops,
  Forall inst_hub_op ops -> TokHub (run_ops ops (empty_world ut)).
Proof. exact TokHub_reachable. Qed.

(** transaction level: in every successful transaction, every executed stSei Burn / BurnFrom is
    directly followed (depth first) by the executed CheckSlashing leg sent by the token *)
Theorem C18w_stsei_burn_syncs_tx : forall w sender target m funds w' tr pre x cm fb post,
  TokHub w -> run tx_fuel w [(sender, MWasm target m funds)] [] = Some (w', tr) ->
  tr = pre ++ (x, MWasm A_stsei (WCw20 cm) fb) :: post -> is_burn cm = true ->
  exists w1 w2 w3 post',
    step_msg w1 x (MWasm A_stsei (WCw20 cm) fb) = Some (w2, [(A_stsei, check_msg)]) /\
    post = (A_stsei, check_msg) :: post' /\ SyncLeg w2 A_stsei w3.
Proof. exact tx_stsei_burn_syncs. Qed.

(** ... and every executed bSei BurnFrom by its reward DecreaseBalance leg (which emits nothing) and
    then the executed CheckSlashing leg *)
Theorem C18w_bsei_burnfrom_syncs_tx : forall w sender target m funds w' tr pre x o amt fb post,
  TokHub w -> run tx_fuel w [(sender, MWasm target m funds)] [] = Some (w', tr) ->
  tr = pre ++ (x, MWasm A_bsei (WCw20 (CBurnFrom o amt)) fb) :: post ->
  exists rc w1 w2 w2' w3 post',
    step_msg w1 x (MWasm A_bsei (WCw20 (CBurnFrom o amt)) fb) =
      Some (w2, [(A_bsei, MWasm rc (WReward (RDec o amt)) []); (A_bsei, check_msg)]) /\
    step_msg w2 A_bsei (MWasm rc (WReward (RDec o amt)) []) = Some (w2', []) /\
    post = (A_bsei, MWasm rc (WReward (RDec o amt)) []) :: (A_bsei, check_msg) :: post' /\
    SyncLeg w2' A_bsei w3.
Proof. exact tx_bsei_burnfrom_syncs. Qed.

(** the same for a transaction applied to any world reached by a history *)
Theorem C18w_stsei_burn_syncs : forall ut ops sender target m funds w' tr pre x cm fb post,
  Forall inst_hub_op ops ->
  run tx_fuel (run_ops ops (empty_world ut)) [(sender, MWasm target m funds)] [] = Some (w', tr) ->
  tr = pre ++ (x, MWasm A_stsei (WCw20 cm) fb) :: post -> is_burn cm = true ->
  exists w1 w2 w3 post',
    step_msg w1 x (MWasm A_stsei (WCw20 cm) fb) = Some (w2, [(A_stsei, check_msg)]) /\
    post = (A_stsei, check_msg) :: post' /\ SyncLeg w2 A_stsei w3.
Proof. exact hist_stsei_burn_syncs. Qed.

Theorem C18w_bsei_burnfrom_syncs : forall ut ops sender target m funds w' tr pre x o amt fb post,
  Forall inst_hub_op ops ->
  run tx_fuel (run_ops ops (empty_world ut)) [(sender, MWasm target m funds)] [] = Some (w', tr) ->
  tr = pre ++ (x, MWasm A_bsei (WCw20 (CBurnFrom o amt)) fb) :: post ->
  exists rc w1 w2 w2' w3 post',
    step_msg w1 x (MWasm A_bsei (WCw20 (CBurnFrom o amt)) fb) =
      Some (w2, [(A_bsei, MWasm rc (WReward (RDec o amt)) []); (A_bsei, check_msg)]) /\
    step_msg w2 A_bsei (MWasm rc (WReward (RDec o amt)) []) = Some (w2', []) /\
    post = (A_bsei, MWasm rc (WReward (RDec o amt)) []) :: (A_bsei, check_msg) :: post' /\
    SyncLeg w2' A_bsei w3.
Proof. exact hist_bsei_burnfrom_syncs. Qed.

(** [TokHub] is needed: a token that names the (stub) airdrop address as its hub burns successfully
    without any hub code running *)
Theorem C18w_tokhub_needed_witness :
  let w := run_ops [OInstStsei A_owner A_airdrop 2 [(ExitWorld.bob, 1000)];
                    OTx ExitWorld.bob A_stsei (WCw20 (CIncAllow ExitWorld.alice 500 None)) []]
                   (empty_world 100) in
  w_hub w = None /\
  trace_of (run tx_fuel w [(ExitWorld.alice, MWasm A_stsei (WCw20 (CBurnFrom ExitWorld.bob 300)) [])] []) =
  Some [(ExitWorld.alice, MWasm A_stsei (WCw20 (CBurnFrom ExitWorld.bob 300)) []);
        (A_stsei, MWasm A_airdrop (WHub HCheckSlashing) [])].
Proof. exact tokhub_needed_witness. Qed.

(** * C — cumulative allowance accounting *)

(** one successful message of either token, exactly, for every owner / spender pair *)
Theorem C18w_allowance_step : forall base w t sender m t' out,
  tok_exec base w t sender m = Some (t', out) -> AllowWf t ->
  (forall o s, stored t' o s + spend_amt o s sender m + lower_amt t o s sender m
               = stored t o s + grant_amt o s sender m) /\ AllowWf t'.
Proof. exact tok_exec_allow_step. Qed.

(** every successful allowance-based operation found an entry that was unexpired at the block of the
    message and at least as large as the amount (any token state, hence every step of every history) *)
Theorem C18w_spend_needs_unexpired : forall base w t sender m t' out o amt,
  tok_exec base w t sender m = Some (t', out) -> spend_of m = Some (o, amt) ->
  exists a, allowance_of t o sender = Some a /\
            is_expired (al_exp a) (e_now (w_env w)) (height_of (e_now (w_env w))) = false /\
            amt <= al_amt a /\ stored t' o sender = al_amt a - amt.
Proof. exact spend_needs_unexpired. Qed.

(** token-level histories: stored_final + spent + lowered = stored_initial + granted *)
Theorem C18w_allowance_cumulative : forall base o s evs t0,
  AllowWf t0 ->
  AllowWf (tok_run base evs t0) /\
  stored (tok_run base evs t0) o s + ag_spent (ag_run base o s evs t0 ag0)
    + ag_lowered (ag_run base o s evs t0 ag0)
  = stored t0 o s + ag_granted (ag_run base o s evs t0 ag0).
Proof. exact allowance_cumulative. Qed.

Theorem C18w_allowance_spent_le_granted : forall base o s evs t0,
  AllowWf t0 ->
  ag_spent (ag_run base o s evs t0 ag0) <= stored t0 o s + ag_granted (ag_run base o s evs t0 ag0).
Proof. exact allowance_spent_le_granted. Qed.

(** chain histories (the token messages inside arbitrary transactions), no hypotheses *)
Theorem C18w_allowance_cumulative_reachable : forall base o s ut ops,
  wstored base (run_ops ops (empty_world ut)) o s
    + ag_spent (ag_hist base o s ops (empty_world ut) ag0)
    + ag_lowered (ag_hist base o s ops (empty_world ut) ag0)
  = ag_granted (ag_hist base o s ops (empty_world ut) ag0).
Proof. exact allowance_cumulative_reachable. Qed.

Theorem C18w_allowance_spent_le_granted_reachable : forall base o s ut ops,
  ag_spent (ag_hist base o s ops (empty_world ut) ag0) <= ag_granted (ag_hist base o s ops (empty_world ut) ag0).
Proof. exact allowance_spent_le_granted_reachable. Qed.

(** every executed spend message, in the world in which it executed *)
Theorem C18w_spend_unexpired_in_world : forall base w x cm f w' out o amt,
  step_msg w x (MWasm (tok_addr base) (WCw20 cm) f) = Some (w', out) -> spend_of cm = Some (o, amt) ->
  exists t a, tok_at_w base w = Some t /\ allowance_of t o x = Some a /\
    is_expired (al_exp a) (e_now (w_env w)) (height_of (e_now (w_env w))) = false /\
    amt <= al_amt a /\ wstored base w' o x = al_amt a - amt.
Proof. exact step_spend_unexpired. Qed.

(** every message in the trace of a successful transaction executed successfully in some
    intermediate world (so the two step-level theorems above apply to every traced message) *)
Theorem C18w_trace_messages_executed : forall fuel w stack w' tr s m,
  run fuel w stack [] = Some (w', tr) -> In (s, m) tr ->
  exists wa wb out, step_msg wa s m = Some (wb, out).
Proof. exact run_trace_executed. Qed.

Print Assumptions C18w_bsei_minter_fixed.
Print Assumptions C18w_stsei_minter_fixed.
Print Assumptions C18w_update_minter_auth.
Print Assumptions C18w_no_contract_emits_update_minter.
Print Assumptions C18w_minter_stays_hub.
Print Assumptions C18w_minter_stays_hub_tx.
Print Assumptions C18w_minter_change_witness_root.
Print Assumptions C18w_minter_change_witness_inst.
Print Assumptions C18w_every_mint_from_hub_tx.
Print Assumptions C18w_every_mint_from_hub.
Print Assumptions C18w_stsei_burn_emits_check.
Print Assumptions C18w_stsei_burnfrom_emits_check.
Print Assumptions C18w_bsei_burnfrom_emits_check.
Print Assumptions C18w_bsei_burn_emits_no_check.
Print Assumptions C18w_tokens_name_hub.
Print Assumptions C18w_stsei_burn_syncs_tx.
Print Assumptions C18w_bsei_burnfrom_syncs_tx.
Print Assumptions C18w_stsei_burn_syncs.
Print Assumptions C18w_bsei_burnfrom_syncs.
Print Assumptions C18w_tokhub_needed_witness.
Print Assumptions C18w_allowance_step.
Print Assumptions C18w_spend_needs_unexpired.
Print Assumptions C18w_allowance_cumulative.
Print Assumptions C18w_allowance_spent_le_granted.
Print Assumptions C18w_allowance_cumulative_reachable.
Print Assumptions C18w_allowance_spent_le_granted_reachable.
Print Assumptions C18w_spend_unexpired_in_world.
Print Assumptions C18w_trace_messages_executed.
