(** C14 — bSei reward pool is solvent and complete.
    Property theorems only (proofs: Proofs/RewardP.v, Proofs/RewardWorld.v).

    Vocabulary (all amounts in 18-decimal atomics, D = 10^18):
      hacc gi h   = (gi - ho_idx h) * ho_bal h + ho_pend h       accrued reward of a holder record
      acc r a     = hacc (rw_gi r) (holder_of r a)               what [accrued_atomics] computes
      sum_acc r   = sum of hacc over the holder map;  sum_bal r = sum of balances
      RCore r     = sum_acc r <= rw_prev r * D  /\  rw_total r = sum_bal r  /\
                    every holder record has ho_idx <= rw_gi r  /\  holder keys are distinct
      RInv r bank = RCore r /\ rw_prev r <= bank        (bank = contract's balance of rw_denom)
      RBound r    = rw_total r <= 10^18 /\ rw_prev r <= 10^18                      (E1)
      dust r      = rw_prev r * D - sum_acc r
      claim_state / inc_state / dec_state / update_state : the handlers' result states
      payout_of r s m = acc r s / D for m = RClaim _, else 0
    Ghost accounting (not in the model): contract-level traces [creach] over
      (reward state, bank balance, {delivered, claimed, effective updates}); E1c = E1 per state.
    World level: RWInv w = RInv r (bal (w_env w) A_reward (rw_denom r)) for the reward state of w;
      REnv d0 w (E4) = reward coin is d0, d0 is not in the swap list, owner / pending owner are not
      protocol contracts;  NoRewardRoot ops = no transaction is signed by the reward contract. *)
From Krp Require Import Tactics Prelude Fixed FMap Types Env Registry Cw20 Reward Dispatcher Hub Exec
     ExecP Hist Inv RewardP RewardWorld.
Open Scope N_scope.

(** *** the arithmetic pipeline computes exactly [acc] and fails exactly on its guards *)
Theorem C14_accrued_atomics_exact : forall r a x,
  accrued_atomics r a = Some x <->
  (ho_idx (holder_of r a) <= rw_gi r /\ ho_bal (holder_of r a) * D <= U128MAX /\
   hacc (rw_gi r) (holder_of r a) <= U128MAX) /\ x = acc r a.
Proof. exact accrued_atomics_iff. Qed.

(** *** invariant: established by instantiate, preserved by every successful message (a claim
    lowers the bank by its payout, an index update reads the current bank), and by any increase
    of the bank balance (reward delivery, gifts) *)
Theorem C14_invariant_init : forall s hubaddr d swap denoms bank,
  RInv (reward_instantiate s hubaddr d swap denoms) bank.
Proof. exact rinv_instantiate. Qed.

Theorem C14_invariant_preserved : forall w r self s m r' out bank,
  RInv r bank -> (m = RUpdateIndex -> bank = bal (w_env w) self (rw_denom r)) ->
  reward_execute w r self s m = Some (r', out) ->
  payout_of r s m <= bank /\ RInv r' (bank - payout_of r s m).
Proof. exact reward_execute_rinv. Qed.

Theorem C14_invariant_bank_increase : forall r bank x, RInv r bank -> RInv r (bank + x).
Proof. exact rinv_bank_increase. Qed.

(** the sums of the invariant are sums over any set of distinct holders: accrued atomics, and
    whole claimable units against the recorded balance *)
Theorem C14_holders_sum : forall r l, NoDup l -> sumN (map (acc r) l) <= sum_acc r.
Proof. exact holders_sum_le. Qed.

Theorem C14_claimable_le_recorded : forall r l,
  RCore r -> NoDup l -> sumN (map (fun a => acc r a / D) l) <= rw_prev r.
Proof. exact claimable_sum_le. Qed.

(** *** ClaimRewards: succeeds iff at least one whole unit accrued; pays exactly the whole part
    in one bank message; keeps the fraction; index := global; prev lowered by the payout;
    never lacks funds (payout <= prev <= bank) *)
Theorem C14_claim_succeeds_exact : forall w r self s rcp bank,
  RInv r bank -> RBound r -> D <= acc r s ->
  reward_execute w r self s (RClaim rcp)
    = Some (claim_state r s, [MBank (claim_to rcp s) [(rw_denom r, acc r s / D)]]) /\
  1 <= acc r s / D /\ acc r s / D <= rw_prev r /\ rw_prev r <= bank /\
  holder_of (claim_state r s) s = mkHolder (ho_bal (holder_of r s)) (rw_gi r) (acc r s mod D) /\
  acc (claim_state r s) s = acc r s mod D /\
  rw_prev (claim_state r s) = rw_prev r - acc r s / D /\
  rw_gi (claim_state r s) = rw_gi r /\ rw_total (claim_state r s) = rw_total r /\
  (forall b, b <> s -> holder_of (claim_state r s) b = holder_of r b).
Proof. exact claim_succeeds_exact. Qed.

Theorem C14_claim_fails_below_unit : forall w r self s rcp,
  acc r s < D -> reward_execute w r self s (RClaim rcp) = None.
Proof. exact claim_fails_below_unit. Qed.

Theorem C14_claim_succeeds_iff : forall w r self s rcp bank,
  RInv r bank -> RBound r ->
  ((exists r' out, reward_execute w r self s (RClaim rcp) = Some (r', out)) <-> D <= acc r s).
Proof. exact claim_succeeds_iff. Qed.

(** *** under E1 the other handlers hit no 128/256-bit guard *)
Theorem C14_increase_succeeds : forall w r self s a amt,
  RCore r -> RBound r -> amt <= LIM -> query_bsei_addr w (rw_hub r) = Some s ->
  reward_execute w r self s (RInc a amt) = Some (inc_state r a amt, []).
Proof. exact inc_succeeds. Qed.

Theorem C14_decrease_succeeds : forall w r self s a amt,
  RCore r -> RBound r -> amt <= ho_bal (holder_of r a) -> query_bsei_addr w (rw_hub r) = Some s ->
  reward_execute w r self s (RDec a amt) = Some (dec_state r a amt, []).
Proof. exact dec_succeeds. Qed.

Theorem C14_update_succeeds : forall w r self s G,
  RCore r -> query_dispatcher_addr w (rw_hub r) = Some s ->
  rw_prev r <= bal (w_env w) self (rw_denom r) ->
  rw_gi r <= G * D -> G + (bal (w_env w) self (rw_denom r) - rw_prev r) <= LIM ->
  reward_execute w r self s RUpdateIndex
    = Some (if rw_total r =? 0 then r else update_state r (bal (w_env w) self (rw_denom r)), []).
Proof. exact update_succeeds. Qed.

(** *** stranded dust, per handler: an index update strands exactly the division remainder
    (< total supply atomics, i.e. < 1 base unit under E1, whatever the number of holders);
    claims, increases and decreases strand nothing *)
Theorem C14_update_dust_exact : forall r bank,
  RCore r -> rw_total r <> 0 -> rw_prev r <= bank ->
  dust (update_state r bank) = dust r + ((bank - rw_prev r) * D) mod rw_total r /\
  ((bank - rw_prev r) * D) mod rw_total r < rw_total r.
Proof. exact update_dust_exact. Qed.

Theorem C14_claim_dust_exact : forall r a, RCore r -> dust (claim_state r a) = dust r.
Proof. exact claim_dust_exact. Qed.

Theorem C14_settle_dust_exact : forall r a amt,
  dust (inc_state r a amt) = dust r /\ dust (dec_state r a amt) = dust r.
Proof. exact settle_dust_exact. Qed.

(** *** ghost accounting along contract-level traces (any interleaving of deliveries and
    successful messages, E1 per visited state) *)
Theorem C14_claimed_le_delivered : forall c0 r bank g,
  GInv c0 -> creach c0 (r, bank, g) ->
  g_claimed g <= g_delivered g /\
  g_claimed g * D + sum_acc r <= g_delivered g * D /\
  rw_prev r + g_claimed g <= g_delivered g.
Proof. exact claimed_le_delivered. Qed.

Theorem C14_stranded_dust : forall c0 r bank g,
  GInv c0 -> creach c0 (r, bank, g) ->
  sum_acc r <= rw_prev r * D /\
  rw_prev r * D - sum_acc r <= g_updates g * (D - 1) /\
  g_delivered g * D <= g_claimed g * D + sum_acc r + (bank - rw_prev r) * D + g_updates g * (D - 1).
Proof. exact stranded_dust. Qed.

Theorem C14_trace_start : forall s hubaddr d swap denoms b0, GInv (cinit s hubaddr d swap denoms b0).
Proof. exact ginv_init. Qed.

Theorem C14_trace_invariant : forall c0 c, GInv c0 -> creach c0 c -> GInv c.
Proof. exact creach_ginv. Qed.

Theorem C14_trace_update_succeeds : forall c0 r bank g w self s,
  GInv c0 -> creach c0 (r, bank, g) -> E1c (r, bank, g) ->
  bal (w_env w) self (rw_denom r) = bank -> query_dispatcher_addr w (rw_hub r) = Some s ->
  reward_execute w r self s RUpdateIndex
    = Some (if rw_total r =? 0 then r else update_state r bank, []).
Proof. exact creach_update_succeeds. Qed.

Theorem C14_trace_claim_succeeds : forall c0 r bank g w self s rcp,
  GInv c0 -> creach c0 (r, bank, g) -> E1c (r, bank, g) -> D <= acc r s ->
  reward_execute w r self s (RClaim rcp)
    = Some (claim_state r s, [MBank (claim_to rcp s) [(rw_denom r, acc r s / D)]]) /\
  acc r s / D <= bank.
Proof. exact creach_claim_succeeds. Qed.

Theorem C14_trace_settle_succeeds : forall c0 r bank g w self s a amt,
  GInv c0 -> creach c0 (r, bank, g) -> E1c (r, bank, g) ->
  query_bsei_addr w (rw_hub r) = Some s ->
  (amt <= LIM -> reward_execute w r self s (RInc a amt) = Some (inc_state r a amt, [])) /\
  (amt <= ho_bal (holder_of r a) -> reward_execute w r self s (RDec a amt) = Some (dec_state r a amt, [])).
Proof. exact creach_settle_succeeds. Qed.

(** *** full executor: only the sender of a message is ever debited *)
Theorem C14_only_sender_debited : forall w s m w' out a d,
  step_msg w s m = Some (w', out) ->
  bal (w_env w) a d <= bal (w_env w') a d + (if s =? a then outflow d m else 0).
Proof. exact step_msg_bal_lower. Qed.

(** *** every history inside the E4 reward-configuration envelope keeps the pool solvent against
    the real bank balance, in every reached world *)
Theorem C14_step : forall d0 w o,
  match o with OTx s _ _ _ => s <> A_reward | _ => True end ->
  REnv d0 w -> REnv d0 (fst (step w o)) -> RWInv w -> RWInv (fst (step w o)).
Proof. exact step_rwinv. Qed.

Theorem C14_reachable : forall d0 ops w0,
  NoRewardRoot ops -> always (REnv d0) ops w0 -> RWInv w0 -> RWInv (run_ops ops w0).
Proof. exact rwinv_reachable. Qed.

Theorem C14_reachable_from_empty : forall d0 ut ops,
  NoRewardRoot ops -> always (REnv d0) ops (empty_world ut) -> RWInv (run_ops ops (empty_world ut)).
Proof. exact rwinv_from_empty. Qed.

(** a ClaimRewards transaction of a holder with a whole unit accrued succeeds end to end: the
    handler and the bank transfer it emits; exactly [acc / D] coins move *)
Theorem C14_claim_tx_succeeds : forall w r s rcp,
  w_reward w = Some r -> RWInv w -> RBound r -> D <= acc r s ->
  exists w',
    step w (OTx s A_reward (WReward (RClaim rcp)) [])
      = (w', (true, [(s, MWasm A_reward (WReward (RClaim rcp)) []);
                     (A_reward, MBank (claim_to rcp s) [(rw_denom r, acc r s / D)])])) /\
    w_reward w' = Some (claim_state r s) /\
    bal (w_env w) A_reward (rw_denom r) - acc r s / D <= bal (w_env w') A_reward (rw_denom r) /\
    (claim_to rcp s <> A_reward ->
     bal (w_env w') A_reward (rw_denom r) = bal (w_env w) A_reward (rw_denom r) - acc r s / D /\
     bal (w_env w') (claim_to rcp s) (rw_denom r)
       = bal (w_env w) (claim_to rcp s) (rw_denom r) + acc r s / D).
Proof. exact claim_tx_succeeds. Qed.

Print Assumptions C14_accrued_atomics_exact.
Print Assumptions C14_invariant_init.
Print Assumptions C14_invariant_preserved.
Print Assumptions C14_invariant_bank_increase.
Print Assumptions C14_holders_sum.
Print Assumptions C14_claimable_le_recorded.
Print Assumptions C14_claim_succeeds_exact.
Print Assumptions C14_claim_fails_below_unit.
Print Assumptions C14_claim_succeeds_iff.
Print Assumptions C14_increase_succeeds.
Print Assumptions C14_decrease_succeeds.
Print Assumptions C14_update_succeeds.
Print Assumptions C14_update_dust_exact.
Print Assumptions C14_claim_dust_exact.
Print Assumptions C14_settle_dust_exact.
Print Assumptions C14_claimed_le_delivered.
Print Assumptions C14_stranded_dust.
Print Assumptions C14_trace_start.
Print Assumptions C14_trace_invariant.
Print Assumptions C14_trace_update_succeeds.
Print Assumptions C14_trace_claim_succeeds.
Print Assumptions C14_trace_settle_succeeds.
Print Assumptions C14_only_sender_debited.
Print Assumptions C14_step.
Print Assumptions C14_reachable.
Print Assumptions C14_reachable_from_empty.
Print Assumptions C14_claim_tx_succeeds.
