(** C09 (world level) — the WHOLE unbond transaction of a holder succeeds at chain level.
    Property theorems only (proofs: Proofs/ExitTx.v; handler level: Props/C09.v, Proofs/ExitP.v).

    Message trees (depth first; every leg is proved to succeed):
      stSei:  token.Send -> hub.Receive{Unbond} -> MUndelegate* (only when the epoch period is over)
                                                -> token.Burn -> hub.CheckSlashing
      bSei:   token.Send -> reward.DecreaseBalance(user), reward.IncreaseBalance(hub),
                            hub.Receive{Unbond} -> MUndelegate* (only when the epoch period is over)
                                                -> token.Burn -> reward.DecreaseBalance(hub)

    Named predicates / definitions used below (definitions in Proofs/ExitTx.v unless stated, all short):
    - [unbond_root user tok a] = (user, MWasm tok (WCw20 (CSend A_hub a HkUnbond)) []) : the root message.
    - [Wired] (E4), [Mirror] (C16), [Books] (C02) : Proofs/Inv.v.  [TInv] : balances sum to supply (C18).
      [HPInv] : peg fee and threshold at most 1 (Proofs/HubAdmin.v).
    - [E1_exit w h tb ts], [E2_clock w h], [BooksSynced w h], [BackedSynced w h tb ts] : the premises of
      [C09_unbond_succeeds] (Proofs/ExitP.v): magnitudes at most 10^18, clock, booked <= delegated and
      "claims > 0 -> backing > 0" (= not in the known class F5) after the pool synchronisation.
    - [E1_holder r a] : E1 for the reward-holder record of [a]: holder index <= global index and
      (global index - holder index) * balance + pending <= 2^128 - 1  (with the balance bound, which follows
      from [Mirror] and the supply bound, this is what [C16_accrual_fits_bound] needs).
    - [DelWf e] (Proofs/BooksEnv.v) : the delegation table has unique keys and every entry is on a chain
      validator; holds in every reachable world ([EntWf_reachable], Proofs/BooksP.v).
    - [epoch_over w h] : hp_epoch < now - last undelegation time (boolean).
    - [unbond_fee hs sup a] : the peg fee of a bSei unbond of [a] in the synchronised hub [hs] with bSei
      supply [sup]: if bsei rate < threshold then min (a * peg_fee / 1e18) (sup + requested - bonded) else 0.
    - [unb_entry t m] : the unbonding-queue entry (A_hub, validator, amount, t) of an Undelegate message [m].
    - [Undelegated e e' U] : delegated e' A_hub + U = delegated e A_hub, and there is a list [und] of messages
      MUndelegate v (usei, x), x > 0, with total U, such that
      e_unb e' = e_unb e ++ map (unb_entry (now + chain unbonding time)) und.
    - [UndelegationFrame e e'] : DelWf e'; clock, unbonding time, withdraw addresses, redelegation flags
      and every other delegator's delegations unchanged; bank balances unchanged except that the hub's
      withdraw address may be credited (reward payouts); no balance decreases.
    - [world0], [world1], [hub0], [hub1], [tb0], [tb1], [ts0], [ts1], [reward_of] : the concrete example
      world of Proofs/ExitWorld.v (epoch not over) and the same 31 s later (epoch over), and their
      contract states. *)
From Krp Require Import Tactics Prelude Fixed FMap Types Env Registry Cw20 Reward Dispatcher Hub Exec
     ExecP Inv HubAdmin Cw20P BooksEnv BooksHub IndexRun MirrorP ExitWorld ExitP ExitTx.
Open Scope N_scope.

(** *** the staking module executes whatever [pick_validator] plans *)
Theorem C09w_undelegations_execute : forall W w h claim msgs,
  pick_validator w A_hub h claim = Some msgs -> hp_underlying (h_params h) = usei ->
  w_env W = w_env w -> DelWf (w_env w) ->
  exists e',
    Exec W (tag A_hub msgs) (set_env W e') (length msgs) /\ (length msgs <= length VALS)%nat /\
    DelWf e' /\
    delegated e' A_hub + claim = delegated (w_env w) A_hub /\ usum msgs = claim /\
    e_unb e' = e_unb (w_env w) ++ map (unb_entry (e_now (w_env w) + e_ut (w_env w))) msgs /\
    e_now e' = e_now (w_env w) /\ e_ut e' = e_ut (w_env w) /\
    e_wdaddr e' = e_wdaddr (w_env w) /\ e_noredel e' = e_noredel (w_env w) /\
    (forall y, y <> A_hub -> all_delegations e' y = all_delegations (w_env w) y) /\
    (forall a d, a <> withdraw_addr (w_env w) A_hub -> bal e' a d = bal (w_env w) a d) /\
    (forall a d, bal (w_env w) a d <= bal e' a d).
Proof. exact xt_pick_validator_exec. Qed.

(** *** stSei: the whole transaction *)
Theorem C09w_unbond_stsei_tx : forall w h tb ts user a,
  Wired w -> w_hub w = Some h -> w_bsei w = Some tb -> w_stsei w = Some ts -> TInv ts ->
  paused h = false -> HPInv h -> E1_exit w h tb ts -> E2_clock w h ->
  BooksSynced w h -> BackedSynced w h tb ts -> DelWf (w_env w) ->
  0 < a <= tbal ts user -> user <> A_hub ->
  let id := cb_id (h_batch h) in
  exists w' tr h' ts' hs,
    run tx_fuel w [unbond_root user A_stsei a] [] = Some (w', tr) /\
    w_hub w' = Some h' /\ w_stsei w' = Some ts' /\ w_bsei w' = Some tb /\
    w_reward w' = w_reward w /\ w_disp w' = w_disp w /\ w_reg w' = w_reg w /\ Wired w' /\
    (* the token: the user's balance and the supply fell by a; nobody else's balance changed *)
    tbal ts' user = tbal ts user - a /\ tk_supply ts' = tk_supply ts - a /\
    (forall x, x <> user -> tbal ts' x = tbal ts x) /\ TInv ts' /\
    (* the hub: the request is recorded in the batch that was open before the call *)
    wait_of h' user id = (fst (wait_of h user id), snd (wait_of h user id) + a) /\
    (forall u b, (u, b) <> (user, id) -> wait_of h' u b = wait_of h u b) /\
    h_cfg h' = h_cfg h /\ h_params h' = h_params h /\
    slashing w A_hub h = Some hs /\
    (* epoch period not over: the request joins the open batch, the environment is untouched *)
    (epoch_over w h = false ->
       h_batch h' = mkBatch id (cb_reqb (h_batch h)) (cb_reqst (h_batch h) + a) /\
       h_hist h' = h_hist h /\ hs_lut (h_state h') = hs_lut (h_state h) /\
       w_env w' = w_env w /\ booked h' <= booked hs) /\
    (* epoch period over: the batch is closed with every request in it and undelegated *)
    (epoch_over w h = true ->
       exists e U,
         get N.eqb (h_hist h') id = Some e /\ he_time e = e_now (w_env w) /\ he_released e = false /\
         he_bamt e = cb_reqb (h_batch h) /\ he_samt e = cb_reqst (h_batch h) + a /\
         he_bapplied e = hs_ber (h_state hs) /\ he_sapplied e = hs_ser (h_state hs) /\
         U = he_bamt e * he_bapplied e / D + he_samt e * he_sapplied e / D /\
         (forall k, k <> id -> get N.eqb (h_hist h') k = get N.eqb (h_hist h) k) /\
         h_batch h' = mkBatch (id + 1) 0 0 /\ hs_lut (h_state h') = e_now (w_env w) /\
         Undelegated (w_env w) (w_env w') U /\ booked h' + U <= booked hs) /\
    UndelegationFrame (w_env w) (w_env w') /\
    booked h' <= delegated (w_env w') A_hub.
Proof. exact unbond_tx_stsei. Qed.

(** the operation of a history has outcome flag [true] *)
Theorem C09w_unbond_stsei_step : forall w h tb ts user a,
  Wired w -> w_hub w = Some h -> w_bsei w = Some tb -> w_stsei w = Some ts -> TInv ts ->
  paused h = false -> HPInv h -> E1_exit w h tb ts -> E2_clock w h ->
  BooksSynced w h -> BackedSynced w h tb ts -> DelWf (w_env w) ->
  0 < a <= tbal ts user -> user <> A_hub ->
  fst (snd (step w (OTx user A_stsei (WCw20 (CSend A_hub a HkUnbond)) []))) = true.
Proof. exact unbond_tx_stsei_step. Qed.

(** *** bSei: the whole transaction *)
Theorem C09w_unbond_bsei_tx : forall w h tb ts r user a,
  Wired w -> Mirror w -> w_hub w = Some h -> w_bsei w = Some tb -> w_stsei w = Some ts ->
  w_reward w = Some r -> TInv tb ->
  paused h = false -> HPInv h -> E1_exit w h tb ts -> E1_holder r user -> E1_holder r A_hub -> E2_clock w h ->
  BooksSynced w h -> BackedSynced w h tb ts -> DelWf (w_env w) ->
  0 < a <= tbal tb user -> user <> A_hub ->
  let id := cb_id (h_batch h) in
  exists w' tr h' tb' r' hs fee,
    run tx_fuel w [unbond_root user A_bsei a] [] = Some (w', tr) /\
    w_hub w' = Some h' /\ w_bsei w' = Some tb' /\ w_reward w' = Some r' /\ w_stsei w' = Some ts /\
    w_disp w' = w_disp w /\ w_reg w' = w_reg w /\ Wired w' /\
    (* the token: the user's balance and the supply fell by a; nobody else's balance changed *)
    tbal tb' user = tbal tb user - a /\ tk_supply tb' = tk_supply tb - a /\
    (forall x, x <> user -> tbal tb' x = tbal tb x) /\ TInv tb' /\
    (* the reward contract followed: same changes, the accrued rewards of user and hub were settled first *)
    Mirror w' /\ rw_gi r' = rw_gi r /\ rw_prev r' = rw_prev r /\
    accrued_atomics r user = Some (ho_pend (holder_of r' user)) /\
    (forall x, x <> user -> x <> A_hub -> holder_of r' x = holder_of r x) /\
    accrued_atomics r A_hub = Some (ho_pend (holder_of r' A_hub)) /\
    ho_idx (holder_of r' user) = rw_gi r /\ ho_idx (holder_of r' A_hub) = rw_gi r /\
    (* the hub: the request, less the peg fee, is recorded in the batch that was open before the call *)
    slashing w A_hub h = Some hs /\ fee = unbond_fee hs (tk_supply tb) a /\ fee <= a /\
    wait_of h' user id = (fst (wait_of h user id) + (a - fee), snd (wait_of h user id)) /\
    (forall u b, (u, b) <> (user, id) -> wait_of h' u b = wait_of h u b) /\
    h_cfg h' = h_cfg h /\ h_params h' = h_params h /\
    (* epoch period not over *)
    (epoch_over w h = false ->
       h_batch h' = mkBatch id (cb_reqb (h_batch h) + (a - fee)) (cb_reqst (h_batch h)) /\
       h_hist h' = h_hist h /\ hs_lut (h_state h') = hs_lut (h_state h) /\
       w_env w' = w_env w /\ booked h' = booked hs) /\
    (* epoch period over: the batch is closed with every request in it and undelegated *)
    (epoch_over w h = true ->
       exists e U,
         get N.eqb (h_hist h') id = Some e /\ he_time e = e_now (w_env w) /\ he_released e = false /\
         he_bamt e = cb_reqb (h_batch h) + (a - fee) /\ he_samt e = cb_reqst (h_batch h) /\
         exchange_rate (hs_bb (h_state hs)) (tk_supply tb - a) (he_bamt e) = Some (he_bapplied e) /\
         he_sapplied e = hs_ser (h_state hs) /\
         U = he_bamt e * he_bapplied e / D + he_samt e * he_sapplied e / D /\
         (forall k, k <> id -> get N.eqb (h_hist h') k = get N.eqb (h_hist h) k) /\
         h_batch h' = mkBatch (id + 1) 0 0 /\ hs_lut (h_state h') = e_now (w_env w) /\
         Undelegated (w_env w) (w_env w') U /\ booked h' + U = booked hs) /\
    UndelegationFrame (w_env w) (w_env w') /\
    booked h' <= delegated (w_env w') A_hub.
Proof. exact unbond_tx_bsei. Qed.

Theorem C09w_unbond_bsei_step : forall w h tb ts r user a,
  Wired w -> Mirror w -> w_hub w = Some h -> w_bsei w = Some tb -> w_stsei w = Some ts ->
  w_reward w = Some r -> TInv tb ->
  paused h = false -> HPInv h -> E1_exit w h tb ts -> E1_holder r user -> E1_holder r A_hub -> E2_clock w h ->
  BooksSynced w h -> BackedSynced w h tb ts -> DelWf (w_env w) ->
  0 < a <= tbal tb user -> user <> A_hub ->
  fst (snd (step w (OTx user A_bsei (WCw20 (CSend A_hub a HkUnbond)) []))) = true.
Proof. exact unbond_tx_bsei_step. Qed.

(** the E1 bound on a reward-holder record gives the arithmetic guard of C16 *)
Theorem C09w_E1_holder_fits : forall r a,
  E1_holder r a -> ho_bal (holder_of r a) <= LIM -> AccrualFits r a.
Proof. exact xt_E1_holder_fits. Qed.

(** *** after the transaction: premises of the NEXT exit.
    Re-established by the transaction itself: wiring, ledger invariant(s), mirror, not paused, parameter
    range, clock, well-formed delegation table, [Books] (hence [BooksSynced]), the E1 bounds of the two
    reward-holder records touched; the E1 magnitudes of delegated stake, booked stake and both claims only
    decrease.  NOT re-established (remain envelope assumptions on the next state): [BackedSynced]
    (exclusion of finding F5), the bound on the batch id (it grows by at most 1), the bound on the user's
    wait-list entry (it grows by the request). *)
Theorem C09w_unbond_stsei_next : forall w h tb ts user a,
  Wired w -> w_hub w = Some h -> w_bsei w = Some tb -> w_stsei w = Some ts -> TInv ts ->
  paused h = false -> HPInv h -> E1_exit w h tb ts -> E2_clock w h ->
  BooksSynced w h -> BackedSynced w h tb ts -> DelWf (w_env w) ->
  0 < a <= tbal ts user -> user <> A_hub ->
  exists w' tr h' ts',
    run tx_fuel w [unbond_root user A_stsei a] [] = Some (w', tr) /\
    w_hub w' = Some h' /\ w_bsei w' = Some tb /\ w_stsei w' = Some ts' /\
    Wired w' /\ TInv ts' /\ paused h' = false /\ HPInv h' /\ E2_clock w' h' /\ DelWf (w_env w') /\
    Books w' /\ BooksSynced w' h' /\
    delegated (w_env w') A_hub <= delegated (w_env w) A_hub /\ booked h' <= booked h /\
    claims_b h' tb <= claims_b h tb /\ claims_st h' ts' <= claims_st h ts /\
    cb_id (h_batch h') <= cb_id (h_batch h) + 1.
Proof. exact unbond_tx_stsei_next. Qed.

Theorem C09w_unbond_bsei_next : forall w h tb ts r user a,
  Wired w -> Mirror w -> w_hub w = Some h -> w_bsei w = Some tb -> w_stsei w = Some ts ->
  w_reward w = Some r -> TInv tb ->
  paused h = false -> HPInv h -> E1_exit w h tb ts -> E1_holder r user -> E1_holder r A_hub -> E2_clock w h ->
  BooksSynced w h -> BackedSynced w h tb ts -> DelWf (w_env w) ->
  0 < a <= tbal tb user -> user <> A_hub ->
  exists w' tr h' tb' r',
    run tx_fuel w [unbond_root user A_bsei a] [] = Some (w', tr) /\
    w_hub w' = Some h' /\ w_bsei w' = Some tb' /\ w_stsei w' = Some ts /\ w_reward w' = Some r' /\
    Wired w' /\ Mirror w' /\ TInv tb' /\ paused h' = false /\ HPInv h' /\ E2_clock w' h' /\ DelWf (w_env w') /\
    Books w' /\ BooksSynced w' h' /\ E1_holder r' user /\ E1_holder r' A_hub /\
    delegated (w_env w') A_hub <= delegated (w_env w) A_hub /\ booked h' <= booked h /\
    claims_b h' tb' <= claims_b h tb /\ claims_st h' ts <= claims_st h ts /\
    cb_id (h_batch h') <= cb_id (h_batch h) + 1.
Proof. exact unbond_tx_bsei_next. Qed.

(** *** non-vacuity: every premise holds in the concrete worlds, and the theorems apply to full and
    partial balances of both tokens, with (world1) and without (world0) closing the batch *)
Theorem C09w_premises_world1 :
  Wired world1 /\ Mirror world1 /\ w_hub world1 = Some hub1 /\ w_bsei world1 = Some tb1 /\
  w_stsei world1 = Some ts1 /\ w_reward world1 = Some (reward_of world1) /\ TInv tb1 /\ TInv ts1 /\
  paused hub1 = false /\ HPInv hub1 /\ E1_exit world1 hub1 tb1 ts1 /\
  E1_holder (reward_of world1) alice /\ E1_holder (reward_of world1) A_hub /\ E2_clock world1 hub1 /\
  BooksSynced world1 hub1 /\ BackedSynced world1 hub1 tb1 ts1 /\ DelWf (w_env world1) /\
  epoch_over world1 hub1 = true /\
  tbal tb1 alice = 1000000 /\ tbal ts1 bob = 2000000 /\ alice <> A_hub /\ bob <> A_hub.
Proof. exact xt_premises_world1. Qed.

Theorem C09w_premises_world0 :
  Wired world0 /\ Mirror world0 /\ w_hub world0 = Some hub0 /\ w_bsei world0 = Some tb0 /\
  w_stsei world0 = Some ts0 /\ w_reward world0 = Some (reward_of world0) /\ TInv tb0 /\ TInv ts0 /\
  paused hub0 = false /\ HPInv hub0 /\ E1_exit world0 hub0 tb0 ts0 /\
  E1_holder (reward_of world0) alice /\ E1_holder (reward_of world0) A_hub /\ E2_clock world0 hub0 /\
  BooksSynced world0 hub0 /\ BackedSynced world0 hub0 tb0 ts0 /\ DelWf (w_env world0) /\
  epoch_over world0 hub0 = false /\
  tbal tb0 alice = 1000000 /\ tbal ts0 bob = 2000000.
Proof. exact xt_premises_world0. Qed.

Theorem C09w_examples_by_theorem :
  (forall a, 0 < a <= 2000000 -> exists w' tr h' ts',
     run tx_fuel world1 [unbond_root bob A_stsei a] [] = Some (w', tr) /\
     w_hub w' = Some h' /\ w_stsei w' = Some ts' /\
     tbal ts' bob = 2000000 - a /\ tk_supply ts' = tk_supply ts1 - a /\
     h_batch h' = mkBatch (cb_id (h_batch hub1) + 1) 0 0) /\
  (forall a, 0 < a <= 1000000 -> exists w' tr h' tb',
     run tx_fuel world1 [unbond_root alice A_bsei a] [] = Some (w', tr) /\
     w_hub w' = Some h' /\ w_bsei w' = Some tb' /\ Mirror w' /\
     tbal tb' alice = 1000000 - a /\ tk_supply tb' = tk_supply tb1 - a /\
     h_batch h' = mkBatch (cb_id (h_batch hub1) + 1) 0 0) /\
  (forall a, 0 < a <= 2000000 -> exists w' tr h',
     run tx_fuel world0 [unbond_root bob A_stsei a] [] = Some (w', tr) /\ w_hub w' = Some h' /\
     w_env w' = w_env world0 /\ cb_reqst (h_batch h') = cb_reqst (h_batch hub0) + a) /\
  (forall a, 0 < a <= 1000000 -> exists w' tr h',
     run tx_fuel world0 [unbond_root alice A_bsei a] [] = Some (w', tr) /\ w_hub w' = Some h' /\
     w_env w' = w_env world0 /\ cb_id (h_batch h') = cb_id (h_batch hub0)).
Proof. exact unbond_tx_examples_by_theorem. Qed.

Print Assumptions C09w_undelegations_execute.
Print Assumptions C09w_unbond_stsei_tx.
Print Assumptions C09w_unbond_stsei_step.
Print Assumptions C09w_unbond_bsei_tx.
Print Assumptions C09w_unbond_bsei_step.
Print Assumptions C09w_E1_holder_fits.
Print Assumptions C09w_unbond_stsei_next.
Print Assumptions C09w_unbond_bsei_next.
Print Assumptions C09w_premises_world1.
Print Assumptions C09w_premises_world0.
Print Assumptions C09w_examples_by_theorem.
