(** C03 / C04 at TRANSACTION (world) level — Bond, BondForStSei and the two Convert transactions.
    Property theorems only; proofs in Proofs/RateTx.v, Proofs/RateTxConvert.v (helpers
    Proofs/RateTxLegs.v), non-vacuity in Proofs/RateTxExamples.v.

    Props/C03.v and Props/C04.v speak about the hub HANDLERS and take the effect of the emitted cw20
    Mint / Burn on the token supply as an explicit arithmetic link.  Here the link is closed: the
    theorems are about [run tx_fuel w [(user, root message)] [] = Some (w', tr)] — the whole message
    tree executed depth first: funds transfer, hub handler, MDelegate legs, token Mint / Burn, the
    reward contract's Increase/DecreaseBalance, the stSei token's CheckSlashing callback — and about
    what [hub_query_state w' A_hub] (the State query) reports in the world AFTER the transaction,
    compared with what [hub_query_state w A_hub] reported before it.

    Vocabulary (each restated below as a [C04w_def_*] theorem proved by reflexivity):
      [w_claims_b w] / [w_claims_st w]  total supply + open unbond requests of bSei / stSei in [w]
      [bond_b_amount h s sb p]          the amount of C03_bond_b_mints for payment [p], reported state
                                        [s], bSei supply [sb]: floor(p / rate_b) - peg fee
      [conv_bst_fee], [conv_stb_fee]    the peg fees of C03_convert_b_st_prices / C03_convert_st_b_prices
      [SoundRates w]   each reported rate is positive and not above backing over claims ([Sound] of C04)
      [RatesExact w]   each reported rate IS [rate_of pool claims]
      [BackedW w]      claims have backing (complement of finding F5: pool = 0 while claims > 0)
      [RateE1 w]       envelope E1: delegated, booked, claims <= 10^18; peg fee and threshold <= 1;
                       the stored rates are Decimals (fit 128 bits)
      [RateEnv w]      [RateE1 w] and both tokens have claims
      [rate_op o]      [o] is a Bond / BondForStSei / Convert transaction
    Named hypotheses defined elsewhere: [Wired] (Inv.v, E4), [Mirror] (Inv.v, C16), [TInv] (Cw20P.v,
    C18), [EntWf] (BooksP.v: delegation table well formed, stake booked only while the hub has a
    delegation entry — holds in every reachable world, C02_EntWf_reachable), [RegOk] (IndexPhases.v:
    registry non-empty, real validators, no repetition), [NoRewardsToHub] (BooksLiquid.v),
    [AccrualFits] (MirrorP.v: the holder's accrued reward fits 128 bits).
    [rate_of], [Backed], [LIM] as in Props/C03.v / C04.v. *)
From Krp Require Import Tactics Prelude Fixed FMap Types Env Registry Cw20 Reward Dispatcher Hub Exec
     ExecP Hist Inv Cw20P MirrorWire MirrorP HubRates BooksEnv BooksHub BooksP BooksLiquid
     IndexRun IndexPhases IndexP ExitWorld RateTxLegs RateTx RateTxConvert RateTxExamples.
Open Scope N_scope.

(** * 0. vocabulary *)
Theorem C04w_def_w_claims_b : forall w, w_claims_b w =
  match w_hub w, w_bsei w with
  | Some h, Some tb => tk_supply tb + cb_reqb (h_batch h) | _, _ => 0 end.
Proof. exact def_w_claims_b. Qed.

Theorem C04w_def_w_claims_st : forall w, w_claims_st w =
  match w_hub w, w_stsei w with
  | Some h, Some ts => tk_supply ts + cb_reqst (h_batch h) | _, _ => 0 end.
Proof. exact def_w_claims_st. Qed.

Theorem C04w_def_bond_b_amount : forall h s sb p, bond_b_amount h s sb p =
  p * D / hs_ber s -
  (if hs_ber s <? hp_thr (h_params h)
   then N.min (p * D / hs_ber s * hp_pegfee (h_params h) / D)
              (sb + p * D / hs_ber s + cb_reqb (h_batch h) - (hs_bb s + p))
   else 0).
Proof. exact def_bond_b_amount. Qed.

Theorem C04w_def_conv_bst_fee : forall h s sb amount, conv_bst_fee h s sb amount =
  if hs_ber s <? hp_thr (h_params h)
  then N.min (amount * hp_pegfee (h_params h) / D)
             (if hs_bb s =? 0 then sb + cb_reqb (h_batch h) - hs_bb s
              else (sb + cb_reqb (h_batch h) - hs_bb s) * (sb + cb_reqb (h_batch h) - amount) / hs_bb s)
  else 0.
Proof. exact def_conv_bst_fee. Qed.

Theorem C04w_def_conv_stb_fee : forall h s sb d m0, conv_stb_fee h s sb d m0 =
  if hs_ber s <? hp_thr (h_params h)
  then N.min (m0 * hp_pegfee (h_params h) / D) (sb + m0 + cb_reqb (h_batch h) - (hs_bb s + d))
  else 0.
Proof. exact def_conv_stb_fee. Qed.

Theorem C04w_def_SoundRates : forall w, SoundRates w <->
  forall s, hub_query_state w A_hub = Some s ->
    (0 < hs_ber s /\ hs_ber s * w_claims_b w <= hs_bb s * D) /\
    (0 < hs_ser s /\ hs_ser s * w_claims_st w <= hs_bst s * D).
Proof. exact def_SoundRates. Qed.

Theorem C04w_def_RatesExact : forall w, RatesExact w <->
  forall s, hub_query_state w A_hub = Some s ->
    hs_ber s = rate_of (hs_bb s) (w_claims_b w) /\ hs_ser s = rate_of (hs_bst s) (w_claims_st w).
Proof. exact def_RatesExact. Qed.

Theorem C04w_def_BackedW : forall w, BackedW w <->
  forall s, hub_query_state w A_hub = Some s ->
    (0 < w_claims_b w -> 0 < hs_bb s) /\ (0 < w_claims_st w -> 0 < hs_bst s).
Proof. exact def_BackedW. Qed.

Theorem C04w_def_RateE1 : forall w, RateE1 w <->
  match w_hub w, w_bsei w, w_stsei w with
  | Some h, Some tb, Some ts =>
      delegated (w_env w) A_hub <= LIM /\ hs_bb (h_state h) + hs_bst (h_state h) <= LIM /\
      tk_supply tb + cb_reqb (h_batch h) <= LIM /\ tk_supply ts + cb_reqst (h_batch h) <= LIM /\
      hp_pegfee (h_params h) <= D /\ hp_thr (h_params h) <= D /\
      hs_ber (h_state h) <= U128MAX /\ hs_ser (h_state h) <= U128MAX
  | _, _, _ => False
  end.
Proof. exact def_RateE1. Qed.

Theorem C04w_def_RateEnv : forall w, RateEnv w <-> RateE1 w /\ 0 < w_claims_b w /\ 0 < w_claims_st w.
Proof. exact def_RateEnv. Qed.

Theorem C04w_def_rate_op : forall o, rate_op o <->
  (exists user hm funds, o = OTx user A_hub (WHub hm) funds /\ (hm = HBond \/ hm = HBondSt)) \/
  (exists user tok amount funds,
     o = OTx user tok (WCw20 (CSend A_hub amount HkConvert)) funds /\ (tok = A_bsei \/ tok = A_stsei)).
Proof. exact def_rate_op. Qed.

Theorem C04w_def_RegOk : forall g, RegOk g <->
  rg_vals g <> [] /\ NoDup (rg_vals g) /\ (forall v, In v (rg_vals g) -> is_val v = true).
Proof. exact def_RegOk. Qed.

(** where the hypotheses come from: a wired hub that has delegations and booked stake reports exact
    rates; exact rates of backed pools within E1 are sound *)
Theorem C04w_exact_of_bonded : forall w,
  Wired w -> all_delegations (w_env w) A_hub <> [] ->
  (forall h, w_hub w = Some h -> 0 < booked h) -> RatesExact w.
Proof. exact rt_exact_of_bonded. Qed.

Theorem C04w_sound_of_exact : forall w,
  RatesExact w -> BackedW w -> w_claims_b w <= LIM -> w_claims_st w <= LIM -> SoundRates w.
Proof. exact rt_sound_of_exact. Qed.

(** * 1. BondForStSei: the world after the transaction (any sender, any funds).
    The funds were exactly one usei coin [p > 0]; with [s] the state the query reported before:
    the stSei supply and the sender's stSei balance grew by exactly [floor(p / rate_st)] (> 0), no
    other stSei balance changed; bSei token, reward contract, dispatcher, registry untouched; the hub's
    delegated stake grew by exactly [p]; the reported pools were within the delegations; batch, config
    and parameters of the hub unchanged; and the State query of the new world — if it answers —
    reports the pools (bb, bst + p) and, for each token, backing over (new supply + requests). *)
Theorem C04w_bondst_tx_effect : forall w user funds w' tr h tb ts,
  Wired w -> EntWf w ->
  w_hub w = Some h -> w_bsei w = Some tb -> w_stsei w = Some ts ->
  run tx_fuel w [(user, MWasm A_hub (WHub HBondSt) funds)] [] = Some (w', tr) ->
  exists p s h' ts',
    funds = [(usei, p)] /\ 0 < p /\
    hub_query_state w A_hub = Some s /\ hs_ser s <> 0 /\
    let mint := p * D / hs_ser s in
    0 < mint /\
    w_hub w' = Some h' /\ w_bsei w' = Some tb /\ w_stsei w' = Some ts' /\
    w_reward w' = w_reward w /\ w_disp w' = w_disp w /\ w_reg w' = w_reg w /\
    tk_supply ts' = tk_supply ts + mint /\ tbal ts' user = tbal ts user + mint /\
    (forall a, a <> user -> tbal ts' a = tbal ts a) /\
    delegated (w_env w') A_hub = delegated (w_env w) A_hub + p /\
    hs_bb s + hs_bst s <= delegated (w_env w) A_hub /\
    h_batch h' = h_batch h /\ h_cfg h' = h_cfg h /\ h_params h' = h_params h /\
    hs_bb (h_state h') = hs_bb s /\ hs_bst (h_state h') = hs_bst s + p /\
    (forall s', hub_query_state w' A_hub = Some s' ->
       hs_bb s' = hs_bb s /\ hs_bst s' = hs_bst s + p /\
       hs_ber s' = rate_of (hs_bb s) (tk_supply tb + cb_reqb (h_batch h)) /\
       hs_ser s' = rate_of (hs_bst s + p) (tk_supply ts + mint + cb_reqst (h_batch h))).
Proof. exact bondst_tx_effect. Qed.

(** * 2. Bond: the same for bSei, with the peg fee of C05 and the reward mirror of C16: the bSei
    supply and the sender's bSei balance grew by exactly [bond_b_amount] (> 0); the reward contract's
    total and the sender's mirrored balance grew by the same amount, no other holder changed; the
    rate the hub stored is backing over claims for the supply AFTER the mint, and it is what the
    State query of the new world reports. *)
Theorem C04w_bond_tx_effect : forall w user funds w' tr h tb ts r,
  Wired w -> EntWf w ->
  w_hub w = Some h -> w_bsei w = Some tb -> w_stsei w = Some ts -> w_reward w = Some r ->
  run tx_fuel w [(user, MWasm A_hub (WHub HBond) funds)] [] = Some (w', tr) ->
  exists p s h' tb' r',
    funds = [(usei, p)] /\ 0 < p /\
    hub_query_state w A_hub = Some s /\ hs_ber s <> 0 /\
    let mint := bond_b_amount h s (tk_supply tb) p in
    0 < mint /\
    w_hub w' = Some h' /\ w_bsei w' = Some tb' /\ w_stsei w' = Some ts /\
    w_reward w' = Some r' /\ w_disp w' = w_disp w /\ w_reg w' = w_reg w /\
    tk_supply tb' = tk_supply tb + mint /\ tbal tb' user = tbal tb user + mint /\
    (forall a, a <> user -> tbal tb' a = tbal tb a) /\
    rw_total r' = rw_total r + mint /\
    ho_bal (holder_of r' user) = ho_bal (holder_of r user) + mint /\
    (forall a, a <> user -> ho_bal (holder_of r' a) = ho_bal (holder_of r a)) /\
    delegated (w_env w') A_hub = delegated (w_env w) A_hub + p /\
    hs_bb s + hs_bst s <= delegated (w_env w) A_hub /\
    h_batch h' = h_batch h /\ h_cfg h' = h_cfg h /\ h_params h' = h_params h /\
    hs_bb (h_state h') = hs_bb s + p /\ hs_bst (h_state h') = hs_bst s /\
    hs_ber (h_state h') = rate_of (hs_bb s + p) (tk_supply tb + mint + cb_reqb (h_batch h)) /\
    (forall s', hub_query_state w' A_hub = Some s' ->
       hs_bb s' = hs_bb s + p /\ hs_bst s' = hs_bst s /\
       hs_ber s' = rate_of (hs_bb s + p) (tk_supply tb + mint + cb_reqb (h_batch h)) /\
       hs_ser s' = rate_of (hs_bst s) (tk_supply ts + cb_reqst (h_batch h))).
Proof. exact bond_tx_effect. Qed.

(** the reward mirror holds again after the transaction; the hub's liquid usei balance is unchanged
    (the payment arrives with the message and leaves as Delegate messages) *)
Theorem C04w_bond_tx_mirror : forall w user hm funds w' tr,
  Wired w -> EntWf w -> Mirror w -> hm = HBond \/ hm = HBondSt ->
  run tx_fuel w [(user, MWasm A_hub (WHub hm) funds)] [] = Some (w', tr) -> Mirror w'.
Proof. exact bond_tx_mirror. Qed.

Theorem C04w_bond_tx_hub_balance : forall w user hm funds w' tr,
  Wired w -> NoRewardsToHub (w_env w) -> user <> A_hub -> hm = HBond \/ hm = HBondSt ->
  run tx_fuel w [(user, MWasm A_hub (WHub hm) funds)] [] = Some (w', tr) ->
  bal (w_env w') A_hub usei = bal (w_env w) A_hub usei.
Proof. exact bond_tx_hub_balance. Qed.

(** * 3. C04: no reported rate is lower after the transaction.  [SoundRates w] is the hypothesis
    of C04 (it follows from [RatesExact], [BackedW] and E1: C04w_sound_of_exact; finding F5 is the
    class outside [BackedW]).  After BondForStSei stSei has claims, after Bond bSei has claims; the
    other token's conclusion is guarded by "still has claims" (the admitted reset to 1.0).  The
    reported rates of the new world are exact rates of backed pools. *)
Theorem C04w_bondst_tx_rate_mono : forall w user funds w' tr s s',
  Wired w -> EntWf w -> SoundRates w ->
  run tx_fuel w [(user, MWasm A_hub (WHub HBondSt) funds)] [] = Some (w', tr) ->
  hub_query_state w A_hub = Some s -> hub_query_state w' A_hub = Some s' ->
  (0 < w_claims_b w' -> hs_ber s <= hs_ber s') /\
  hs_ser s <= hs_ser s' /\ 0 < w_claims_st w' /\
  Backed (hs_bb s') (w_claims_b w') /\ Backed (hs_bst s') (w_claims_st w') /\
  hs_ber s' = rate_of (hs_bb s') (w_claims_b w') /\ hs_ser s' = rate_of (hs_bst s') (w_claims_st w').
Proof. exact bondst_tx_rate_mono. Qed.

Theorem C04w_bond_tx_rate_mono : forall w user funds w' tr s s',
  Wired w -> EntWf w -> SoundRates w ->
  run tx_fuel w [(user, MWasm A_hub (WHub HBond) funds)] [] = Some (w', tr) ->
  hub_query_state w A_hub = Some s -> hub_query_state w' A_hub = Some s' ->
  hs_ber s <= hs_ber s' /\ 0 < w_claims_b w' /\
  (0 < w_claims_st w' -> hs_ser s <= hs_ser s') /\
  Backed (hs_bb s') (w_claims_b w') /\ Backed (hs_bst s') (w_claims_st w') /\
  hs_ber s' = rate_of (hs_bb s') (w_claims_b w') /\ hs_ser s' = rate_of (hs_bst s') (w_claims_st w').
Proof. exact bond_tx_rate_mono. Qed.

(** the hypotheses are re-established in the new world *)
Theorem C04w_bond_tx_invariants : forall w user hm funds w' tr,
  Wired w -> EntWf w -> SoundRates w -> hm = HBond \/ hm = HBondSt ->
  run tx_fuel w [(user, MWasm A_hub (WHub hm) funds)] [] = Some (w', tr) ->
  Wired w' /\ EntWf w' /\ RatesExact w' /\ BackedW w' /\
  (w_claims_b w' <= LIM -> w_claims_st w' <= LIM -> SoundRates w').
Proof. exact bond_tx_invariants. Qed.

(** within E1 (the delegated total stays <= 10^18) the State query of the new world answers *)
Theorem C04w_bond_tx_reports : forall w user hm funds w' tr p,
  Wired w -> EntWf w -> RateE1 w -> hm = HBond \/ hm = HBondSt ->
  run tx_fuel w [(user, MWasm A_hub (WHub hm) funds)] [] = Some (w', tr) ->
  funds = [(usei, p)] -> delegated (w_env w) A_hub + p <= LIM ->
  exists s', hub_query_state w' A_hub = Some s'.
Proof. exact bond_tx_reports. Qed.

(** * 4. success: in a wired world within E1, hub not paused, registry ok, token ledger balanced
    and minted by the hub without cap, a user other than the hub holding the payment: the
    transaction succeeds as soon as the price does not round to zero tokens — every leg: funds
    transfer, hub handler (no 128-bit guard is hit), each MDelegate, the cw20 Mint and (bSei) the
    reward contract's IncreaseBalance.  The reported rate has to be positive (it is under
    [SoundRates]); for Bond, [EntWf] guarantees that the peg-fee subtraction [claims after - backing
    after] cannot underflow (the reported rate is the exact one, or the bSei pool is empty). *)
Theorem C04w_bondst_tx_succeeds : forall w user p h g tb ts s,
  Wired w -> RateE1 w ->
  w_hub w = Some h -> w_reg w = Some g -> w_bsei w = Some tb -> w_stsei w = Some ts ->
  paused h = false -> RegOk g -> TInv ts -> tk_minter ts = Some (A_hub, None) ->
  user <> A_hub -> 0 < p -> p <= LIM -> p <= bal (w_env w) user usei ->
  hub_query_state w A_hub = Some s -> 0 < hs_ser s -> 0 < p * D / hs_ser s ->
  exists w' tr, run tx_fuel w [(user, MWasm A_hub (WHub HBondSt) [(usei, p)])] [] = Some (w', tr).
Proof. exact bondst_tx_succeeds. Qed.

Theorem C04w_bond_tx_succeeds : forall w user p h g tb ts r s,
  Wired w -> EntWf w -> RateE1 w -> Mirror w ->
  w_hub w = Some h -> w_reg w = Some g -> w_bsei w = Some tb -> w_stsei w = Some ts ->
  w_reward w = Some r ->
  paused h = false -> RegOk g -> TInv tb -> tk_minter tb = Some (A_hub, None) ->
  AccrualFits r user ->
  user <> A_hub -> 0 < p -> p <= LIM -> p <= bal (w_env w) user usei ->
  hub_query_state w A_hub = Some s -> 0 < hs_ber s ->
  0 < bond_b_amount h s (tk_supply tb) p ->
  exists w' tr, run tx_fuel w [(user, MWasm A_hub (WHub HBond) [(usei, p)])] [] = Some (w', tr).
Proof. exact bond_tx_succeeds. Qed.

(** * 5. history level: one Bond / BondForStSei operation — successful or not (a failed transaction
    leaves the world unchanged) — lowers no reported rate and keeps the hypotheses *)
Theorem C04w_rate_monotone_step : forall w user hm funds s s',
  Wired w -> EntWf w -> SoundRates w -> hm = HBond \/ hm = HBondSt ->
  let w' := fst (step w (OTx user A_hub (WHub hm) funds)) in
  hub_query_state w A_hub = Some s -> hub_query_state w' A_hub = Some s' ->
  (0 < w_claims_b w' -> hs_ber s <= hs_ber s') /\ (0 < w_claims_st w' -> hs_ser s <= hs_ser s').
Proof. exact rate_monotone_step. Qed.

Theorem C04w_rate_step_invariants : forall w user hm funds,
  Wired w -> EntWf w -> SoundRates w -> hm = HBond \/ hm = HBondSt ->
  let w' := fst (step w (OTx user A_hub (WHub hm) funds)) in
  Wired w' /\ EntWf w' /\ (w_claims_b w' <= LIM -> w_claims_st w' <= LIM -> SoundRates w').
Proof. exact rate_step_invariants. Qed.

(** * 6. Convert.  bSei -> stSei: [amount] bSei leave the sender and the supply (the hub's own bSei
    balance is the same before and after), [d = floor((amount - fee) x rate_b)] coins move from the
    bSei pool to the stSei pool, [m = floor(d / rate_st)] (> 0) stSei are minted to the sender;
    delegations untouched; the State query of the new world reports backing over the new claims. *)
Theorem C04w_convert_b_st_tx_effect : forall w user amount funds w' tr h tb ts,
  Wired w -> EntWf w ->
  w_hub w = Some h -> w_bsei w = Some tb -> w_stsei w = Some ts ->
  run tx_fuel w [(user, MWasm A_bsei (WCw20 (CSend A_hub amount HkConvert)) funds)] [] = Some (w', tr) ->
  exists s h' tb' ts',
    hub_query_state w A_hub = Some s /\ hs_ser s <> 0 /\
    let fee := conv_bst_fee h s (tk_supply tb) amount in
    let d := (amount - fee) * hs_ber s / D in
    let m := d * D / hs_ser s in
    0 < m /\ fee <= amount /\ d <= hs_bb s /\ amount <= tbal tb user /\
    w_hub w' = Some h' /\ w_bsei w' = Some tb' /\ w_stsei w' = Some ts' /\
    tk_supply tb' + amount = tk_supply tb /\ tbal tb' user + amount = tbal tb user /\
    (forall a, a <> user -> tbal tb' a = tbal tb a) /\
    tk_supply ts' = tk_supply ts + m /\ tbal ts' user = tbal ts user + m /\
    (forall a, a <> user -> tbal ts' a = tbal ts a) /\
    all_delegations (w_env w') A_hub = all_delegations (w_env w) A_hub /\
    hs_bb s + hs_bst s <= delegated (w_env w) A_hub /\
    h_batch h' = h_batch h /\ h_cfg h' = h_cfg h /\ h_params h' = h_params h /\
    hs_bb (h_state h') = hs_bb s - d /\ hs_bst (h_state h') = hs_bst s + d /\
    (forall s', hub_query_state w' A_hub = Some s' ->
       hs_bb s' = hs_bb s - d /\ hs_bst s' = hs_bst s + d /\
       hs_ber s' = rate_of (hs_bb s - d) (tk_supply tb - amount + cb_reqb (h_batch h)) /\
       hs_ser s' = rate_of (hs_bst s + d) (tk_supply ts + m + cb_reqst (h_batch h))).
Proof. exact convert_b_st_tx_effect. Qed.

(** stSei -> bSei: [d = floor(amount x rate_st)] coins move to the bSei pool, [floor(d / rate_b) - fee]
    (> 0) bSei are minted; the stSei token's burn calls the hub's CheckSlashing, which finds no loss *)
Theorem C04w_convert_st_b_tx_effect : forall w user amount funds w' tr h tb ts,
  Wired w -> EntWf w ->
  w_hub w = Some h -> w_bsei w = Some tb -> w_stsei w = Some ts ->
  run tx_fuel w [(user, MWasm A_stsei (WCw20 (CSend A_hub amount HkConvert)) funds)] [] = Some (w', tr) ->
  exists s h' tb' ts',
    hub_query_state w A_hub = Some s /\ hs_ber s <> 0 /\
    let d := amount * hs_ser s / D in
    let m0 := d * D / hs_ber s in
    let fee := conv_stb_fee h s (tk_supply tb) d m0 in
    let m := m0 - fee in
    0 < m /\ fee <= m0 /\ d <= hs_bst s /\ amount <= tbal ts user /\
    w_hub w' = Some h' /\ w_bsei w' = Some tb' /\ w_stsei w' = Some ts' /\
    tk_supply ts' + amount = tk_supply ts /\ tbal ts' user + amount = tbal ts user /\
    (forall a, a <> user -> tbal ts' a = tbal ts a) /\
    tk_supply tb' = tk_supply tb + m /\ tbal tb' user = tbal tb user + m /\
    (forall a, a <> user -> tbal tb' a = tbal tb a) /\
    all_delegations (w_env w') A_hub = all_delegations (w_env w) A_hub /\
    hs_bb s + hs_bst s <= delegated (w_env w) A_hub /\
    h_batch h' = h_batch h /\ h_cfg h' = h_cfg h /\ h_params h' = h_params h /\
    hs_bb (h_state h') = hs_bb s + d /\ hs_bst (h_state h') = hs_bst s - d /\
    (forall s', hub_query_state w' A_hub = Some s' ->
       hs_bb s' = hs_bb s + d /\ hs_bst s' = hs_bst s - d /\
       hs_ber s' = rate_of (hs_bb s + d) (tk_supply tb + m + cb_reqb (h_batch h)) /\
       hs_ser s' = rate_of (hs_bst s - d) (tk_supply ts - amount + cb_reqst (h_batch h))).
Proof. exact convert_st_b_tx_effect. Qed.

Theorem C04w_convert_b_st_tx_rate_mono : forall w user amount funds w' tr s s',
  Wired w -> EntWf w -> SoundRates w ->
  run tx_fuel w [(user, MWasm A_bsei (WCw20 (CSend A_hub amount HkConvert)) funds)] [] = Some (w', tr) ->
  hub_query_state w A_hub = Some s -> hub_query_state w' A_hub = Some s' ->
  (0 < w_claims_b w' -> hs_ber s <= hs_ber s') /\
  hs_ser s <= hs_ser s' /\ 0 < w_claims_st w' /\
  Backed (hs_bb s') (w_claims_b w') /\ Backed (hs_bst s') (w_claims_st w') /\
  hs_ber s' = rate_of (hs_bb s') (w_claims_b w') /\ hs_ser s' = rate_of (hs_bst s') (w_claims_st w').
Proof. exact convert_b_st_tx_rate_mono. Qed.

Theorem C04w_convert_st_b_tx_rate_mono : forall w user amount funds w' tr s s',
  Wired w -> EntWf w -> SoundRates w ->
  run tx_fuel w [(user, MWasm A_stsei (WCw20 (CSend A_hub amount HkConvert)) funds)] [] = Some (w', tr) ->
  hub_query_state w A_hub = Some s -> hub_query_state w' A_hub = Some s' ->
  hs_ber s <= hs_ber s' /\ 0 < w_claims_b w' /\
  (0 < w_claims_st w' -> hs_ser s <= hs_ser s') /\
  Backed (hs_bb s') (w_claims_b w') /\ Backed (hs_bst s') (w_claims_st w') /\
  hs_ber s' = rate_of (hs_bb s') (w_claims_b w') /\ hs_ser s' = rate_of (hs_bst s') (w_claims_st w').
Proof. exact convert_st_b_tx_rate_mono. Qed.

Theorem C04w_convert_tx_invariants : forall w user tok amount funds w' tr,
  Wired w -> EntWf w -> SoundRates w -> tok = A_bsei \/ tok = A_stsei ->
  run tx_fuel w [(user, MWasm tok (WCw20 (CSend A_hub amount HkConvert)) funds)] [] = Some (w', tr) ->
  Wired w' /\ EntWf w' /\ RatesExact w' /\ BackedW w' /\
  (w_claims_b w' <= LIM -> w_claims_st w' <= LIM -> SoundRates w').
Proof. exact convert_tx_invariants. Qed.

Theorem C04w_rate_monotone_step_convert : forall w user tok amount funds s s',
  Wired w -> EntWf w -> SoundRates w -> tok = A_bsei \/ tok = A_stsei ->
  let w' := fst (step w (OTx user tok (WCw20 (CSend A_hub amount HkConvert)) funds)) in
  hub_query_state w A_hub = Some s -> hub_query_state w' A_hub = Some s' ->
  (0 < w_claims_b w' -> hs_ber s <= hs_ber s') /\ (0 < w_claims_st w' -> hs_ser s <= hs_ser s').
Proof. exact rate_monotone_step_convert. Qed.

Theorem C04w_rate_step_invariants_convert : forall w user tok amount funds,
  Wired w -> EntWf w -> SoundRates w -> tok = A_bsei \/ tok = A_stsei ->
  let w' := fst (step w (OTx user tok (WCw20 (CSend A_hub amount HkConvert)) funds)) in
  Wired w' /\ EntWf w' /\ (w_claims_b w' <= LIM -> w_claims_st w' <= LIM -> SoundRates w').
Proof. exact rate_step_invariants_convert. Qed.

(** * 7. histories of bonds and conversions (any senders, amounts, funds; failing transactions
    included): while every visited world is within E1 and both tokens have claims, the rates the
    State query reports at the end are not below the ones reported at the start *)
Theorem C04w_rate_monotone_history : forall ops w s s',
  Forall rate_op ops -> Wired w -> EntWf w -> SoundRates w -> always RateEnv ops w ->
  hub_query_state w A_hub = Some s -> hub_query_state (run_ops ops w) A_hub = Some s' ->
  hs_ber s <= hs_ber s' /\ hs_ser s <= hs_ser s'.
Proof. exact rate_monotone_history. Qed.

(** * 8. non-vacuity (concrete worlds, by computation): [world0] of Proofs/ExitWorld.v and
    [worldS] = [world0] after a 10 % slashing of one validator (rates 0.9666.., peg fee on);
    [rx_sS] is the state reported in [worldS] *)
Theorem C04w_example_hypotheses :
  Wired world0 /\ EntWf world0 /\ SoundRates world0 /\ Mirror world0 /\ RateE1 world0 /\
  NoRewardsToHub (w_env world0) /\
  Wired worldS /\ EntWf worldS /\ SoundRates worldS /\ Mirror worldS /\ RateE1 worldS /\
  NoRewardsToHub (w_env worldS) /\
  delegated (w_env worldS) A_hub + 500000 <= LIM /\
  0 < w_claims_b worldS /\ 0 < w_claims_st worldS.
Proof. exact rate_tx_nonvacuous. Qed.

Theorem C04w_example_success_hypotheses :
  exists h g tb ts r,
    Wired worldS /\ EntWf worldS /\ RateE1 worldS /\ Mirror worldS /\
    w_hub worldS = Some h /\ w_reg worldS = Some g /\ w_bsei worldS = Some tb /\
    w_stsei worldS = Some ts /\ w_reward worldS = Some r /\
    paused h = false /\ RegOk g /\ TInv tb /\ TInv ts /\
    tk_minter tb = Some (A_hub, None) /\ tk_minter ts = Some (A_hub, None) /\
    AccrualFits r alice /\ alice <> A_hub /\ 0 < 500000 /\ 500000 <= LIM /\
    500000 <= bal (w_env worldS) alice usei /\
    hub_query_state worldS A_hub = Some rx_sS /\
    hs_ber rx_sS = rate_of (hs_bb rx_sS) (claims_b h tb) /\
    hs_ber rx_sS < hp_thr (h_params h) /\
    bond_b_amount h rx_sS (tk_supply tb) 500000 = 514655 /\
    500000 * D / hs_ser rx_sS = 517241 /\ 0 < hs_ser rx_sS /\ 0 < hs_ber rx_sS.
Proof. exact bond_tx_succeeds_nonvacuous. Qed.

Theorem C04w_example_bond_runs :
  exists w1 tr1 w2 tr2 s1 s2,
    run tx_fuel worldS [(alice, MWasm A_hub (WHub HBond) [(usei, 500000)])] [] = Some (w1, tr1) /\
    run tx_fuel worldS [(alice, MWasm A_hub (WHub HBondSt) [(usei, 500000)])] [] = Some (w2, tr2) /\
    hub_query_state w1 A_hub = Some s1 /\ hub_query_state w2 A_hub = Some s2 /\
    hs_ber rx_sS <= hs_ber s1 /\ hs_ser rx_sS <= hs_ser s1 /\
    hs_ber rx_sS <= hs_ber s2 /\ hs_ser rx_sS <= hs_ser s2 /\
    length tr1 = 6%nat /\ length tr2 = 5%nat.
Proof. exact bond_tx_runs. Qed.

Theorem C04w_example_convert_runs :
  exists w1 tr1 w2 tr2 s1 s2,
    run tx_fuel worldS [(alice, MWasm A_bsei (WCw20 (CSend A_hub 1000 HkConvert)) [])] [] = Some (w1, tr1) /\
    run tx_fuel worldS [(bob, MWasm A_stsei (WCw20 (CSend A_hub 1000 HkConvert)) [])] [] = Some (w2, tr2) /\
    hub_query_state w1 A_hub = Some s1 /\ hub_query_state w2 A_hub = Some s2 /\
    hs_ber rx_sS <= hs_ber s1 /\ hs_ser rx_sS <= hs_ser s1 /\
    hs_ber rx_sS <= hs_ber s2 /\ hs_ser rx_sS <= hs_ser s2 /\
    length tr1 = 7%nat /\ length tr2 = 6%nat.
Proof. exact convert_tx_runs. Qed.

Theorem C04w_example_history :
  Forall rate_op rx_ops /\ always RateEnv rx_ops worldS /\
  exists s', hub_query_state (run_ops rx_ops worldS) A_hub = Some s' /\
    hs_ber rx_sS < hs_ber s' /\ hs_ser rx_sS < hs_ser s'.
Proof. exact rate_history_nonvacuous. Qed.

Print Assumptions C04w_def_w_claims_b.
Print Assumptions C04w_def_w_claims_st.
Print Assumptions C04w_def_bond_b_amount.
Print Assumptions C04w_def_conv_bst_fee.
Print Assumptions C04w_def_conv_stb_fee.
Print Assumptions C04w_def_SoundRates.
Print Assumptions C04w_def_RatesExact.
Print Assumptions C04w_def_BackedW.
Print Assumptions C04w_def_RateE1.
Print Assumptions C04w_def_RateEnv.
Print Assumptions C04w_def_rate_op.
Print Assumptions C04w_def_RegOk.
Print Assumptions C04w_exact_of_bonded.
Print Assumptions C04w_sound_of_exact.
Print Assumptions C04w_bondst_tx_effect.
Print Assumptions C04w_bond_tx_effect.
Print Assumptions C04w_bond_tx_mirror.
Print Assumptions C04w_bond_tx_hub_balance.
Print Assumptions C04w_bondst_tx_rate_mono.
Print Assumptions C04w_bond_tx_rate_mono.
Print Assumptions C04w_bond_tx_invariants.
Print Assumptions C04w_bond_tx_reports.
Print Assumptions C04w_bondst_tx_succeeds.
Print Assumptions C04w_bond_tx_succeeds.
Print Assumptions C04w_rate_monotone_step.
Print Assumptions C04w_rate_step_invariants.
Print Assumptions C04w_convert_b_st_tx_effect.
Print Assumptions C04w_convert_st_b_tx_effect.
Print Assumptions C04w_convert_b_st_tx_rate_mono.
Print Assumptions C04w_convert_st_b_tx_rate_mono.
Print Assumptions C04w_convert_tx_invariants.
Print Assumptions C04w_rate_monotone_step_convert.
Print Assumptions C04w_rate_step_invariants_convert.
Print Assumptions C04w_rate_monotone_history.
Print Assumptions C04w_example_hypotheses.
Print Assumptions C04w_example_success_hypotheses.
Print Assumptions C04w_example_bond_runs.
Print Assumptions C04w_example_convert_runs.
Print Assumptions C04w_example_history.
