(** C05 — The peg-recovery fee is bounded and never over-collects past the 1:1 peg.
    Property theorems only (proofs: Proofs/HubFee.v).

    Reading guide.  All four fee-charging handlers first synchronise the hub state with the
    delegations ([slashing], i.e. [query_actual_state]); [s] is that synchronised state and
        B = hs_bb s                 coins backing bSei
        S                           bSei total supply as the hub reads it from the token
        Q = cb_reqb (h_batch h)     bSei already requested for unbonding in the open batch
        S + Q                       claims on the bSei pool
        r = hs_ber s                the bSei rate used by the handler
        thr, f                      er_threshold and peg_recovery_fee (both <= D = 10^18 by C20)
    [rate_of B C] (Proofs/Inv.v) is the reported rate: [D] when [B = 0] or [C = 0], else
    [B * D / C].  The hypothesis "[r = rate_of B (S + Q)]" (the rate is synchronised) is PROVED by
    [C05_synced_after_slashing] whenever [query_actual_state] recomputes; in the two cases where it
    returns the stored state unchanged (no delegation, or nothing booked) it is the stored-rate
    invariant of C03.  The hypothesis "starts with the rate below 1" is written
    [r < D \/ B <= S + Q] (either form suffices; the first implies the second by
    [C05_rate_below_one]).
    "Claims after" always include the effect of the emitted cw20 Mint / Burn on the supply
    (a Mint of x adds x, a Burn of x removes x: C18).
    [bond_mint], [unbond_awf], [conv_awf] are verbatim copies of the handlers' fee code; their
    bodies are written out in [C05_*_def]. *)
From Krp Require Import Tactics Prelude Fixed FMap Types Env Registry Cw20 Hub Inv HubFee.
Open Scope N_scope.

(** ** the link between the rate and under-backing *)

(** a synchronised rate below 1 means: backing is non-zero and strictly below claims *)
Theorem C05_rate_below_one : forall B C, rate_of B C < D -> 0 < B /\ B < C.
Proof. exact rate_below_one. Qed.

(** in particular whenever the fee branch is taken ([r < thr]) with a threshold in [0,1] *)
Theorem C05_fee_branch_underbacked : forall B C r thr,
  r = rate_of B C -> r < thr -> thr <= D -> 0 < B /\ B < C.
Proof. exact fee_branch_underbacked. Qed.

(** the synchronised state carries the reported rate whenever it is recomputed *)
Theorem C05_synced_after_slashing : forall w self h s,
  query_actual_state w self h = Some s ->
  all_delegations (w_env w) self <> [] ->
  hs_bb (h_state h) + hs_bst (h_state h) <> 0 ->
  exists S, hub_bsei_supply w h = Some S /\
            hs_ber s = rate_of (hs_bb s) (S + cb_reqb (h_batch h)).
Proof. exact slashing_synced. Qed.

(** ** bond: [m] = no-fee mint, [m - fee] is minted *)
Theorem C05_bond : forall w h self sender funds h' out s S,
  execute_bond w h self sender funds BkB = Some (h', out) ->
  query_actual_state w self h = Some s ->
  hub_bsei_supply w h = Some S ->
  let B := hs_bb s in let Q := cb_reqb (h_batch h) in let r := hs_ber s in
  let thr := hp_thr (h_params h) in let f := hp_pegfee (h_params h) in
  exists pay m fee dmsgs tok,
    find_payment (hp_underlying (h_params h)) funds = Some pay /\
    ddiv (snd pay) r = Some m /\
    hc_bsei (h_cfg h) = Some tok /\
    out = dmsgs ++ [MWasm tok (WCw20 (CMint sender (m - fee))) []] /\
    (* never negative, never more than the no-fee amount *)
    fee <= m /\
    (* no fee at or above the threshold *)
    (thr <= r -> fee = 0) /\
    (* below it: the smaller of the proportional cap and the restoring cap *)
    (r < thr -> fee = N.min (m * f / D) ((S + m + Q) - (B + snd pay))) /\
    fee <= m * f / D /\
    (* the new pool *)
    hs_bb (h_state h') = B + snd pay /\ cb_reqb (h_batch h') = Q /\
    hs_ber (h_state h') = rate_of (B + snd pay) ((S + (m - fee)) + Q) /\
    (* no overshoot: backing after <= claims after, exactly *)
    (r = rate_of B (S + Q) -> r < D \/ B <= S + Q ->
     B + snd pay <= (S + (m - fee)) + Q) /\
    bond_mint S Q B (snd pay) r thr f = Some (m - fee).
Proof. exact bond_peg_fee. Qed.

(** ** unbond bSei: [amount - fee] is recorded as the user's claim, [amount] is burnt *)
Theorem C05_unbond : forall w h self amount user h' out s S,
  execute_unbond w h self amount user = Some (h', out) ->
  query_actual_state w self h = Some s ->
  hub_bsei_supply w h = Some S ->
  let B := hs_bb s in let Q := cb_reqb (h_batch h) in let r := hs_ber s in
  let thr := hp_thr (h_params h) in let f := hp_pegfee (h_params h) in
  let id := cb_id (h_batch h) in
  exists fee msgs tok,
    fee <= amount /\
    (thr <= r -> fee = 0) /\
    (r < thr -> fee = N.min (amount * f / D) ((S + Q) - B)) /\
    fee <= amount * f / D /\
    amount <= S /\
    h_wait h' = set eqbAN (h_wait h) (user, id)
                  (fst (wait_of h user id) + (amount - fee), snd (wait_of h user id)) /\
    hc_bsei (h_cfg h) = Some tok /\
    out = msgs ++ [MWasm tok (WCw20 (CBurn amount)) []] /\
    (* no overshoot after the fee step: backing B unchanged, claims = (S - amount) + (Q + amount - fee) *)
    (r = rate_of B (S + Q) -> r < D \/ B <= S + Q ->
     B <= (S - amount) + (Q + (amount - fee))) /\
    (* final hub: either no epoch undelegation was due, or the open batch (Q + amount - fee) was
       priced at the refreshed rate, its coins left the backing, and the batch was closed *)
    ((hs_bb (h_state h') = B /\ cb_reqb (h_batch h') = Q + (amount - fee)) \/
     (hs_bb (h_state h') =
        B - (Q + (amount - fee)) * rate_of B ((S - amount) + (Q + (amount - fee))) / D /\
      cb_reqb (h_batch h') = 0)) /\
    unbond_awf S Q B amount r thr f = Some (amount - fee).
Proof. exact unbond_peg_fee. Qed.

(** on the final state of every successful unbond (batch closed or not): backing <= claims + 1 *)
Theorem C05_unbond_final : forall w h self amount user h' out s S,
  execute_unbond w h self amount user = Some (h', out) ->
  query_actual_state w self h = Some s ->
  hub_bsei_supply w h = Some S ->
  let B := hs_bb s in let Q := cb_reqb (h_batch h) in let r := hs_ber s in
  r = rate_of B (S + Q) -> r < D \/ B <= S + Q -> S + Q <= D ->
  hs_bb (h_state h') <= (S - amount) + cb_reqb (h_batch h') + 1.
Proof. exact unbond_final_no_overshoot. Qed.

(** ** convert stSei -> bSei: [d] coins move to the bSei pool, [m] = no-fee mint *)
Theorem C05_conv_st_b : forall w h self amount user h' out s S,
  convert_stsei_bsei w h self amount user = Some (h', out) ->
  query_actual_state w self h = Some s ->
  hub_bsei_supply w h = Some S ->
  let B := hs_bb s in let Q := cb_reqb (h_batch h) in let r := hs_ber s in
  let thr := hp_thr (h_params h) in let f := hp_pegfee (h_params h) in
  exists d m fee stok btok,
    mulU amount (hs_ser s) = Some d /\
    ddiv d r = Some m /\
    hc_stsei (h_cfg h) = Some stok /\ hc_bsei (h_cfg h) = Some btok /\
    out = [MWasm btok (WCw20 (CMint user (m - fee))) []; MWasm stok (WCw20 (CBurn amount)) []] /\
    fee <= m /\
    (thr <= r -> fee = 0) /\
    (r < thr -> fee = N.min (m * f / D) ((S + m + Q) - (B + d))) /\
    fee <= m * f / D /\
    hs_bb (h_state h') = B + d /\ cb_reqb (h_batch h') = Q /\
    hs_ber (h_state h') = rate_of (B + d) ((S + (m - fee)) + Q) /\
    (r = rate_of B (S + Q) -> r < D \/ B <= S + Q -> B + d <= (S + (m - fee)) + Q) /\
    bond_mint S Q B d r thr f = Some (m - fee).
Proof. exact conv_st_b_peg_fee. Qed.

(** ** convert bSei -> stSei: [amount - fee] tokens are redeemed for [d] coins, [amount] is burnt.
    The restoring cap is gap * (claims - amount) / backing (the cap of the fix for finding F1). *)
Theorem C05_conv_b_st : forall w h self amount user h' out s S,
  convert_bsei_stsei w h self amount user = Some (h', out) ->
  query_actual_state w self h = Some s ->
  hub_bsei_supply w h = Some S ->
  let B := hs_bb s in let Q := cb_reqb (h_batch h) in let r := hs_ber s in
  let thr := hp_thr (h_params h) in let f := hp_pegfee (h_params h) in
  exists fee d to_mint stok btok,
    fee <= amount /\
    (thr <= r -> fee = 0) /\
    (r < thr -> fee = N.min (amount * f / D)
                       (if B =? 0 then (S + Q) - B
                        else ((S + Q) - B) * ((S + Q) - amount) / B)) /\
    fee <= amount * f / D /\
    mulU (amount - fee) r = Some d /\
    ddiv d (hs_ser s) = Some to_mint /\
    (* never more stSei than without a fee *)
    to_mint <= (amount * r / D) * D / hs_ser s /\
    hc_stsei (h_cfg h) = Some stok /\ hc_bsei (h_cfg h) = Some btok /\
    out = [MWasm stok (WCw20 (CMint user to_mint)) []; MWasm btok (WCw20 (CBurn amount)) []] /\
    amount <= S /\ d <= B /\
    hs_bb (h_state h') = B - d /\ cb_reqb (h_batch h') = Q /\
    hs_ber (h_state h') = rate_of (B - d) ((S - amount) + Q) /\
    (* no overshoot beyond one base unit (two floors), for amounts within E1 *)
    (r = rate_of B (S + Q) -> r < D \/ B <= S + Q -> amount <= D ->
     B - d <= ((S - amount) + Q) + 1) /\
    conv_awf S Q B amount r thr f = Some (amount - fee).
Proof. exact conv_b_st_peg_fee. Qed.

(** ** the fee code cannot fail under E1 magnitudes with a synchronised rate (in particular the raw
    subtractions [S + m + Q - (B + p)], [S + Q - B], [S + Q - amount]) *)
Theorem C05_bond_mint_def : forall S Q B p r thr f,
  bond_mint S Q B p r thr f =
    (do m <- ddiv p r;
     if r <? thr then
       do max_fee <- mulU m f;
       do a1 <- add128 S m;
       do a2 <- add128 a1 Q;
       do b1 <- add128 B p;
       do required <- sub128 a2 b1;
       sub128 m (N.min max_fee required)
     else Some m).
Proof. exact bond_mint_def. Qed.

Theorem C05_unbond_awf_def : forall S Q B amount r thr f,
  unbond_awf S Q B amount r thr f =
    (if r <? thr then
       do max_fee <- mulU amount f;
       do c <- add128 S Q;
       do required <- sub128 c B;
       sub128 amount (N.min max_fee required)
     else Some amount).
Proof. exact unbond_awf_def. Qed.

Theorem C05_conv_awf_def : forall S Q B amount r thr f,
  conv_awf S Q B amount r thr f =
    (if r <? thr then
       do max_fee <- mulU amount f;
       do c <- add128 S Q;
       do gap <- sub128 c B;
       do required <- (if B =? 0 then Some gap
                       else do rest <- sub128 c amount; mul_ratio gap rest B);
       sub128 amount (N.min max_fee required)
     else Some amount).
Proof. exact conv_awf_def. Qed.

(** bond and stSei -> bSei ([p] = payment resp. coin value of the stSei; [m] its no-fee mint) *)
Theorem C05_bond_fee_cannot_fail : forall S Q B p r thr f m,
  p <= D -> S + Q <= D -> f <= D -> thr <= D ->
  r = rate_of B (S + Q) -> ddiv p r = Some m ->
  bond_mint S Q B p r thr f
    = Some (if r <? thr then m - N.min (m * f / D) ((S + m + Q) - (B + p)) else m).
Proof. exact bond_mint_safe. Qed.

(** ... because claims + mint >= backing + payment *)
Theorem C05_bond_required_nonneg : forall S Q B p m f r,
  p <= D -> S + Q <= D -> f <= D ->
  r = rate_of B (S + Q) -> r < D -> ddiv p r = Some m ->
  B + p <= S + m + Q /\
  fee_mint_block S Q B p m f = Some (m - N.min (m * f / D) ((S + m + Q) - (B + p))).
Proof. exact fee_mint_block_safe. Qed.

Theorem C05_unbond_fee_cannot_fail : forall S Q B amount r thr f,
  amount <= D -> S + Q <= D -> f <= D -> thr <= D ->
  r = rate_of B (S + Q) ->
  unbond_awf S Q B amount r thr f
    = Some (if r <? thr then amount - N.min (amount * f / D) ((S + Q) - B) else amount).
Proof. exact unbond_awf_safe. Qed.

Theorem C05_conv_fee_cannot_fail : forall S Q B amount r thr f,
  amount <= S -> S + Q <= D -> f <= D -> thr <= D ->
  r = rate_of B (S + Q) ->
  conv_awf S Q B amount r thr f
    = Some (if r <? thr
            then amount - N.min (amount * f / D)
                            (if B =? 0 then (S + Q) - B
                             else ((S + Q) - B) * ((S + Q) - amount) / B)
            else amount).
Proof. exact conv_awf_safe. Qed.

(** ** the bound + 1 of [C05_conv_b_st] is attained (pure arithmetic instance: backing one below
    claims, no fee possible, the two floors leave one unit) *)
Theorem C05_conv_b_st_dust_tight :
  let S := 880487297567475966 in let Q := 79675463696223508 in
  let B := 960162761263699473 in let a := 877313011780552874 in
  B + 1 = S + Q /\
  (if B =? 0 then (S + Q) - B else ((S + Q) - B) * ((S + Q) - a) / B) = 0 /\
  a <= S /\ S + Q <= D /\
  B - a * rate_of B (S + Q) / D = (S - a) + Q + 1.
Proof. exact conv_b_st_dust_tight. Qed.

(** the cap in force before the fix of finding F1 (the whole coin gap) overshoots: supply
    1 000 000, backing 999 000, fee 0.5 %, convert 500 000 *)
Theorem C05_F1_former_cap_overshoot_witness :
  let r := rate_of 999000 1000000 in
  let fee := N.min (500000 * 5000000000000000 / D) (1000000 - 999000) in
  fee = 1000 /\ 999000 - (500000 - fee) * r / D = 500499 /\ (1000000 - 500000) + 2 < 500499.
Proof. exact F1_former_cap_overshoot_witness. Qed.

Print Assumptions C05_rate_below_one.
Print Assumptions C05_fee_branch_underbacked.
Print Assumptions C05_synced_after_slashing.
Print Assumptions C05_bond.
Print Assumptions C05_unbond.
Print Assumptions C05_unbond_final.
Print Assumptions C05_conv_st_b.
Print Assumptions C05_conv_b_st.
Print Assumptions C05_bond_mint_def.
Print Assumptions C05_unbond_awf_def.
Print Assumptions C05_conv_awf_def.
Print Assumptions C05_bond_fee_cannot_fail.
Print Assumptions C05_bond_required_nonneg.
Print Assumptions C05_unbond_fee_cannot_fail.
Print Assumptions C05_conv_fee_cannot_fail.
Print Assumptions C05_conv_b_st_dust_tight.
Print Assumptions C05_F1_former_cap_overshoot_witness.
