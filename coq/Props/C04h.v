(** C04 at HISTORY level over the FULL operation alphabet — "No user operation dilutes holders: a rate
    falls only through slashing."
    Property theorems only; proofs in Proofs/RateHist.v (helpers Proofs/RateHistBase.v, RateHistInert.v,
    RateHistLegs.v, RateHistUnit.v, RateHistActive.v).  Handler level: Props/C04.v; transaction level for
    Bond / BondForStSei / Convert: Props/C04w.v.

    WHAT IS PROVED.  For EVERY operation [o] of a history (Model/Exec.v [op]) other than
      - a slashing event [OSlash]                        (the one cause the property allows),
      - [OReset] and the six [OInst*] operations          (they replace a contract's whole state),
      - a transaction whose SIGNER is the hub contract's own address [A_hub] (impossible on a chain - a
        contract address has no key; such a "signer" could send the tokens a Mint, see
        [C04h_hub_signed_mint_witness]),
    one step [w' = fst (step w o)] lowers neither rate that the State query [hub_query_state _ A_hub]
    reports, for a token that still has claims in [w']  ([C04h_rate_monotone_op]).  Covered are: the
    environment events (OAdvance, OAccrue, OGift), the stub modes and flags (OSetPrice, OSwapMode,
    OOracleMode, OCanRedel), the legacy wait-list poke (OLegacyWait), and [OTx sender target msg funds]
    for ARBITRARY sender <> A_hub, target, message and funds - failing transactions (world unchanged)
    and successful ones, with the whole message tree they spawn.  [C04h_rate_monotone_history] lifts
    this to histories, [C04h_coin_value_history] to floor(balance x rate).

    HOW.  Messages are split into
      - INERT messages [inert (sender, msg) = true] ([C04h_def_inert]): they can never move a reported
        rate, whoever sends them and whatever they spawn ([C04h_inert_message], [C04h_inert_forest]):
        bank / distribution / foreign staking messages, hub-signed Redelegate (total unchanged),
        every reward-contract, swap-stub and airdrop-stub message, dispatcher and registry messages other
        than the ones below, cw20 Transfer / TransferFrom / allowances / Send to other contracts, cw20
        Mint / Burn / UpdateMinter by anybody but the hub (rejected), and the hub's WithdrawUnbonded,
        CheckSlashing (the stored state becomes the reported one: [C04h_check_slashing_reports_same]),
        UpdateParams, UpdateConfig, ownership, RedelegateProxy, SwapHook, ClaimAirdrop, Migrate,
        BondRewards not from the dispatcher and Receive not from a token (rejected);
      - PRICING hub messages Bond / BondForStSei / BondRewards / Receive{Unbond|Convert}: executed with
        all their legs (Delegate / Undelegate, cw20 Mint / Burn with the reward contract's mirror
        messages and the stSei token's CheckSlashing call-back) from any sender, anywhere in a tree
        ([C04h_pricing_subtree]); the arithmetic is the one of Props/C04.v;
      - the remaining ACTIVE roots ([C04h_root_cases]): hub UpdateGlobalIndex, dispatcher
        DispatchRewards, registry RemoveValidator / Redelegations, cw20 Send / SendFrom to the hub and
        cw20 BurnFrom - each a forest of inert messages around at most one pricing message (BurnFrom:
        the supply falls over unchanged pools).

    VOCABULARY (each restated below as a [C04h_def_*] theorem):
      [rate4 s]        the four rate fields (bSei rate, stSei rate, bSei pool, stSei pool) of a hub state
      [rd w]           the rate data of a world: those four fields as STORED, the open batch's requests,
                       the hub's token addresses and underlying denom, both cw20 supplies, "the hub has no
                       delegation entry" ([nilb]) and the hub's delegated total
      [inert], [plain] see above; [plain m]: [m] is none of the four UpdateConfig messages (MirrorWire.v)
      [Exec w l w' n]  (IndexRun.v) the messages [l], and depth first everything they spawn, execute from
                       [w] to [w'] in [n] steps - the big-step reading of [run]
      [MinterOk w]     the minter of both tokens, if any, is the hub (kept by every covered operation)
      [covered_op o]   [o] is none of the excluded operations listed above
      [plain_op o]     [o] is not a transaction whose root is an UpdateConfig message
      [HistEnv w]      [Wired w] (E4, Inv.v) and [RateEnv w] (C04w: E1 magnitudes, both tokens have claims)
    Named hypotheses defined elsewhere: [Wired] (Inv.v), [EntWf] (BooksP.v, holds in every reachable
    world), [SoundRates] (RateTx.v: every reported rate is positive and not above backing over claims =
    [Sound] of C04; it excludes finding F5 "pool = 0 while claims > 0"), [w_claims_b] / [w_claims_st]
    (supply + open requests), [LIM] = 10^18. *)
From Krp Require Import Tactics Prelude Fixed FMap Types Env Registry Cw20 Reward Dispatcher Hub Exec
     ExecP Hist Inv Cw20P MirrorWire HubRates BooksEnv BooksP IndexRun ExitWorld RateTx RateTxConvert
     RateTxExamples RateHistBase RateHistInert RateHistUnit RateHistActive RateHist.
Open Scope N_scope.

(** * 0. vocabulary *)
Theorem C04h_def_rate4 : forall s, rate4 s = (hs_ber s, hs_ser s, hs_bb s, hs_bst s).
Proof. exact def_rate4. Qed.

Theorem C04h_def_nilb : forall (A : Type) (l : list A), nilb l = match l with [] => true | _ => false end.
Proof. exact def_nilb. Qed.

Theorem C04h_def_rd : forall w, rd w =
  (option_map (fun h => (rate4 (h_state h), cb_reqb (h_batch h), cb_reqst (h_batch h),
                         hc_bsei (h_cfg h), hc_stsei (h_cfg h), hp_underlying (h_params h))) (w_hub w),
   option_map tk_supply (w_bsei w), option_map tk_supply (w_stsei w),
   nilb (all_delegations (w_env w) A_hub), delegated (w_env w) A_hub).
Proof. exact def_rd. Qed.

Theorem C04h_def_MinterOk : forall w, MinterOk w <->
  (forall t m cap, w_bsei w = Some t -> tk_minter t = Some (m, cap) -> m = A_hub) /\
  (forall t m cap, w_stsei w = Some t -> tk_minter t = Some (m, cap) -> m = A_hub).
Proof. exact def_MinterOk. Qed.

Theorem C04h_def_inert : forall s m, inert (s, m) =
  match m with
  | MWasm to wm _ =>
      if to =? A_hub then
        match wm with
        | WHub HBond | WHub HBondSt | WHub (HUpdateGlobal _) => false
        | WHub HBondRewards => negb (s =? A_disp)
        | WHub (HReceive _ _ hk) =>
            (match hk with HkJunk => true | _ => false end) || (negb (s =? A_bsei) && negb (s =? A_stsei))
        | _ => true
        end
      else if (to =? A_bsei) || (to =? A_stsei) then
        match wm with
        | WCw20 (CSend c _ hk) | WCw20 (CSendFrom _ c _ hk) =>
            negb (c =? A_hub) || (match hk with HkJunk => true | _ => false end)
        | WCw20 (CBurn _) | WCw20 (CMint _ _) | WCw20 (CUpdMinter _) => negb (s =? A_hub)
        | WCw20 (CBurnFrom _ _) => false
        | _ => true
        end
      else if to =? A_disp then match wm with WDisp DDispatch => false | _ => true end
      else if to =? A_reg then
        match wm with WReg (GRemove _) | WReg (GRedelegations _) => false | _ => true end
      else true
  | MDelegate _ _ | MUndelegate _ _ => negb (s =? A_hub)
  | _ => true
  end.
Proof. exact def_inert. Qed.

Theorem C04h_def_plain : forall m, plain m <->
  match m with
  | MWasm _ (WHub (HConfig _ _ _ _ _ _ _)) _ | MWasm _ (WReward (RConfig _ _ _)) _
  | MWasm _ (WDisp (DConfig _ _ _ _ _ _)) _ | MWasm _ (WReg (GConfig _)) _ => False
  | _ => True
  end.
Proof. exact def_plain. Qed.

Theorem C04h_def_covered_op : forall o, covered_op o <->
  (forall v num den unb, o <> OSlash v num den unb) /\
  (forall ut, o <> OReset ut) /\
  (forall a b c d e f g h, o <> OInstHub a b c d e f g h) /\
  (forall a b c d e, o <> OInstReward a b c d e) /\
  (forall a b c d e f g h i j, o <> OInstDisp a b c d e f g h i j) /\
  (forall a b c, o <> OInstReg a b c) /\
  (forall a b c, o <> OInstBsei a b c) /\
  (forall a b c d, o <> OInstStsei a b c d) /\
  (forall t m f, o <> OTx A_hub t m f).
Proof. exact covered_op_iff. Qed.

Theorem C04h_def_plain_op : forall o, plain_op o <->
  match o with
  | OTx _ _ wm _ =>
      (match wm with
       | WHub (HConfig _ _ _ _ _ _ _) | WReward (RConfig _ _ _) | WDisp (DConfig _ _ _ _ _ _)
       | WReg (GConfig _) => true
       | _ => false
       end) = false
  | _ => True
  end.
Proof. exact def_plain_op. Qed.

Theorem C04h_def_HistEnv : forall w, HistEnv w <-> Wired w /\ RateEnv w.
Proof. exact def_HistEnv. Qed.

(** * 1. the frame: the reported rates and pools depend on the world only through its rate data, and
    a synchronisation (CheckSlashing) does not change what is reported *)
Theorem C04h_rate_frame : forall w w',
  rd w' = rd w ->
  option_map rate4 (hub_query_state w' A_hub) = option_map rate4 (hub_query_state w A_hub) /\
  w_claims_b w' = w_claims_b w /\ w_claims_st w' = w_claims_st w.
Proof. exact ph_rate_frame. Qed.

Theorem C04h_check_slashing_reports_same : forall w h h1,
  w_hub w = Some h -> slashing w A_hub h = Some h1 ->
  option_map rate4 (hub_query_state (set_hub w h1) A_hub) = option_map rate4 (hub_query_state w A_hub) /\
  w_claims_b (set_hub w h1) = w_claims_b w /\ w_claims_st (set_hub w h1) = w_claims_st w.
Proof. exact ph_check_slashing_reports_same. Qed.

(** * 2. inert messages: one message (any sender), and whole forests *)
Theorem C04h_inert_message : forall w s m w1 out,
  Wired w -> EntWf w -> MinterOk w -> inert (s, m) = true -> step_msg w s m = Some (w1, out) ->
  (option_map rate4 (hub_query_state w1 A_hub) = option_map rate4 (hub_query_state w A_hub) /\
   w_claims_b w1 = w_claims_b w /\ w_claims_st w1 = w_claims_st w) /\
  EntWf w1 /\ MinterOk w1 /\ (plain m -> Wired w1) /\ Forall (fun x => inert x = true) out.
Proof. exact ph_inert_step. Qed.

Theorem C04h_inert_forest : forall w l w' n,
  Exec w l w' n -> Wired w -> EntWf w -> MinterOk w ->
  Forall (fun x => inert x = true) l -> Forall (fun sm => plain (snd sm)) l ->
  (Wired w' /\ EntWf w' /\ MinterOk w') /\
  option_map rate4 (hub_query_state w' A_hub) = option_map rate4 (hub_query_state w A_hub) /\
  w_claims_b w' = w_claims_b w /\ w_claims_st w' = w_claims_st w.
Proof. exact ph_inert_forest. Qed.

(** * 3. a pricing hub message with all its legs, from any sender, anywhere in a message tree *)
Theorem C04h_pricing_subtree : forall w s hm funds w1 out w2 n,
  Wired w -> EntWf w -> MinterOk w -> SoundRates w ->
  hm = HBond \/ hm = HBondSt \/ hm = HBondRewards \/ (exists u a hk, hm = HReceive u a hk) ->
  step_msg w s (MWasm A_hub (WHub hm) funds) = Some (w1, out) -> Exec w1 out w2 n ->
  (Wired w2 /\ EntWf w2 /\ MinterOk w2) /\
  (forall s0 s2, hub_query_state w A_hub = Some s0 -> hub_query_state w2 A_hub = Some s2 ->
     (0 < w_claims_b w2 -> hs_ber s0 <= hs_ber s2) /\ (0 < w_claims_st w2 -> hs_ser s0 <= hs_ser s2)) /\
  (w_claims_b w2 <= LIM -> w_claims_st w2 <= LIM -> 0 < w_claims_b w2 \/ 0 < w_claims_st w2 -> SoundRates w2).
Proof. exact ph_pricing_unit. Qed.

(** * 4. every root message not signed by the hub is inert or one of the active classes *)
Theorem C04h_root_cases : forall s to wm f,
  s <> A_hub ->
  inert (s, MWasm to wm f) = true \/
  (to = A_hub /\ exists hm, wm = WHub hm /\
     ((hm = HBond \/ hm = HBondSt \/ hm = HBondRewards \/ exists u a hk, hm = HReceive u a hk) \/
      exists n, hm = HUpdateGlobal n)) \/
  (to = A_bsei /\ exists cm, wm = WCw20 cm /\
     (((exists a hk, cm = CSend A_hub a hk) \/ (exists o a hk, cm = CSendFrom o A_hub a hk)) \/
      exists o a, cm = CBurnFrom o a)) \/
  (to = A_stsei /\ exists cm, wm = WCw20 cm /\
     (((exists a hk, cm = CSend A_hub a hk) \/ (exists o a hk, cm = CSendFrom o A_hub a hk)) \/
      exists o a, cm = CBurnFrom o a)) \/
  (to = A_disp /\ wm = WDisp DDispatch) \/
  (to = A_reg /\ exists gm, wm = WReg gm /\ exists v, gm = GRemove v \/ gm = GRedelegations v).
Proof. exact ph_root_cases. Qed.

(** * 5. ONE successful transaction, arbitrary root message (target, payload, funds), any signer but
    the hub: no reported rate is lower afterwards; the invariants hold again *)
Theorem C04h_tx_rate_monotone : forall w s to wm f w' tr,
  Wired w -> EntWf w -> MinterOk w -> SoundRates w ->
  (exists s0, hub_query_state w A_hub = Some s0) -> s <> A_hub ->
  run tx_fuel w [(s, MWasm to wm f)] [] = Some (w', tr) ->
  ((forall s0 s', hub_query_state w A_hub = Some s0 -> hub_query_state w' A_hub = Some s' ->
      (0 < w_claims_b w' -> hs_ber s0 <= hs_ber s') /\ (0 < w_claims_st w' -> hs_ser s0 <= hs_ser s')) /\
   (w_claims_b w' <= LIM -> w_claims_st w' <= LIM -> 0 < w_claims_b w' \/ 0 < w_claims_st w' -> SoundRates w')) /\
  EntWf w' /\ MinterOk w' /\
  ((match wm with
    | WHub (HConfig _ _ _ _ _ _ _) | WReward (RConfig _ _ _) | WDisp (DConfig _ _ _ _ _ _)
    | WReg (GConfig _) => true
    | _ => false
    end) = false -> Wired w').
Proof. exact ph_tx_step. Qed.

(** * 6. ONE operation of a history: the statement of the property *)
Theorem C04h_rate_monotone_op : forall w o s s',
  Wired w -> EntWf w -> MinterOk w -> SoundRates w -> covered_op o ->
  hub_query_state w A_hub = Some s -> hub_query_state (fst (step w o)) A_hub = Some s' ->
  (0 < w_claims_b (fst (step w o)) -> hs_ber s <= hs_ber s') /\
  (0 < w_claims_st (fst (step w o)) -> hs_ser s <= hs_ser s').
Proof. exact rate_monotone_op. Qed.

(** the hypotheses are re-established by the operation ([Wired] unless it is an UpdateConfig
    transaction; [SoundRates] within E1 as long as one of the tokens is in circulation) *)
Theorem C04h_op_invariants : forall w o,
  Wired w -> EntWf w -> MinterOk w -> SoundRates w ->
  (exists s0, hub_query_state w A_hub = Some s0) -> covered_op o ->
  EntWf (fst (step w o)) /\ MinterOk (fst (step w o)) /\ (plain_op o -> Wired (fst (step w o))) /\
  (w_claims_b (fst (step w o)) <= LIM -> w_claims_st (fst (step w o)) <= LIM ->
   0 < w_claims_b (fst (step w o)) \/ 0 < w_claims_st (fst (step w o)) -> SoundRates (fst (step w o))).
Proof. exact ph_op_invariants. Qed.

(** * 7. histories: any covered operations - any senders, targets, messages, amounts, failing
    transactions included -: while every visited world is wired and within E1 with both tokens in
    circulation, the rates the State query reports at the end are not below the ones at the start *)
Theorem C04h_rate_monotone_history : forall ops w s s',
  Forall covered_op ops -> EntWf w -> MinterOk w -> SoundRates w -> always HistEnv ops w ->
  hub_query_state w A_hub = Some s -> hub_query_state (run_ops ops w) A_hub = Some s' ->
  hs_ber s <= hs_ber s' /\ hs_ser s <= hs_ser s'.
Proof. exact rate_monotone_history_all. Qed.

(** ... hence the coin value floor(balance x rate) of a holder whose balance [a] did not change *)
Theorem C04h_coin_value_history : forall ops w s s' a,
  Forall covered_op ops -> EntWf w -> MinterOk w -> SoundRates w -> always HistEnv ops w ->
  hub_query_state w A_hub = Some s -> hub_query_state (run_ops ops w) A_hub = Some s' ->
  a * hs_ber s / D <= a * hs_ber s' / D /\ a * hs_ser s / D <= a * hs_ser s' / D.
Proof. exact coin_value_history. Qed.

(** * 8. re-bonding the staking rewards (UpdateGlobalIndex, any authorised sender, any number of
    airdrop hooks): both cw20 ledgers are literally unchanged - nothing is minted -, and no reported
    rate falls; the stSei rate only rises (how much: Props/C19.v) *)
Theorem C04h_update_global_index_no_mint : forall w sender n f w' tr s s',
  Wired w -> EntWf w -> MinterOk w -> SoundRates w ->
  run tx_fuel w [(sender, MWasm A_hub (WHub (HUpdateGlobal n)) f)] [] = Some (w', tr) ->
  hub_query_state w A_hub = Some s -> hub_query_state w' A_hub = Some s' ->
  w_bsei w' = w_bsei w /\ w_stsei w' = w_stsei w /\
  (0 < w_claims_st w' -> hs_ser s <= hs_ser s') /\ (0 < w_claims_b w' -> hs_ber s <= hs_ber s').
Proof. exact update_global_index_no_mint. Qed.

(** * 9. the excluded classes do lower rates: a slashing event (10 % of validator 0 in [world0] of
    Proofs/ExitWorld.v; [rx_s0] / [rx_sS] are the states reported before / after), and a cw20 Mint
    "signed" by the hub's own address *)
Theorem C04h_slash_lowers_rate_witness :
  ~ covered_op (OSlash 0 1 10 false) /\
  Wired world0 /\ EntWf world0 /\ SoundRates world0 /\
  hub_query_state world0 A_hub = Some rx_s0 /\
  fst (step world0 (OSlash 0 1 10 false)) = worldS /\
  hub_query_state worldS A_hub = Some rx_sS /\
  0 < w_claims_b worldS /\ 0 < w_claims_st worldS /\
  hs_ber rx_sS < hs_ber rx_s0 /\ hs_ser rx_sS < hs_ser rx_s0.
Proof. exact slash_lowers_rate_witness. Qed.

Theorem C04h_hub_signed_mint_witness :
  let o := OTx A_hub A_bsei (WCw20 (CMint alice 1000000)) [] in
  ~ covered_op o /\ fst (snd (step world0 o)) = true /\
  exists s', hub_query_state (fst (step world0 o)) A_hub = Some s' /\
    0 < w_claims_b (fst (step world0 o)) /\ hs_ber s' < hs_ber rx_s0.
Proof. exact hub_signed_mint_witness. Qed.

(** * 10. non-vacuity: a mixed history from the slashed world [worldS] (rates 0.9666.., peg fee on) *)
Theorem C04h_def_hx_ops : hx_ops =
  [ OAdvance 10;
    OAccrue 0 usei 50000;
    OAccrue 1 uusd 7000;
    OGift A_hub usei 123;
    OTx alice A_bsei (WCw20 (CTransfer bob 1000)) [];
    OTx bob A_stsei (WCw20 (CIncAllow alice 5000 None)) [];
    OTx alice A_stsei (WCw20 (CBurnFrom bob 500)) [];
    OTx alice A_bsei (WCw20 (CSend A_hub 3000 HkUnbond)) [];
    OAdvance 31;
    OTx bob A_stsei (WCw20 (CSend A_hub 4000 HkUnbond)) [];
    OTx updater A_hub (WHub (HUpdateGlobal 0)) [];
    OTx alice A_hub (WHub HBond) [(usei, 500000)];
    OTx bob A_hub (WHub HCheckSlashing) [];
    OTx bob A_stsei (WCw20 (CSend A_hub 1000 HkConvert)) [];
    OAdvance 200;
    OTx alice A_hub (WHub HWithdraw) [];
    OTx A_owner A_reg (WReg (GRemove 2)) [];
    OTx bob A_reg (WReg (GRedelegations 2)) [];
    OSetPrice 5; OSwapMode SwFail; OOracleMode OrZero; OCanRedel 1 false;
    OTx A_owner A_hub (WHub (HParams None None (Some 0) None None None)) [];
    OLegacyWait alice 1 5;
    OTx alice A_hub (WHub HBondRewards) [(usei, 5)];
    OTx alice A_bsei (WCw20 (CMint alice 1000000)) [] ].
Proof. exact def_hx_ops. Qed.

Theorem C04h_def_op_flags : forall ops w, op_flags ops w =
  match ops with [] => [] | o :: r => fst (snd (step w o)) :: op_flags r (fst (step w o)) end.
Proof. exact def_op_flags. Qed.

(** every hypothesis of the history theorem holds; the first 24 operations succeed (transfer,
    allowance, BurnFrom, both Unbonds - the second closes the batch and undelegates -,
    UpdateGlobalIndex, Bond, CheckSlashing, Convert, WithdrawUnbonded, RemoveValidator with its
    redelegations and index update, ...), a BondRewards and a Mint sent by a user are rejected; both
    rates end strictly higher *)
Theorem C04h_example_history :
  Forall covered_op hx_ops /\ EntWf worldS /\ MinterOk worldS /\ SoundRates worldS /\
  always HistEnv hx_ops worldS /\
  hub_query_state worldS A_hub = Some rx_sS /\
  op_flags hx_ops worldS = repeat true 24 ++ [false; false] /\
  exists s', hub_query_state (run_ops hx_ops worldS) A_hub = Some s' /\
    hs_ber rx_sS < hs_ber s' /\ hs_ser rx_sS < hs_ser s'.
Proof. exact hist_nonvacuous. Qed.

Theorem C04h_example_by_theorem : forall s',
  hub_query_state (run_ops hx_ops worldS) A_hub = Some s' ->
  hs_ber rx_sS <= hs_ber s' /\ hs_ser rx_sS <= hs_ser s'.
Proof. exact hist_example_by_theorem. Qed.

Print Assumptions C04h_def_rate4.
Print Assumptions C04h_def_nilb.
Print Assumptions C04h_def_rd.
Print Assumptions C04h_def_MinterOk.
Print Assumptions C04h_def_inert.
Print Assumptions C04h_def_plain.
Print Assumptions C04h_def_covered_op.
Print Assumptions C04h_def_plain_op.
Print Assumptions C04h_def_HistEnv.
Print Assumptions C04h_rate_frame.
Print Assumptions C04h_check_slashing_reports_same.
Print Assumptions C04h_inert_message.
Print Assumptions C04h_inert_forest.
Print Assumptions C04h_pricing_subtree.
Print Assumptions C04h_root_cases.
Print Assumptions C04h_tx_rate_monotone.
Print Assumptions C04h_rate_monotone_op.
Print Assumptions C04h_op_invariants.
Print Assumptions C04h_rate_monotone_history.
Print Assumptions C04h_coin_value_history.
Print Assumptions C04h_update_global_index_no_mint.
Print Assumptions C04h_slash_lowers_rate_witness.
Print Assumptions C04h_hub_signed_mint_witness.
Print Assumptions C04h_def_hx_ops.
Print Assumptions C04h_def_op_flags.
Print Assumptions C04h_example_history.
Print Assumptions C04h_example_by_theorem.
