(** C10 — Privileged operations are rejected for every unauthorised sender.
    Property theorems only (proofs: Proofs/Auth.v, Proofs/HubAdmin.v).  Each theorem says: if the
    handler accepts the message then the sender is the designated principal, as read from the
    contract's own stored configuration — for EVERY state (no reachability hypothesis), hence in
    fresh and evolved states and after completed or abandoned ownership transfers.  A transaction
    whose root call is rejected leaves the whole world unchanged. *)
From Krp Require Import Tactics Prelude Fixed FMap Types Env Registry Cw20 Reward Dispatcher Hub Exec
     HubFrame HubAdmin Auth.
Open Scope N_scope.

Theorem C10_hub : forall w h self sender funds m h' out,
  hub_execute w h self sender funds m = Some (h', out) ->
  match m with
  | HConfig _ _ _ _ _ _ _ | HParams _ _ _ _ _ _ | HSetOwner _ => sender = hc_creator (h_cfg h)
  | HAccept => sender = h_newowner h
  | HBondRewards => hc_disp (h_cfg h) = Some sender
  | HRedelProxy _ _ => hc_reg (h_cfg h) = Some sender
  | HUpdateGlobal _ => sender = hc_updater (h_cfg h) \/ hc_reg (h_cfg h) = Some sender
  | HSwapHook _ _ => sender = self
  | HClaimAirdrop _ _ _ => hc_airdrop (h_cfg h) = Some sender
  | HReceive _ _ _ => hc_bsei (h_cfg h) = Some sender \/ hc_stsei (h_cfg h) = Some sender
  | _ => True
  end.
Proof. exact auth_hub. Qed.

Theorem C10_dispatcher : forall w dp self sender m dp' out,
  disp_execute w dp self sender m = Some (dp', out) ->
  match m with
  | DSwap _ _ | DDispatch => sender = dp_hub dp
  | DAccept => sender = dp_newowner dp
  | _ => sender = dp_owner dp
  end.
Proof. exact auth_disp. Qed.

Theorem C10_reward : forall w r self sender m r' out,
  reward_execute w r self sender m = Some (r', out) ->
  match m with
  | RConfig _ _ _ | RSetOwner _ | RSwapDenom _ _ => sender = rw_owner r
  | RAccept => sender = rw_newowner r
  | RSwap | RUpdateIndex => query_dispatcher_addr w (rw_hub r) = Some sender
  | RInc _ _ | RDec _ _ => query_bsei_addr w (rw_hub r) = Some sender
  | RClaim _ => True
  end.
Proof. exact auth_reward. Qed.

Theorem C10_registry : forall w g sender m g' out,
  reg_execute w g sender m = Some (g', out) ->
  match m with
  | GAdd _ => sender = rg_owner g \/ sender = rg_hub g
  | GRemove _ | GConfig _ | GSetOwner _ => sender = rg_owner g
  | GAccept => sender = rg_newowner g
  | GRedelegations _ => True
  end.
Proof. exact auth_reg. Qed.

Theorem C10_bsei_token : forall w t sender m t' out,
  bsei_execute w t sender m = Some (t', out) ->
  match m with
  | CMint _ _ => exists cap, tk_minter t = Some (sender, cap)
  | CBurn _ => sender = tk_hub t
  | _ => True
  end.
Proof. exact auth_bsei. Qed.

Theorem C10_stsei_token : forall w t sender m t' out,
  stsei_execute w t sender m = Some (t', out) ->
  match m with
  | CMint _ _ => exists cap, tk_minter t = Some (sender, cap)
  | CBurn _ => sender = tk_hub t
  | CUpdMinter _ => exists cap, tk_minter t = Some (sender, cap)
  | _ => True
  end.
Proof. exact auth_stsei. Qed.

(** two-step ownership of the hub: only the current owner nominates, only the nominee accepts,
    and accepting makes exactly the nominee the owner *)
Theorem C10_hub_set_owner : forall w h self sender funds a h' out,
  hub_execute w h self sender funds (HSetOwner a) = Some (h', out) ->
  paused h = false /\ sender = hc_creator (h_cfg h) /\ h' = set_h_newowner h a /\ out = [].
Proof. exact hub_set_owner_spec. Qed.

Theorem C10_hub_accept : forall w h self sender funds h' out,
  hub_execute w h self sender funds HAccept = Some (h', out) ->
  paused h = false /\ sender = h_newowner h /\ hc_creator (h_cfg h') = h_newowner h /\
  h_newowner h' = h_newowner h /\ out = [].
Proof. exact hub_accept_spec. Qed.

(** the bSei and stSei token addresses cannot be changed once set *)
Theorem C10_token_addr_immutable : forall h sender a b c d e f g h' out x,
  execute_update_config h sender a b c d e f g = Some (h', out) ->
  (hc_bsei (h_cfg h) = Some x -> hc_bsei (h_cfg h') = Some x) /\
  (hc_stsei (h_cfg h) = Some x -> hc_stsei (h_cfg h') = Some x).
Proof. exact token_addr_immutable. Qed.

(** ... and no other hub message touches the stored config, parameters or nominee *)
Theorem C10_hub_static : forall w h self sender funds m h' out,
  hub_execute w h self sender funds m = Some (h', out) -> is_admin_msg m = false -> static_eq h h'.
Proof. exact hub_execute_static. Qed.

(** a rejected transaction changes nothing; a rejected root call rejects the transaction *)
Theorem C10_rejected_changes_nothing : forall w sender target m funds w' tr,
  step w (OTx sender target m funds) = (w', (false, tr)) -> w' = w /\ tr = [].
Proof. exact tx_rejected_unchanged. Qed.

Theorem C10_root_rejected : forall w sender target m funds,
  (forall e1, send_coins (w_env w) sender target funds = Some e1 ->
              call (set_env w e1) sender target m funds = None) ->
  step w (OTx sender target m funds) = (w, (false, [])).
Proof. exact tx_root_rejected. Qed.

Print Assumptions C10_hub.
Print Assumptions C10_dispatcher.
Print Assumptions C10_reward.
Print Assumptions C10_registry.
Print Assumptions C10_bsei_token.
Print Assumptions C10_stsei_token.
Print Assumptions C10_hub_set_owner.
Print Assumptions C10_hub_accept.
Print Assumptions C10_token_addr_immutable.
Print Assumptions C10_hub_static.
Print Assumptions C10_rejected_changes_nothing.
Print Assumptions C10_root_rejected.
