(** C12 / C13 (and the undelegation clause of C09w) are NON-VACUOUS at the full size of the modelled
    chain, twelve validators.  Example facts only, restated in full; proofs (all by [vm_compute] on one
    concrete world, plus instantiation of the general theorems of Props/C12.v, C13.v, C13w.v, C09w.v) are in
    Proofs/TwelveEx.v.

    Two seeded defects showed only beyond seven / ten validators (a redelegation list truncated to 7
    entries; an undelegation plan over the ten most-delegated validators only).  Here: a delegation plan
    touching twelve validators, an undelegation plan taking from twelve, a RemoveValidator transaction whose
    redelegation list has eleven entries, and an unbond that sends twelve Undelegate messages.

    Vocabulary: [world12] = NOTATION for [run_ops t12_ops (empty_world 100)]; [t12_after] / [t12_trace] =
    NOTATIONS for the final world / executed messages of [step world12 t12_rm_op] (C13v_def_notations);
    everything else named [t12_*] is a constant whose value is restated in C13v_def_ops / C13v_def_values /
    C13v_def_vectors.  Predicates and functions are those of Props/C12.v, C13.v, C13w.v, C09w.v. *)
From Krp Require Import Tactics Prelude Fixed FMap Types Env Registry Cw20 Reward Dispatcher Hub Exec
     ExecP Hist Inv RegistryP DispatcherP HubFrame HubAdmin BooksEnv BooksHub BooksP RemoveP RemoveEnd
     IndexRun IndexEnv IndexHandlers IndexSwap IndexPhases IndexP RemoveTx MirrorP ExitTx TwelveEx.
Open Scope N_scope.

(** * 0. vocabulary.  [world12], [t12_after], [t12_trace] are NOTATIONS of Proofs/TwelveEx.v; the first theorem
    pins down what they stand for (its two sides are syntactically equal exactly because of that) *)

Theorem C13v_def_notations :
  world12 = run_ops t12_ops (empty_world 100) /\
  t12_after = fst (step (run_ops t12_ops (empty_world 100)) t12_rm_op) /\
  t12_trace = snd (snd (step (run_ops t12_ops (empty_world 100)) t12_rm_op)).
Proof. exact t12_def_notations. Qed.

(** the operations building [world12] from [empty_world 100] (chain unbonding time 100 s) *)
Theorem C13v_def_ops :
  t12_ops =
  [ OGift 14 usei 10000000; OGift 15 usei 10000000;
    OInstHub 10 30 100 5000000000000000 D 11 usei uusd;
    OInstReward 10 A_hub uusd A_swap [uatom; usei];
    OInstDisp 10 A_hub A_reward usei uusd 12 50000000000000000 A_swap A_oracle [uatom; usei; uusd];
    OInstReg 10 A_hub [0; 1; 2; 3; 4; 5; 6; 7; 8; 9; 10; 11];
    OInstBsei 10 A_hub [];
    OInstStsei 10 A_hub 2 [];
    OTx 10 A_hub (WHub (HConfig (Some A_disp) (Some A_reg) (Some A_bsei) (Some A_stsei)
                                (Some A_airdrop) (Some A_reward) None)) [];
    OTx 14 A_hub (WHub HBond) [(usei, 1000007)];
    OTx 15 A_hub (WHub HBondSt) [(usei, 2000000)];
    OSlash 3 1 10 false;
    OTx 14 A_hub (WHub HCheckSlashing) [];
    OTx 15 A_hub (WHub HBond) [(usei, 5)];
    OTx 14 A_hub (WHub HBondSt) [(usei, 300)];
    OAccrue 0 usei 50000; OAccrue 9 uusd 7000;
    OAdvance 31 ].
Proof. exact t12_def_ops. Qed.

(** registry state, the two example transactions, the plans and message lists named below;
    [t12_nonzero l] = number of non-zero entries of [l] *)
Theorem C13v_def_values :
  t12_reg = mkReg 10 A_hub [0; 1; 2; 3; 4; 5; 6; 7; 8; 9; 10; 11] 10 /\
  t12_rm_op = OTx 10 A_reg (WReg (GRemove 9)) [] /\
  t12_unb_op = OTx 15 A_stsei (WCw20 (CSend A_hub 1200000 HkUnbond)) [] /\
  (forall l, t12_nonzero l = length (filter (fun x => negb (x =? 0)) l)) /\
  t12_xs = [105971; 81276; 81276; 81276; 81276; 81276; 81275; 81275; 81275; 81275; 81275; 81274] /\
  t12_ys = [101225; 101225; 101225; 101225; 101225; 101225; 101224; 101224; 101224; 101224; 101224; 76530] /\
  t12_dl = [45178; 20483; 20483; 20483; 20483; 20482; 20482; 20482; 20482; 20481; 20481] /\
  t12_redels =
    [(3, (usei, 45178)); (6, (usei, 20483)); (7, (usei, 20483)); (8, (usei, 20483)); (10, (usei, 20483));
     (0, (usei, 20482)); (1, (usei, 20482)); (2, (usei, 20482)); (4, (usei, 20482));
     (5, (usei, 20481)); (11, (usei, 20481))] /\
  t12_und =
    [MUndelegate 0 (usei, 101225); MUndelegate 1 (usei, 101225); MUndelegate 2 (usei, 101225);
     MUndelegate 4 (usei, 101225); MUndelegate 5 (usei, 101225); MUndelegate 11 (usei, 101225);
     MUndelegate 6 (usei, 101224); MUndelegate 7 (usei, 101224); MUndelegate 8 (usei, 101224);
     MUndelegate 9 (usei, 101224); MUndelegate 10 (usei, 101224); MUndelegate 3 (usei, 76530)].
Proof. exact t12_def_values. Qed.

(** the delegation vectors exactly as the contract code passes them to [deleg] / [undeleg]: ascending
    (registry query) for bonds, descending ([pick_validator]) for unbonds, ascending over the eleven
    remaining validators for the removal of validator 9 *)
Theorem C13v_def_vectors :
  t12_ds_asc = map snd (sort_asc (reg_query_validators world12 t12_reg)) /\
  t12_ds_desc = map snd (sort_desc (all_delegations (w_env world12) A_hub)) /\
  t12_ds11 = map snd (sort_asc (reg_query_validators world12
                                  (set_rg_vals t12_reg (remove_val 9 (rg_vals t12_reg))))).
Proof. exact t12_def_vectors. Qed.

(** * 1. the world: ALL TWELVE validators registered, unequal delegations (validator 3 slashed by 10 %, the
    slash booked), both tokens in circulation, rewards pending on validators 0 and 9, epoch period over *)

Theorem C13v_world_facts :
  w_reg world12 = Some t12_reg /\ rg_vals t12_reg = VALS /\ length (rg_vals t12_reg) = 12%nat /\
  all_delegations (w_env world12) A_hub =
    [(0, 250001); (1, 250001); (2, 250001); (3, 225305); (4, 250001); (5, 250001);
     (6, 250000); (7, 250000); (8, 250000); (9, 250000); (10, 250000); (11, 250001)] /\
  delegated (w_env world12) A_hub = 2975311 /\
  option_map booked (w_hub world12) = Some 2975311 /\
  option_map (fun h => (hs_bb (h_state h), hs_bst (h_state h))) (w_hub world12) = Some (991678, 1983633) /\
  option_map tk_supply (w_bsei world12) = Some 1000012 /\
  option_map tk_supply (w_stsei world12) = Some 2000302 /\
  pending (w_env world12) A_hub 0 usei = 50000 /\ pending (w_env world12) A_hub 9 uusd = 7000 /\
  e_now (w_env world12) = 1000031.
Proof. exact t12_world_facts. Qed.

(** the delegation table of a world built by operations is well formed *)
Theorem C13v_world12_delwf : DelWf (w_env world12).
Proof. exact world12_delwf. Qed.

Theorem C13v_ds_asc_val :
  map fst (sort_asc (reg_query_validators world12 t12_reg)) = [3; 6; 7; 8; 9; 10; 0; 1; 2; 4; 5; 11] /\
  t12_ds_asc = [225305; 250000; 250000; 250000; 250000; 250000; 250001; 250001; 250001; 250001; 250001; 250001].
Proof. exact t12_ds_asc_val. Qed.

Theorem C13v_ds_desc_val :
  map fst (sort_desc (all_delegations (w_env world12) A_hub)) = [0; 1; 2; 4; 5; 11; 6; 7; 8; 9; 10; 3] /\
  t12_ds_desc = [250001; 250001; 250001; 250001; 250001; 250001; 250000; 250000; 250000; 250000; 250000; 225305].
Proof. exact t12_ds_desc_val. Qed.

Theorem C13v_ds11_val :
  map fst (sort_asc (reg_query_validators world12 (set_rg_vals t12_reg (remove_val 9 (rg_vals t12_reg)))))
    = [3; 6; 7; 8; 10; 0; 1; 2; 4; 5; 11] /\
  t12_ds11 = [225305; 250000; 250000; 250000; 250000; 250001; 250001; 250001; 250001; 250001; 250001].
Proof. exact t12_ds11_val. Qed.

(** * 2. C12 at size twelve *)

(** the hypotheses of C12_deleg_total for 1 000 000 usei on the twelve delegations ... *)
Theorem C13v_deleg_hyps : t12_ds_asc <> [] /\ sumN t12_ds_asc + 1000000 <= U128MAX.
Proof. exact t12_deleg_hyps. Qed.

(** ... its conclusion ... *)
Theorem C13v_deleg_total_applied :
  exists xs, deleg 1000000 t12_ds_asc = Some (0, xs) /\ length xs = length t12_ds_asc /\ sumN xs = 1000000.
Proof. exact t12_deleg_total_applied. Qed.

(** ... the plan, explicitly ... *)
Theorem C13v_deleg_plan : deleg 1000000 t12_ds_asc = Some (0, t12_xs).
Proof. exact t12_deleg_plan. Qed.

(** ... the conclusion of C12_deleg_bounds for it ... *)
Theorem C13v_deleg_bounds_applied :
  let T := sumN t12_ds_asc + 1000000 in let n := len t12_ds_asc in
  forall j, (j < length t12_ds_asc)%nat ->
    (even_target T n (N.of_nat j) < nth j t12_ds_asc 0 -> nth j t12_xs 0 = 0) /\
    (0 < nth j t12_xs 0 -> nth j t12_ds_asc 0 + nth j t12_xs 0 <= even_target T n (N.of_nat j)) /\
    even_target T n (N.of_nat j) <= T / n + 1.
Proof. exact t12_deleg_bounds_applied. Qed.

(** ... it touches ALL TWELVE validators (more than the seven of the seeded truncation defect), sums to the
    amount and levels every delegation to the even share 331 275 (+1 for the first eleven) *)
Theorem C13v_deleg_plan_facts :
  length t12_xs = 12%nat /\ t12_nonzero t12_xs = 12%nat /\ (7 < t12_nonzero t12_xs)%nat /\
  sumN t12_xs = 1000000 /\
  sumN t12_ds_asc + 1000000 = 3975311 /\ 3975311 / 12 = 331275 /\ 3975311 mod 12 = 11 /\
  map (fun p => fst p + snd p) (combine t12_ds_asc t12_xs) =
    [331276; 331276; 331276; 331276; 331276; 331276; 331276; 331276; 331276; 331276; 331276; 331275].
Proof. exact t12_deleg_plan_facts. Qed.

(** 24 000 usei go to the slashed validator only: the other eleven are above the even share (first clause
    of C12_deleg_bounds, non-trivially) *)
Theorem C13v_deleg_small_plan :
  sumN t12_ds_asc + 24000 <= U128MAX /\
  deleg 24000 t12_ds_asc = Some (0, [24000; 0; 0; 0; 0; 0; 0; 0; 0; 0; 0; 0]) /\
  even_target (sumN t12_ds_asc + 24000) 12 1 = 249943.
Proof. exact t12_deleg_small_plan. Qed.

(** the hypotheses of C12_undeleg_total for 1 190 000 usei ... *)
Theorem C13v_undeleg_hyps :
  t12_ds_desc <> [] /\ 1190000 <= sumN t12_ds_desc /\ sumN t12_ds_desc <= U128MAX.
Proof. exact t12_undeleg_hyps. Qed.

(** ... its conclusion ... *)
Theorem C13v_undeleg_total_applied :
  exists ys, undeleg 1190000 t12_ds_desc = Some ys /\ length ys = length t12_ds_desc /\ sumN ys = 1190000 /\
    forall j, (j < length t12_ds_desc)%nat ->
      nth j ys 0 <= nth j t12_ds_desc 0 /\
      (0 < nth j ys 0 -> (sumN t12_ds_desc - 1190000) / len t12_ds_desc <= nth j t12_ds_desc 0 - nth j ys 0).
Proof. exact t12_undeleg_total_applied. Qed.

(** ... the plan, explicitly ... *)
Theorem C13v_undeleg_plan : undeleg 1190000 t12_ds_desc = Some t12_ys.
Proof. exact t12_undeleg_plan. Qed.

(** ... it takes from ALL TWELVE validators (more than the ten of the seeded top-ten defect) and leaves the even
    share 148 775 (+1) everywhere *)
Theorem C13v_undeleg_plan_facts :
  length t12_ys = 12%nat /\ t12_nonzero t12_ys = 12%nat /\ (10 < t12_nonzero t12_ys)%nat /\
  sumN t12_ys = 1190000 /\ (sumN t12_ds_desc - 1190000) / 12 = 148775 /\
  map (fun p => fst p - snd p) (combine t12_ds_desc t12_ys) =
    [148776; 148776; 148776; 148776; 148776; 148776; 148776; 148776; 148776; 148776; 148776; 148775].
Proof. exact t12_undeleg_plan_facts. Qed.

(** the plan of the removal (C12_deleg_total on eleven validators): 250 000 usei, ELEVEN non-zero parts *)
Theorem C13v_redel_plan_hyps : t12_ds11 <> [] /\ sumN t12_ds11 + 250000 <= U128MAX.
Proof. exact t12_redel_plan_hyps. Qed.

Theorem C13v_redel_plan :
  deleg 250000 t12_ds11 = Some (0, t12_dl) /\
  length t12_dl = 11%nat /\ t12_nonzero t12_dl = 11%nat /\ sumN t12_dl = 250000.
Proof. exact t12_redel_plan. Qed.

(** * 3. C13 at size twelve: the registry owner (10) removes validator 9, which holds 250 000 usei *)

(** the transaction succeeds *)
Theorem C13v_remove_run :
  run tx_fuel world12 [(10, MWasm A_reg (WReg (GRemove 9)) [])] [] = Some (t12_after, t12_trace).
Proof. exact t12_remove_run. Qed.

(** every hypothesis of C13_remove_tx_decompose, C13_remove_tx_end and C13_remove_tx_gap holds *)
Theorem C13v_remove_basic_hyps :
  DelWf (w_env world12) /\ w_reg world12 = Some t12_reg /\ rg_hub t12_reg = A_hub /\
  delegation (w_env world12) A_hub 9 = Some 250000 /\ can_redelegate (w_env world12) 9 = true /\
  run tx_fuel world12 [(10, MWasm A_reg (WReg (GRemove 9)) [])] [] = Some (t12_after, t12_trace) /\
  exists h h', w_hub world12 = Some h /\ hp_underlying (h_params h) = usei /\
    booked h <= delegated (w_env world12) A_hub /\ w_hub t12_after = Some h'.
Proof. exact t12_remove_basic_hyps. Qed.

(** conclusion of C13_remove_tx_decompose: the plan sums to the whole stake, on registered targets *)
Theorem C13v_remove_decompose_applied :
  exists g' redels w2 fuel2,
    10 = rg_owner t12_reg /\ rg_vals g' = remove_val 9 (rg_vals t12_reg) /\ ~ In 9 (rg_vals g') /\
    rg_vals g' <> [] /\ rg_hub g' = A_hub /\
    redel_total redels = 250000 /\
    (forall dst c, In (dst, c) redels -> In dst (rg_vals g') /\ fst c = usei /\ 0 < snd c) /\
    w_reg w2 = Some g' /\ same_contracts_but_reg world12 w2 /\ DelWf (w_env w2) /\
    dv (w_env w2) A_hub 9 = 0 /\ (0 < 250000 -> delegation (w_env w2) A_hub 9 = None) /\
    (forall d, d <> 9 -> dv (w_env w2) A_hub d = dv (w_env world12) A_hub d + amt_to d redels) /\
    delegated (w_env w2) A_hub = delegated (w_env world12) A_hub /\
    run fuel2 w2 [(A_reg, MWasm A_hub (WHub (HUpdateGlobal 0)) [])]
        ((10, MWasm A_reg (WReg (GRemove 9)) [])
         :: (A_reg, MWasm A_hub (WHub (HRedelProxy 9 redels)) []) :: redel_stack 9 redels)
      = Some (t12_after, t12_trace).
Proof. exact t12_remove_decompose_applied. Qed.

(** conclusion of C13_remove_tx_end: nothing left on the removed validator at the end *)
Theorem C13v_remove_end_applied :
  exists g',
    10 = rg_owner t12_reg /\ w_reg t12_after = Some g' /\ rg_vals g' = remove_val 9 (rg_vals t12_reg) /\
    ~ In 9 (rg_vals g') /\ rg_vals g' <> [] /\
    dv (w_env t12_after) A_hub 9 = 0 /\ (0 < 250000 -> delegation (w_env t12_after) A_hub 9 = None).
Proof. exact t12_remove_end_applied. Qed.

(** conclusion of C13_remove_tx_gap: delegated - booked unchanged *)
Theorem C13v_remove_gap_applied : forall h h',
  w_hub world12 = Some h -> w_hub t12_after = Some h' ->
  booked h' <= delegated (w_env t12_after) A_hub /\
  delegated (w_env t12_after) A_hub - booked h' = delegated (w_env world12) A_hub - booked h.
Proof. exact t12_remove_gap_applied. Qed.

(** the executed transaction explicitly: the redelegation list has ELEVEN entries (the plan [t12_dl] over the
    eleven remaining validators in ascending order of stake) summing to validator 9's whole delegation;
    they are the 3rd..13th executed messages, the appended UpdateGlobalIndex is the 14th; validator 9 is
    unregistered and holds nothing; 36 101 usei of rewards were re-bonded on both sides of the books, so
    delegated - booked is unchanged; dispatcher emptied, keeper and reward contract paid *)
Theorem C13v_remove_result :
  fst (snd (step world12 t12_rm_op)) = true /\
  length t12_redels = 11%nat /\ redel_total t12_redels = 250000 /\
  t12_redels = redels_of (sort_asc (reg_query_validators world12
                  (set_rg_vals t12_reg (remove_val 9 (rg_vals t12_reg))))) t12_dl /\
  map fst t12_redels = [3; 6; 7; 8; 10; 0; 1; 2; 4; 5; 11] /\
  firstn 13 t12_trace =
    (10, MWasm A_reg (WReg (GRemove 9)) [])
    :: (A_reg, MWasm A_hub (WHub (HRedelProxy 9 t12_redels)) []) :: redel_stack 9 t12_redels /\
  nth 13 t12_trace (0, MBank 0 []) = (A_reg, MWasm A_hub (WHub (HUpdateGlobal 0)) []) /\
  length t12_trace = 44%nat /\
  option_map rg_vals (w_reg t12_after) = Some [0; 1; 2; 3; 4; 5; 6; 7; 8; 10; 11] /\
  all_delegations (w_env t12_after) A_hub =
    [(0, 273765); (1, 273765); (2, 273765); (3, 273765); (4, 273765); (5, 273765);
     (6, 273765); (7, 273764); (8, 273764); (10, 273764); (11, 273765)] /\
  delegation (w_env t12_after) A_hub 9 = None /\ dv (w_env t12_after) A_hub 9 = 0 /\
  delegated (w_env t12_after) A_hub = 2975311 + 36101 /\
  option_map booked (w_hub t12_after) = Some (2975311 + 36101) /\
  option_map (fun h => delegated (w_env t12_after) A_hub - booked h) (w_hub t12_after) =
    option_map (fun h => delegated (w_env world12) A_hub - booked h) (w_hub world12) /\
  bal (w_env t12_after) A_disp uusd = 0 /\ bal (w_env t12_after) A_disp usei = 0 /\
  bal (w_env t12_after) 12 uusd = 949 /\ bal (w_env t12_after) 12 usei = 1900 /\
  bal (w_env t12_after) A_reward uusd = 18050.
Proof. exact t12_remove_result. Qed.

(** between the redelegations and the appended index update: every remaining validator holds what it held
    plus its entry of the list, the total is unchanged, the pending rewards were paid to the dispatcher *)
Theorem C13v_remove_mid_result :
  exists w2, remove_mid world12 10 9 = Some w2 /\
    all_delegations (w_env w2) A_hub =
      [(0, 270483); (1, 270483); (2, 270483); (3, 270483); (4, 270483); (5, 270482);
       (6, 270483); (7, 270483); (8, 270483); (10, 270483); (11, 270482)] /\
    delegated (w_env w2) A_hub = 2975311 /\
    map (fun v => dv (w_env world12) A_hub v + amt_to v t12_redels) [0; 1; 2; 3; 4; 5; 6; 7; 8; 10; 11] =
      map (dv (w_env w2) A_hub) [0; 1; 2; 3; 4; 5; 6; 7; 8; 10; 11] /\
    bal (w_env w2) A_disp uusd = 7000 /\ bal (w_env w2) A_disp usei = 50000.
Proof. exact t12_remove_mid_result. Qed.

(** every hypothesis of C13w_remove_tx_effect / C13w_remove_tx_succeeds holds ([RemoveHyps] of
    Proofs/RemoveTx.v, written out) *)
Theorem C13v_remove_hyps :
  exists h r dp g tb ts,
    let w := world12 in
    Wired w /\ RewardWired w /\ RewardsToDispatcher w /\ IndexWiring w /\ StubsOk (w_env w) /\
    IndexE1 w /\ RemoveE1 w /\ RewardSolvent w /\ HubReady w A_reg /\ DelWf (w_env w) /\
    w_hub w = Some h /\ w_reward w = Some r /\ w_disp w = Some dp /\ w_reg w = Some g /\
    w_bsei w = Some tb /\ w_stsei w = Some ts /\
    10 = rg_owner g /\ remove_val 9 (rg_vals g) <> [] /\
    delegation (w_env w) A_hub 9 = Some 250000 /\ can_redelegate (w_env w) 9 = true.
Proof. exact t12_remove_hyps. Qed.

(** the intermediate and pre-dispatch worlds exist; the pre-dispatch balances are within E1 and outside the
    class of finding F2 *)
Theorem C13v_remove_predispatch :
  exists w2 w1,
    remove_mid world12 10 9 = Some w2 /\ pre_dispatch w2 A_reg = Some w1 /\
    bal (w_env w1) A_disp uusd = 18999 /\ bal (w_env w1) A_disp usei = 38001 /\
    18999 <= LIM /\ 38001 <= LIM /\ ~ Known_F2 50000000000000000 18999 38001 /\
    38001 - 38001 * 50000000000000000 / D = 36101.
Proof. exact t12_remove_predispatch. Qed.

(** conclusion of C13w_remove_tx_succeeds (the COMPLETE transaction including the appended
    UpdateGlobalIndex), obtained from the theorem *)
Theorem C13v_remove_succeeds_applied :
  exists h r dp g tb ts,
    w_hub world12 = Some h /\ w_reward world12 = Some r /\ w_disp world12 = Some dp /\
    w_reg world12 = Some g /\ w_bsei world12 = Some tb /\ w_stsei world12 = Some ts /\
    dp_rate dp = 50000000000000000 /\ dp_bd dp = uusd /\
    booked h <= delegated (w_env world12) A_hub /\
    exists w' tr,
      step world12 (OTx 10 A_reg (WReg (GRemove 9)) []) = (w', (true, tr)) /\
      (exists gr, w_reg w' = Some gr /\ rg_vals gr = remove_val 9 (rg_vals g) /\ ~ In 9 (rg_vals gr) /\
                  rg_vals gr <> []) /\
      dv (w_env w') A_hub 9 = 0 /\ (0 < 250000 -> delegation (w_env w') A_hub 9 = None) /\
      delegated (w_env w') A_hub = delegated (w_env world12) A_hub + 36101 /\
      (forall s src dst c, In (s, MRedelegate src dst c) tr -> s = A_hub -> src = 9 /\ dst <> 9) /\
      w_bsei w' = Some tb /\ w_stsei w' = Some ts /\
      (exists h', w_hub w' = Some h' /\ h_batch h' = h_batch h /\ h_wait h' = h_wait h /\ h_hist h' = h_hist h /\
         (booked h <= delegated (w_env world12) A_hub ->
            booked h' = booked h + 36101 /\
            delegated (w_env w') A_hub - booked h' = delegated (w_env world12) A_hub - booked h)) /\
      bal (w_env w') A_disp uusd = 0 /\ bal (w_env w') A_disp usei = 0 /\
      (forall d, bal (w_env w') A_hub d = bal (w_env world12) A_hub d).
Proof. exact t12_remove_succeeds_applied. Qed.

(** * 4. C09w at size twelve: user 15 unbonds 1 200 000 stSei, the batch closes, 1 190 000 usei are undelegated *)

(** the hypotheses of C09w_undelegations_execute: the plan has TWELVE messages (more than ten) *)
Theorem C13v_pick :
  exists h, w_hub world12 = Some h /\ hp_underlying (h_params h) = usei /\
    pick_validator world12 A_hub h 1190000 = Some t12_und /\
    length t12_und = 12%nat /\ (10 < length t12_und)%nat /\ usum t12_und = 1190000.
Proof. exact t12_pick. Qed.

(** its conclusion: all twelve execute, message count <= length VALS *)
Theorem C13v_undelegations_execute_applied :
  exists e',
    Exec world12 (tag A_hub t12_und) (set_env world12 e') (length t12_und) /\
    (length t12_und <= length VALS)%nat /\
    DelWf e' /\
    delegated e' A_hub + 1190000 = delegated (w_env world12) A_hub /\ usum t12_und = 1190000 /\
    e_unb e' = e_unb (w_env world12) ++ map (unb_entry (e_now (w_env world12) + e_ut (w_env world12))) t12_und /\
    e_now e' = e_now (w_env world12) /\ e_ut e' = e_ut (w_env world12) /\
    e_wdaddr e' = e_wdaddr (w_env world12) /\ e_noredel e' = e_noredel (w_env world12) /\
    (forall y, y <> A_hub -> all_delegations e' y = all_delegations (w_env world12) y) /\
    (forall a d, a <> withdraw_addr (w_env world12) A_hub -> bal e' a d = bal (w_env world12) a d) /\
    (forall a d, bal (w_env world12) a d <= bal e' a d).
Proof. exact t12_undelegations_execute_applied. Qed.

(** the transaction itself *)
Theorem C13v_unbond_result :
  snd (step world12 t12_unb_op) =
    (true,
     (15, MWasm A_stsei (WCw20 (CSend A_hub 1200000 HkUnbond)) [])
     :: (A_stsei, MWasm A_hub (WHub (HReceive 15 1200000 HkUnbond)) [])
     :: tag A_hub t12_und
     ++ [(A_hub, MWasm A_stsei (WCw20 (CBurn 1200000)) []); (A_stsei, MWasm A_hub (WHub HCheckSlashing) [])]) /\
  let w' := fst (step world12 t12_unb_op) in
  all_delegations (w_env w') A_hub =
    [(0, 148776); (1, 148776); (2, 148776); (3, 148775); (4, 148776); (5, 148776);
     (6, 148776); (7, 148776); (8, 148776); (9, 148776); (10, 148776); (11, 148776)] /\
  delegated (w_env w') A_hub + 1190000 = delegated (w_env world12) A_hub /\
  e_unb (w_env w') = map (unb_entry 1000131) t12_und /\
  option_map (fun h => h_batch h) (w_hub w') = Some (mkBatch 2 0 0) /\
  option_map (fun h => map (fun p => (fst p, he_samt (snd p), he_released (snd p))) (h_hist h)) (w_hub w')
    = Some [(1, 1200000, false)] /\
  option_map booked (w_hub w') = Some (2975311 - 1190000).
Proof. exact t12_unbond_result. Qed.

Print Assumptions C13v_def_notations.
Print Assumptions C13v_def_ops.
Print Assumptions C13v_def_values.
Print Assumptions C13v_def_vectors.
Print Assumptions C13v_world_facts.
Print Assumptions C13v_world12_delwf.
Print Assumptions C13v_ds_asc_val.
Print Assumptions C13v_ds_desc_val.
Print Assumptions C13v_ds11_val.
Print Assumptions C13v_deleg_hyps.
Print Assumptions C13v_deleg_total_applied.
Print Assumptions C13v_deleg_plan.
Print Assumptions C13v_deleg_bounds_applied.
Print Assumptions C13v_deleg_plan_facts.
Print Assumptions C13v_deleg_small_plan.
Print Assumptions C13v_undeleg_hyps.
Print Assumptions C13v_undeleg_total_applied.
Print Assumptions C13v_undeleg_plan.
Print Assumptions C13v_undeleg_plan_facts.
Print Assumptions C13v_redel_plan_hyps.
Print Assumptions C13v_redel_plan.
Print Assumptions C13v_remove_run.
Print Assumptions C13v_remove_basic_hyps.
Print Assumptions C13v_remove_decompose_applied.
Print Assumptions C13v_remove_end_applied.
Print Assumptions C13v_remove_gap_applied.
Print Assumptions C13v_remove_result.
Print Assumptions C13v_remove_mid_result.
Print Assumptions C13v_remove_hyps.
Print Assumptions C13v_remove_predispatch.
Print Assumptions C13v_remove_succeeds_applied.
Print Assumptions C13v_pick.
Print Assumptions C13v_undelegations_execute_applied.
Print Assumptions C13v_unbond_result.
