(** C10h — Privileged operations are rejected for every unauthorised sender: the TRANSACTION /
    HISTORY level capstone of Props/C10.v.  Property theorems only (proofs: Proofs/AuthHist.v,
    Proofs/AuthHistOwn.v, Proofs/AuthHistEmit.v).

    Named predicates (defined in the proof files):
    - [Reach w st ex w1 st1] (Proofs/AuthHist.v): fuel-free reading of a prefix of [Exec.run]: from
      world [w] with pending message stack [st], executing depth-first exactly the messages [ex]
      (each one successfully) leads to world [w1] with pending stack [st1].  By [C10h_Reach_det] the
      pair ([w1], [st1]) is determined by ([w], [st], [ex]): in the theorems of part 1, [wa] is THE
      world in which the message at that position of the trace executed.
    - [hub_bsei w], [hub_stsei w]: the bSei / stSei address stored in the hub's config in world [w]
      ([None] when there is no hub or the address is not set); [keeps_hub o]: the operation [o] is
      neither [OReset] nor [OInstHub] (these two replace the hub by a fresh / no instance).
    - [hub_owner w], [hub_nominee w], [reward_owner w], ... : owner ([hc_creator], [rw_owner],
      [dp_owner], [rg_owner]) and pending owner ([h_newowner], ...) of the contract in world [w],
      [None] when the contract is not instantiated.
    - [reinst c o] for [c] in [CHub | CReward | CDisp | CReg]: [o] is [OReset] or the instantiate
      operation of contract [c].
    - [outsider_op c own nom o]: [o] is a transaction signed by an address different from [own] and
      from [nom] (any target, any message, any funds), or any non-transaction operation that is not
      [reinst c].
    - [emit_wasm_ok wm] (Proofs/AuthHistEmit.v): white-list of the payloads contracts emit (hub
      BondRewards/UpdateGlobalIndex/CheckSlashing/RedelegateProxy/SwapHook/Receive, reward
      Increase/DecreaseBalance, dispatcher Swap/Dispatch, cw20 Mint/Burn/Send, swap-stub, opaque);
      [admin_msg wm]: hub UpdateConfig/UpdateParams/SetOwner/Accept, reward UpdateConfig/SetOwner/
      Accept/UpdateSwapDenom, dispatcher UpdateConfig/SetOwner/Accept/UpdateSwapContract/
      UpdateSwapDenom/UpdateOracleContract, registry Add/Remove/UpdateConfig/SetOwner/Accept, cw20
      UpdateMinter.

    All theorems of parts 1 and 3 hold for EVERY world (no reachability hypothesis); the [_history]
    forms instantiate them at the worlds reached by arbitrary histories from the empty world. *)
From Krp Require Import Tactics Prelude Fixed FMap Types Env Registry Cw20 Reward Dispatcher Hub Exec
     AuthHistEmit AuthHistOwn AuthHist.
Open Scope N_scope.

(** * Part 0 — the world in which a message of a trace executed is well defined *)
Theorem C10h_Reach_det : forall w st ex w1 st1 w2 st2,
  Reach w st ex w1 st1 -> Reach w st ex w2 st2 -> w1 = w2 /\ st1 = st2.
Proof. exact Reach_unique. Qed.

(** every message of the trace of a successful run executed successfully, in the world reached by
    executing the messages before it *)
Theorem C10h_run_executed : forall fuel w0 stack w' tr pre s m post,
  run fuel w0 stack [] = Some (w', tr) -> tr = pre ++ (s, m) :: post ->
  exists wa rest wb out,
    Reach w0 stack pre wa ((s, m) :: rest) /\ step_msg wa s m = Some (wb, out).
Proof. exact run_executed. Qed.

(** * Part 1 — every executed privileged message, anywhere in a message tree, was sent by its
    principal as read from the receiving contract's state in the world in which it executed *)

Theorem C10h_hub_executed : forall fuel w0 stack w' tr pre x hm f post,
  run fuel w0 stack [] = Some (w', tr) ->
  tr = pre ++ (x, MWasm A_hub (WHub hm) f) :: post ->
  exists wa rest h,
    Reach w0 stack pre wa ((x, MWasm A_hub (WHub hm) f) :: rest) /\
    w_hub wa = Some h /\
    match hm with
    | HConfig _ _ _ _ _ _ _ | HParams _ _ _ _ _ _ | HSetOwner _ => x = hc_creator (h_cfg h)
    | HAccept => x = h_newowner h
    | HBondRewards => hc_disp (h_cfg h) = Some x
    | HRedelProxy _ _ => hc_reg (h_cfg h) = Some x
    | HUpdateGlobal _ => x = hc_updater (h_cfg h) \/ hc_reg (h_cfg h) = Some x
    | HSwapHook _ _ => x = A_hub
    | HClaimAirdrop _ _ _ => hc_airdrop (h_cfg h) = Some x
    | HReceive _ _ _ => hc_bsei (h_cfg h) = Some x \/ hc_stsei (h_cfg h) = Some x
    | _ => True
    end.
Proof. exact hub_executed. Qed.

Theorem C10h_reward_executed : forall fuel w0 stack w' tr pre x wm rm f post,
  run fuel w0 stack [] = Some (w', tr) ->
  tr = pre ++ (x, MWasm A_reward (wm) f) :: post ->
  (wm = WReward rm \/ exists n, wm = WHub (HUpdateGlobal n) /\ rm = RUpdateIndex) ->
  exists wa rest r,
    Reach w0 stack pre wa ((x, MWasm A_reward (wm) f) :: rest) /\
    w_reward wa = Some r /\
    match rm with
    | RConfig _ _ _ | RSetOwner _ | RSwapDenom _ _ => x = rw_owner r
    | RAccept => x = rw_newowner r
    | RSwap | RUpdateIndex => query_dispatcher_addr wa (rw_hub r) = Some x
    | RInc _ _ | RDec _ _ => query_bsei_addr wa (rw_hub r) = Some x
    | RClaim _ => True
    end.
Proof. exact reward_executed. Qed.

Theorem C10h_disp_executed : forall fuel w0 stack w' tr pre x dm f post,
  run fuel w0 stack [] = Some (w', tr) ->
  tr = pre ++ (x, MWasm A_disp (WDisp dm) f) :: post ->
  exists wa rest dp,
    Reach w0 stack pre wa ((x, MWasm A_disp (WDisp dm) f) :: rest) /\
    w_disp wa = Some dp /\
    match dm with
    | DSwap _ _ | DDispatch => x = dp_hub dp
    | DAccept => x = dp_newowner dp
    | _ => x = dp_owner dp
    end.
Proof. exact disp_executed. Qed.

Theorem C10h_reg_executed : forall fuel w0 stack w' tr pre x gm f post,
  run fuel w0 stack [] = Some (w', tr) ->
  tr = pre ++ (x, MWasm A_reg (WReg gm) f) :: post ->
  exists wa rest g,
    Reach w0 stack pre wa ((x, MWasm A_reg (WReg gm) f) :: rest) /\
    w_reg wa = Some g /\
    match gm with
    | GAdd _ => x = rg_owner g \/ x = rg_hub g
    | GRemove _ | GConfig _ | GSetOwner _ => x = rg_owner g
    | GAccept => x = rg_newowner g
    | GRedelegations _ => True
    end.
Proof. exact reg_executed. Qed.

Theorem C10h_bsei_executed : forall fuel w0 stack w' tr pre x cm f post,
  run fuel w0 stack [] = Some (w', tr) ->
  tr = pre ++ (x, MWasm A_bsei (WCw20 cm) f) :: post ->
  exists wa rest t,
    Reach w0 stack pre wa ((x, MWasm A_bsei (WCw20 cm) f) :: rest) /\
    w_bsei wa = Some t /\
    match cm with
    | CMint _ _ => exists cap, tk_minter t = Some (x, cap)
    | CBurn _ => x = tk_hub t
    | _ => True
    end.
Proof. exact bsei_executed. Qed.

Theorem C10h_stsei_executed : forall fuel w0 stack w' tr pre x cm f post,
  run fuel w0 stack [] = Some (w', tr) ->
  tr = pre ++ (x, MWasm A_stsei (WCw20 cm) f) :: post ->
  exists wa rest t,
    Reach w0 stack pre wa ((x, MWasm A_stsei (WCw20 cm) f) :: rest) /\
    w_stsei wa = Some t /\
    match cm with
    | CMint _ _ => exists cap, tk_minter t = Some (x, cap)
    | CBurn _ => x = tk_hub t
    | CUpdMinter _ => exists cap, tk_minter t = Some (x, cap)
    | _ => True
    end.
Proof. exact stsei_executed. Qed.

(** the same for a successful transaction at the end of any history from the empty world *)

Theorem C10h_hub_executed_history : forall ut ops s tgt m0 f0 w' tr pre x hm f post,
  step (run_ops ops (empty_world ut)) (OTx s tgt m0 f0) = (w', (true, tr)) ->
  tr = pre ++ (x, MWasm A_hub (WHub hm) f) :: post ->
  exists wa rest h,
    Reach (run_ops ops (empty_world ut)) [(s, MWasm tgt m0 f0)] pre wa
          ((x, MWasm A_hub (WHub hm) f) :: rest) /\
    w_hub wa = Some h /\
    match hm with
    | HConfig _ _ _ _ _ _ _ | HParams _ _ _ _ _ _ | HSetOwner _ => x = hc_creator (h_cfg h)
    | HAccept => x = h_newowner h
    | HBondRewards => hc_disp (h_cfg h) = Some x
    | HRedelProxy _ _ => hc_reg (h_cfg h) = Some x
    | HUpdateGlobal _ => x = hc_updater (h_cfg h) \/ hc_reg (h_cfg h) = Some x
    | HSwapHook _ _ => x = A_hub
    | HClaimAirdrop _ _ _ => hc_airdrop (h_cfg h) = Some x
    | HReceive _ _ _ => hc_bsei (h_cfg h) = Some x \/ hc_stsei (h_cfg h) = Some x
    | _ => True
    end.
Proof. exact hub_executed_history. Qed.

Theorem C10h_reward_executed_history : forall ut ops s tgt m0 f0 w' tr pre x wm rm f post,
  step (run_ops ops (empty_world ut)) (OTx s tgt m0 f0) = (w', (true, tr)) ->
  tr = pre ++ (x, MWasm A_reward (wm) f) :: post ->
  (wm = WReward rm \/ exists n, wm = WHub (HUpdateGlobal n) /\ rm = RUpdateIndex) ->
  exists wa rest r,
    Reach (run_ops ops (empty_world ut)) [(s, MWasm tgt m0 f0)] pre wa
          ((x, MWasm A_reward (wm) f) :: rest) /\
    w_reward wa = Some r /\
    match rm with
    | RConfig _ _ _ | RSetOwner _ | RSwapDenom _ _ => x = rw_owner r
    | RAccept => x = rw_newowner r
    | RSwap | RUpdateIndex => query_dispatcher_addr wa (rw_hub r) = Some x
    | RInc _ _ | RDec _ _ => query_bsei_addr wa (rw_hub r) = Some x
    | RClaim _ => True
    end.
Proof. exact reward_executed_history. Qed.

Theorem C10h_disp_executed_history : forall ut ops s tgt m0 f0 w' tr pre x dm f post,
  step (run_ops ops (empty_world ut)) (OTx s tgt m0 f0) = (w', (true, tr)) ->
  tr = pre ++ (x, MWasm A_disp (WDisp dm) f) :: post ->
  exists wa rest dp,
    Reach (run_ops ops (empty_world ut)) [(s, MWasm tgt m0 f0)] pre wa
          ((x, MWasm A_disp (WDisp dm) f) :: rest) /\
    w_disp wa = Some dp /\
    match dm with
    | DSwap _ _ | DDispatch => x = dp_hub dp
    | DAccept => x = dp_newowner dp
    | _ => x = dp_owner dp
    end.
Proof. exact disp_executed_history. Qed.

Theorem C10h_reg_executed_history : forall ut ops s tgt m0 f0 w' tr pre x gm f post,
  step (run_ops ops (empty_world ut)) (OTx s tgt m0 f0) = (w', (true, tr)) ->
  tr = pre ++ (x, MWasm A_reg (WReg gm) f) :: post ->
  exists wa rest g,
    Reach (run_ops ops (empty_world ut)) [(s, MWasm tgt m0 f0)] pre wa
          ((x, MWasm A_reg (WReg gm) f) :: rest) /\
    w_reg wa = Some g /\
    match gm with
    | GAdd _ => x = rg_owner g \/ x = rg_hub g
    | GRemove _ | GConfig _ | GSetOwner _ => x = rg_owner g
    | GAccept => x = rg_newowner g
    | GRedelegations _ => True
    end.
Proof. exact reg_executed_history. Qed.

Theorem C10h_bsei_executed_history : forall ut ops s tgt m0 f0 w' tr pre x cm f post,
  step (run_ops ops (empty_world ut)) (OTx s tgt m0 f0) = (w', (true, tr)) ->
  tr = pre ++ (x, MWasm A_bsei (WCw20 cm) f) :: post ->
  exists wa rest t,
    Reach (run_ops ops (empty_world ut)) [(s, MWasm tgt m0 f0)] pre wa
          ((x, MWasm A_bsei (WCw20 cm) f) :: rest) /\
    w_bsei wa = Some t /\
    match cm with
    | CMint _ _ => exists cap, tk_minter t = Some (x, cap)
    | CBurn _ => x = tk_hub t
    | _ => True
    end.
Proof. exact bsei_executed_history. Qed.

Theorem C10h_stsei_executed_history : forall ut ops s tgt m0 f0 w' tr pre x cm f post,
  step (run_ops ops (empty_world ut)) (OTx s tgt m0 f0) = (w', (true, tr)) ->
  tr = pre ++ (x, MWasm A_stsei (WCw20 cm) f) :: post ->
  exists wa rest t,
    Reach (run_ops ops (empty_world ut)) [(s, MWasm tgt m0 f0)] pre wa
          ((x, MWasm A_stsei (WCw20 cm) f) :: rest) /\
    w_stsei wa = Some t /\
    match cm with
    | CMint _ _ => exists cap, tk_minter t = Some (x, cap)
    | CBurn _ => x = tk_hub t
    | CUpdMinter _ => exists cap, tk_minter t = Some (x, cap)
    | _ => True
    end.
Proof. exact stsei_executed_history. Qed.

(** a root transaction whose privileged message is signed by anybody else is rejected and the
    whole world is unchanged *)

Theorem C10h_hub_root_unauthorised : forall w s hm f h,
  w_hub w = Some h ->
  ~ (match hm with
    | HConfig _ _ _ _ _ _ _ | HParams _ _ _ _ _ _ | HSetOwner _ => s = hc_creator (h_cfg h)
    | HAccept => s = h_newowner h
    | HBondRewards => hc_disp (h_cfg h) = Some s
    | HRedelProxy _ _ => hc_reg (h_cfg h) = Some s
    | HUpdateGlobal _ => s = hc_updater (h_cfg h) \/ hc_reg (h_cfg h) = Some s
    | HSwapHook _ _ => s = A_hub
    | HClaimAirdrop _ _ _ => hc_airdrop (h_cfg h) = Some s
    | HReceive _ _ _ => hc_bsei (h_cfg h) = Some s \/ hc_stsei (h_cfg h) = Some s
    | _ => True
    end) ->
  step w (OTx s A_hub (WHub hm) f) = (w, (false, [])).
Proof. exact hub_root_unauthorised. Qed.

Theorem C10h_reward_root_unauthorised : forall w s wm rm f r,
  w_reward w = Some r ->
  (wm = WReward rm \/ exists n, wm = WHub (HUpdateGlobal n) /\ rm = RUpdateIndex) ->
  ~ (match rm with
    | RConfig _ _ _ | RSetOwner _ | RSwapDenom _ _ => s = rw_owner r
    | RAccept => s = rw_newowner r
    | RSwap | RUpdateIndex => query_dispatcher_addr w (rw_hub r) = Some s
    | RInc _ _ | RDec _ _ => query_bsei_addr w (rw_hub r) = Some s
    | RClaim _ => True
    end) ->
  step w (OTx s A_reward (wm) f) = (w, (false, [])).
Proof. exact reward_root_unauthorised. Qed.

Theorem C10h_disp_root_unauthorised : forall w s dm f dp,
  w_disp w = Some dp ->
  ~ (match dm with
    | DSwap _ _ | DDispatch => s = dp_hub dp
    | DAccept => s = dp_newowner dp
    | _ => s = dp_owner dp
    end) ->
  step w (OTx s A_disp (WDisp dm) f) = (w, (false, [])).
Proof. exact disp_root_unauthorised. Qed.

Theorem C10h_reg_root_unauthorised : forall w s gm f g,
  w_reg w = Some g ->
  ~ (match gm with
    | GAdd _ => s = rg_owner g \/ s = rg_hub g
    | GRemove _ | GConfig _ | GSetOwner _ => s = rg_owner g
    | GAccept => s = rg_newowner g
    | GRedelegations _ => True
    end) ->
  step w (OTx s A_reg (WReg gm) f) = (w, (false, [])).
Proof. exact reg_root_unauthorised. Qed.

Theorem C10h_bsei_root_unauthorised : forall w s cm f t,
  w_bsei w = Some t ->
  ~ (match cm with
    | CMint _ _ => exists cap, tk_minter t = Some (s, cap)
    | CBurn _ => s = tk_hub t
    | _ => True
    end) ->
  step w (OTx s A_bsei (WCw20 cm) f) = (w, (false, [])).
Proof. exact bsei_root_unauthorised. Qed.

Theorem C10h_stsei_root_unauthorised : forall w s cm f t,
  w_stsei w = Some t ->
  ~ (match cm with
    | CMint _ _ => exists cap, tk_minter t = Some (s, cap)
    | CBurn _ => s = tk_hub t
    | CUpdMinter _ => exists cap, tk_minter t = Some (s, cap)
    | _ => True
    end) ->
  step w (OTx s A_stsei (WCw20 cm) f) = (w, (false, [])).
Proof. exact stsei_root_unauthorised. Qed.

(** * Part 2 — the bSei and stSei token addresses are immutable along every history *)
Theorem C10h_tokaddr_step : forall w o x, keeps_hub o ->
  (hub_bsei w = Some x -> hub_bsei (fst (step w o)) = Some x) /\
  (hub_stsei w = Some x -> hub_stsei (fst (step w o)) = Some x).
Proof. exact step_tokaddr. Qed.

Theorem C10h_tokaddr_history : forall x ops w, Forall keeps_hub ops ->
  (hub_bsei w = Some x -> hub_bsei (run_ops ops w) = Some x) /\
  (hub_stsei w = Some x -> hub_stsei (run_ops ops w) = Some x).
Proof. exact history_tokaddr. Qed.

Theorem C10h_tokaddr_reachable : forall ut ops1 ops2 x, Forall keeps_hub ops2 ->
  (hub_bsei (run_ops ops1 (empty_world ut)) = Some x ->
   hub_bsei (run_ops (ops1 ++ ops2) (empty_world ut)) = Some x) /\
  (hub_stsei (run_ops ops1 (empty_world ut)) = Some x ->
   hub_stsei (run_ops (ops1 ++ ops2) (empty_world ut)) = Some x).
Proof. exact reachable_tokaddr. Qed.

(** the exclusion is necessary: re-instantiating the hub forgets the addresses *)
Theorem C10h_tokaddr_reinst_witness :
  hub_bsei ExitWorld.world0 = Some A_bsei /\
  hub_bsei (fst (step ExitWorld.world0
                      (OInstHub A_owner 30 100 0 D ExitWorld.updater usei uusd))) = None.
Proof. exact tokaddr_reinst_witness. Qed.

(** * Part 3 — two-step ownership along histories *)

(** the closed message class: whatever a contract emits while executing any message is
    white-listed, hence never an owner-only message; such messages can only be transaction roots *)
Theorem C10h_closed_class : forall w s m w' out x to wm f,
  step_msg w s m = Some (w', out) -> In (x, MWasm to wm f) out ->
  emit_wasm_ok wm = true /\ admin_msg wm = false.
Proof. exact closed_class. Qed.

(** for every world and every operation of the alphabet exactly one of four things happens to the
    (owner, nominee) pair of the contract: nothing; the contract is reset / re-instantiated; the
    operation is an Accept ROOT transaction signed by the stored nominee, who becomes owner (the
    nominee field keeps him), and the transaction consists of that single message; or it is a SetOwner
    ROOT transaction signed by the stored owner, which stores the named nominee and keeps the owner *)

(** ** hub *)
Theorem C10h_hub_ownership_step : forall w o,
  (hub_owner (fst (step w o)) = hub_owner w /\ hub_nominee (fst (step w o)) = hub_nominee w) \/
  reinst CHub o \/
  (exists x f, o = OTx x A_hub (WHub HAccept) f /\ hub_nominee w = Some x /\
     hub_owner (fst (step w o)) = Some x /\ hub_nominee (fst (step w o)) = Some x /\
     snd (step w o) = (true, [(x, MWasm A_hub (WHub HAccept) f)])) \/
  (exists x a f, o = OTx x A_hub (WHub (HSetOwner a)) f /\ hub_owner w = Some x /\
     hub_owner (fst (step w o)) = Some x /\ hub_nominee (fst (step w o)) = Some a /\
     snd (step w o) = (true, [(x, MWasm A_hub (WHub (HSetOwner a)) f)])).
Proof. exact hub_ownership_step. Qed.

Theorem C10h_hub_ownership_changes : forall w o,
  (hub_owner (fst (step w o)) <> hub_owner w ->
   reinst CHub o \/
   exists x f, o = OTx x A_hub (WHub HAccept) f /\ hub_nominee w = Some x /\
     hub_owner (fst (step w o)) = Some x /\
     snd (step w o) = (true, [(x, MWasm A_hub (WHub HAccept) f)])) /\
  (hub_nominee (fst (step w o)) <> hub_nominee w ->
   reinst CHub o \/
   exists x a f, o = OTx x A_hub (WHub (HSetOwner a)) f /\ hub_owner w = Some x /\
     hub_nominee (fst (step w o)) = Some a /\ hub_owner (fst (step w o)) = Some x /\
     snd (step w o) = (true, [(x, MWasm A_hub (WHub (HSetOwner a)) f)])).
Proof. exact hub_ownership_changes. Qed.

Theorem C10h_hub_ownership_changes_history : forall ut ops o,
  (hub_owner (run_ops (ops ++ [o]) (empty_world ut)) <> hub_owner (run_ops ops (empty_world ut)) ->
   reinst CHub o \/
   exists x f, o = OTx x A_hub (WHub HAccept) f /\
     hub_nominee (run_ops ops (empty_world ut)) = Some x /\
     hub_owner (run_ops (ops ++ [o]) (empty_world ut)) = Some x /\
     snd (step (run_ops ops (empty_world ut)) o) = (true, [(x, MWasm A_hub (WHub HAccept) f)])) /\
  (hub_nominee (run_ops (ops ++ [o]) (empty_world ut)) <> hub_nominee (run_ops ops (empty_world ut)) ->
   reinst CHub o \/
   exists x a f, o = OTx x A_hub (WHub (HSetOwner a)) f /\
     hub_owner (run_ops ops (empty_world ut)) = Some x /\
     hub_nominee (run_ops (ops ++ [o]) (empty_world ut)) = Some a /\
     hub_owner (run_ops (ops ++ [o]) (empty_world ut)) = Some x /\
     snd (step (run_ops ops (empty_world ut)) o) = (true, [(x, MWasm A_hub (WHub (HSetOwner a)) f)])).
Proof. exact hub_ownership_changes_history. Qed.

(** an address that is neither owner nor nominee, signing alone, changes neither — whatever the
    target contract and message of its transaction *)
Theorem C10h_hub_outsider_tx : forall w x tgt m f own nom,
  hub_owner w = Some own -> hub_nominee w = Some nom -> x <> own -> x <> nom ->
  hub_owner (fst (step w (OTx x tgt m f))) = Some own /\
  hub_nominee (fst (step w (OTx x tgt m f))) = Some nom.
Proof. exact hub_outsider_tx. Qed.

(** ... nor does any sequence of such transactions interleaved with all other operations *)
Theorem C10h_hub_outsider_history : forall own nom ops w,
  Forall (outsider_op CHub own nom) ops -> hub_owner w = Some own -> hub_nominee w = Some nom ->
  hub_owner (run_ops ops w) = Some own /\ hub_nominee (run_ops ops w) = Some nom.
Proof. exact hub_outsider_history. Qed.

(** ** reward *)
Theorem C10h_reward_ownership_step : forall w o,
  (reward_owner (fst (step w o)) = reward_owner w /\ reward_nominee (fst (step w o)) = reward_nominee w) \/
  reinst CReward o \/
  (exists x f, o = OTx x A_reward (WReward RAccept) f /\ reward_nominee w = Some x /\
     reward_owner (fst (step w o)) = Some x /\ reward_nominee (fst (step w o)) = Some x /\
     snd (step w o) = (true, [(x, MWasm A_reward (WReward RAccept) f)])) \/
  (exists x a f, o = OTx x A_reward (WReward (RSetOwner a)) f /\ reward_owner w = Some x /\
     reward_owner (fst (step w o)) = Some x /\ reward_nominee (fst (step w o)) = Some a /\
     snd (step w o) = (true, [(x, MWasm A_reward (WReward (RSetOwner a)) f)])).
Proof. exact reward_ownership_step. Qed.

Theorem C10h_reward_ownership_changes : forall w o,
  (reward_owner (fst (step w o)) <> reward_owner w ->
   reinst CReward o \/
   exists x f, o = OTx x A_reward (WReward RAccept) f /\ reward_nominee w = Some x /\
     reward_owner (fst (step w o)) = Some x /\
     snd (step w o) = (true, [(x, MWasm A_reward (WReward RAccept) f)])) /\
  (reward_nominee (fst (step w o)) <> reward_nominee w ->
   reinst CReward o \/
   exists x a f, o = OTx x A_reward (WReward (RSetOwner a)) f /\ reward_owner w = Some x /\
     reward_nominee (fst (step w o)) = Some a /\ reward_owner (fst (step w o)) = Some x /\
     snd (step w o) = (true, [(x, MWasm A_reward (WReward (RSetOwner a)) f)])).
Proof. exact reward_ownership_changes. Qed.

Theorem C10h_reward_ownership_changes_history : forall ut ops o,
  (reward_owner (run_ops (ops ++ [o]) (empty_world ut)) <> reward_owner (run_ops ops (empty_world ut)) ->
   reinst CReward o \/
   exists x f, o = OTx x A_reward (WReward RAccept) f /\
     reward_nominee (run_ops ops (empty_world ut)) = Some x /\
     reward_owner (run_ops (ops ++ [o]) (empty_world ut)) = Some x /\
     snd (step (run_ops ops (empty_world ut)) o) = (true, [(x, MWasm A_reward (WReward RAccept) f)])) /\
  (reward_nominee (run_ops (ops ++ [o]) (empty_world ut)) <> reward_nominee (run_ops ops (empty_world ut)) ->
   reinst CReward o \/
   exists x a f, o = OTx x A_reward (WReward (RSetOwner a)) f /\
     reward_owner (run_ops ops (empty_world ut)) = Some x /\
     reward_nominee (run_ops (ops ++ [o]) (empty_world ut)) = Some a /\
     reward_owner (run_ops (ops ++ [o]) (empty_world ut)) = Some x /\
     snd (step (run_ops ops (empty_world ut)) o) = (true, [(x, MWasm A_reward (WReward (RSetOwner a)) f)])).
Proof. exact reward_ownership_changes_history. Qed.

(** an address that is neither owner nor nominee, signing alone, changes neither — whatever the
    target contract and message of its transaction *)
Theorem C10h_reward_outsider_tx : forall w x tgt m f own nom,
  reward_owner w = Some own -> reward_nominee w = Some nom -> x <> own -> x <> nom ->
  reward_owner (fst (step w (OTx x tgt m f))) = Some own /\
  reward_nominee (fst (step w (OTx x tgt m f))) = Some nom.
Proof. exact reward_outsider_tx. Qed.

(** ... nor does any sequence of such transactions interleaved with all other operations *)
Theorem C10h_reward_outsider_history : forall own nom ops w,
  Forall (outsider_op CReward own nom) ops -> reward_owner w = Some own -> reward_nominee w = Some nom ->
  reward_owner (run_ops ops w) = Some own /\ reward_nominee (run_ops ops w) = Some nom.
Proof. exact reward_outsider_history. Qed.

(** ** disp *)
Theorem C10h_disp_ownership_step : forall w o,
  (disp_owner (fst (step w o)) = disp_owner w /\ disp_nominee (fst (step w o)) = disp_nominee w) \/
  reinst CDisp o \/
  (exists x f, o = OTx x A_disp (WDisp DAccept) f /\ disp_nominee w = Some x /\
     disp_owner (fst (step w o)) = Some x /\ disp_nominee (fst (step w o)) = Some x /\
     snd (step w o) = (true, [(x, MWasm A_disp (WDisp DAccept) f)])) \/
  (exists x a f, o = OTx x A_disp (WDisp (DSetOwner a)) f /\ disp_owner w = Some x /\
     disp_owner (fst (step w o)) = Some x /\ disp_nominee (fst (step w o)) = Some a /\
     snd (step w o) = (true, [(x, MWasm A_disp (WDisp (DSetOwner a)) f)])).
Proof. exact disp_ownership_step. Qed.

Theorem C10h_disp_ownership_changes : forall w o,
  (disp_owner (fst (step w o)) <> disp_owner w ->
   reinst CDisp o \/
   exists x f, o = OTx x A_disp (WDisp DAccept) f /\ disp_nominee w = Some x /\
     disp_owner (fst (step w o)) = Some x /\
     snd (step w o) = (true, [(x, MWasm A_disp (WDisp DAccept) f)])) /\
  (disp_nominee (fst (step w o)) <> disp_nominee w ->
   reinst CDisp o \/
   exists x a f, o = OTx x A_disp (WDisp (DSetOwner a)) f /\ disp_owner w = Some x /\
     disp_nominee (fst (step w o)) = Some a /\ disp_owner (fst (step w o)) = Some x /\
     snd (step w o) = (true, [(x, MWasm A_disp (WDisp (DSetOwner a)) f)])).
Proof. exact disp_ownership_changes. Qed.

Theorem C10h_disp_ownership_changes_history : forall ut ops o,
  (disp_owner (run_ops (ops ++ [o]) (empty_world ut)) <> disp_owner (run_ops ops (empty_world ut)) ->
   reinst CDisp o \/
   exists x f, o = OTx x A_disp (WDisp DAccept) f /\
     disp_nominee (run_ops ops (empty_world ut)) = Some x /\
     disp_owner (run_ops (ops ++ [o]) (empty_world ut)) = Some x /\
     snd (step (run_ops ops (empty_world ut)) o) = (true, [(x, MWasm A_disp (WDisp DAccept) f)])) /\
  (disp_nominee (run_ops (ops ++ [o]) (empty_world ut)) <> disp_nominee (run_ops ops (empty_world ut)) ->
   reinst CDisp o \/
   exists x a f, o = OTx x A_disp (WDisp (DSetOwner a)) f /\
     disp_owner (run_ops ops (empty_world ut)) = Some x /\
     disp_nominee (run_ops (ops ++ [o]) (empty_world ut)) = Some a /\
     disp_owner (run_ops (ops ++ [o]) (empty_world ut)) = Some x /\
     snd (step (run_ops ops (empty_world ut)) o) = (true, [(x, MWasm A_disp (WDisp (DSetOwner a)) f)])).
Proof. exact disp_ownership_changes_history. Qed.

(** an address that is neither owner nor nominee, signing alone, changes neither — whatever the
    target contract and message of its transaction *)
Theorem C10h_disp_outsider_tx : forall w x tgt m f own nom,
  disp_owner w = Some own -> disp_nominee w = Some nom -> x <> own -> x <> nom ->
  disp_owner (fst (step w (OTx x tgt m f))) = Some own /\
  disp_nominee (fst (step w (OTx x tgt m f))) = Some nom.
Proof. exact disp_outsider_tx. Qed.

(** ... nor does any sequence of such transactions interleaved with all other operations *)
Theorem C10h_disp_outsider_history : forall own nom ops w,
  Forall (outsider_op CDisp own nom) ops -> disp_owner w = Some own -> disp_nominee w = Some nom ->
  disp_owner (run_ops ops w) = Some own /\ disp_nominee (run_ops ops w) = Some nom.
Proof. exact disp_outsider_history. Qed.

(** ** reg *)
Theorem C10h_reg_ownership_step : forall w o,
  (reg_owner (fst (step w o)) = reg_owner w /\ reg_nominee (fst (step w o)) = reg_nominee w) \/
  reinst CReg o \/
  (exists x f, o = OTx x A_reg (WReg GAccept) f /\ reg_nominee w = Some x /\
     reg_owner (fst (step w o)) = Some x /\ reg_nominee (fst (step w o)) = Some x /\
     snd (step w o) = (true, [(x, MWasm A_reg (WReg GAccept) f)])) \/
  (exists x a f, o = OTx x A_reg (WReg (GSetOwner a)) f /\ reg_owner w = Some x /\
     reg_owner (fst (step w o)) = Some x /\ reg_nominee (fst (step w o)) = Some a /\
     snd (step w o) = (true, [(x, MWasm A_reg (WReg (GSetOwner a)) f)])).
Proof. exact reg_ownership_step. Qed.

Theorem C10h_reg_ownership_changes : forall w o,
  (reg_owner (fst (step w o)) <> reg_owner w ->
   reinst CReg o \/
   exists x f, o = OTx x A_reg (WReg GAccept) f /\ reg_nominee w = Some x /\
     reg_owner (fst (step w o)) = Some x /\
     snd (step w o) = (true, [(x, MWasm A_reg (WReg GAccept) f)])) /\
  (reg_nominee (fst (step w o)) <> reg_nominee w ->
   reinst CReg o \/
   exists x a f, o = OTx x A_reg (WReg (GSetOwner a)) f /\ reg_owner w = Some x /\
     reg_nominee (fst (step w o)) = Some a /\ reg_owner (fst (step w o)) = Some x /\
     snd (step w o) = (true, [(x, MWasm A_reg (WReg (GSetOwner a)) f)])).
Proof. exact reg_ownership_changes. Qed.

Theorem C10h_reg_ownership_changes_history : forall ut ops o,
  (reg_owner (run_ops (ops ++ [o]) (empty_world ut)) <> reg_owner (run_ops ops (empty_world ut)) ->
   reinst CReg o \/
   exists x f, o = OTx x A_reg (WReg GAccept) f /\
     reg_nominee (run_ops ops (empty_world ut)) = Some x /\
     reg_owner (run_ops (ops ++ [o]) (empty_world ut)) = Some x /\
     snd (step (run_ops ops (empty_world ut)) o) = (true, [(x, MWasm A_reg (WReg GAccept) f)])) /\
  (reg_nominee (run_ops (ops ++ [o]) (empty_world ut)) <> reg_nominee (run_ops ops (empty_world ut)) ->
   reinst CReg o \/
   exists x a f, o = OTx x A_reg (WReg (GSetOwner a)) f /\
     reg_owner (run_ops ops (empty_world ut)) = Some x /\
     reg_nominee (run_ops (ops ++ [o]) (empty_world ut)) = Some a /\
     reg_owner (run_ops (ops ++ [o]) (empty_world ut)) = Some x /\
     snd (step (run_ops ops (empty_world ut)) o) = (true, [(x, MWasm A_reg (WReg (GSetOwner a)) f)])).
Proof. exact reg_ownership_changes_history. Qed.

(** an address that is neither owner nor nominee, signing alone, changes neither — whatever the
    target contract and message of its transaction *)
Theorem C10h_reg_outsider_tx : forall w x tgt m f own nom,
  reg_owner w = Some own -> reg_nominee w = Some nom -> x <> own -> x <> nom ->
  reg_owner (fst (step w (OTx x tgt m f))) = Some own /\
  reg_nominee (fst (step w (OTx x tgt m f))) = Some nom.
Proof. exact reg_outsider_tx. Qed.

(** ... nor does any sequence of such transactions interleaved with all other operations *)
Theorem C10h_reg_outsider_history : forall own nom ops w,
  Forall (outsider_op CReg own nom) ops -> reg_owner w = Some own -> reg_nominee w = Some nom ->
  reg_owner (run_ops ops w) = Some own /\ reg_nominee (run_ops ops w) = Some nom.
Proof. exact reg_outsider_history. Qed.

Print Assumptions C10h_hub_executed.
Print Assumptions C10h_reward_executed.
Print Assumptions C10h_disp_executed.
Print Assumptions C10h_reg_executed.
Print Assumptions C10h_bsei_executed.
Print Assumptions C10h_stsei_executed.
Print Assumptions C10h_hub_executed_history.
Print Assumptions C10h_reward_executed_history.
Print Assumptions C10h_disp_executed_history.
Print Assumptions C10h_reg_executed_history.
Print Assumptions C10h_bsei_executed_history.
Print Assumptions C10h_stsei_executed_history.
Print Assumptions C10h_hub_root_unauthorised.
Print Assumptions C10h_reward_root_unauthorised.
Print Assumptions C10h_disp_root_unauthorised.
Print Assumptions C10h_reg_root_unauthorised.
Print Assumptions C10h_bsei_root_unauthorised.
Print Assumptions C10h_stsei_root_unauthorised.
Print Assumptions C10h_Reach_det.
Print Assumptions C10h_run_executed.
Print Assumptions C10h_tokaddr_step.
Print Assumptions C10h_tokaddr_history.
Print Assumptions C10h_tokaddr_reachable.
Print Assumptions C10h_tokaddr_reinst_witness.
Print Assumptions C10h_closed_class.
Print Assumptions C10h_hub_ownership_step.
Print Assumptions C10h_hub_ownership_changes.
Print Assumptions C10h_hub_ownership_changes_history.
Print Assumptions C10h_hub_outsider_tx.
Print Assumptions C10h_hub_outsider_history.
Print Assumptions C10h_reward_ownership_step.
Print Assumptions C10h_reward_ownership_changes.
Print Assumptions C10h_reward_ownership_changes_history.
Print Assumptions C10h_reward_outsider_tx.
Print Assumptions C10h_reward_outsider_history.
Print Assumptions C10h_disp_ownership_step.
Print Assumptions C10h_disp_ownership_changes.
Print Assumptions C10h_disp_ownership_changes_history.
Print Assumptions C10h_disp_outsider_tx.
Print Assumptions C10h_disp_outsider_history.
Print Assumptions C10h_reg_ownership_step.
Print Assumptions C10h_reg_ownership_changes.
Print Assumptions C10h_reg_ownership_changes_history.
Print Assumptions C10h_reg_outsider_tx.
Print Assumptions C10h_reg_outsider_history.
