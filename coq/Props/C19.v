(** C19 — A global index update delivers all staking rewards to the right parties.
    Property theorems only; proofs in Proofs/IndexP.v (helpers Proofs/Index{Run,Env,Handlers,Swap,Phases}.v).

    The transaction tree (Model/Exec.v [run], depth first):
      hub.UpdateGlobalIndex (sender = updater or registry)
        -> MWithdrawReward v  for every validator the hub delegates to (distribution module pays the
                              pending rewards to the withdraw address = dispatcher)
        -> dispatcher.SwapToRewardDenom -> SwapDenom messages to the swap stub
        -> dispatcher.DispatchRewards   -> bank sends (keeper, reward contract, keeper),
                                           hub.BondRewards{funds} -> MDelegate*,
                                           reward.UpdateGlobalIndex (hub-shaped message, parsed by
                                           Exec.call as the reward contract's RUpdateIndex)

    Levels: sections 1-5 are handler / environment level facts (no envelope needed unless stated);
    section 6 is the chain-level theorem about [run tx_fuel w [(sender, UpdateGlobalIndex)] []];
    section 7 records finding F2 (KNOWN FINDING, genuine defect, same root cause as C17) at chain
    level; section 8 is non-vacuity.

    Vocabulary (definitions of the proof files, each restated below as a [C19_def_*] lemma proved
    by reflexivity):
      [touch_lim s t]        hub state [s] with last_index_modification := t
      [withdraw_msgs e a]    MWithdrawReward v for each delegation entry of [a], in VALS order
      [ugi_tail d s]         [SwapToRewardDenom (bb, bst); DispatchRewards] sent to dispatcher [d]
      [del_vals e a]         validators [a] has a delegation entry with
      [withdraw_all a vs e]  environment after distribution paid out (a, v) for every v of [vs]
      [pend_total e a vs d]  sum over [vs] of the pending rewards of (a, v) in denom [d]
      [in_denoms d]          [d] is one of the chain's denoms (DENOMS)
      [index_updated r b]    reward-contract state after an index update that sees balance [b]
      [bonded_rewards s x q] hub state [s] with bst := bst + x and stSei rate := q
      [delegate_amounts ms]  sum of the coins carried by the MDelegate messages of [ms]
      [root_msg]             MWasm A_hub (WHub (HUpdateGlobal 0)) []
      [pre_dispatch w s]     the world just before DispatchRewards executes (hub handler, withdrawals
                             and the whole swap leg done), computed with [run]
      [bank_part self e m]   the bank effect of message [m] sent by [self] (MBank / funds of MWasm)
    Named hypotheses (each restated below): [Wired], [RewardWired], [RewardsToDispatcher] (Inv.v, E4),
      [IndexWiring] (E4: dispatcher uses the stubs, keeper is an outside account, keeper rate <= 1,
      registry non-empty / real validators / no repetition = [RegOk]), [StubsOk] (E7),
      [IndexE1] (E1 magnitudes), [RewardSolvent] (C14's invariant prev_balance <= balance),
      [HubReady] (not paused, bb + bst > 0, sender is the updater or the registry),
      [Known_F2] (DispatcherP.v, the class of finding F2). *)
From Krp Require Import Tactics Prelude Fixed FMap Types Env Registry Cw20 Reward Dispatcher Hub Exec
     RegistryP DispatcherP Inv IndexRun IndexEnv IndexHandlers IndexSwap IndexPhases IndexP.
Open Scope N_scope.

(** * 0. vocabulary *)
Theorem C19_def_touch_lim : forall s t, touch_lim s t =
  mkHubState (hs_ber s) (hs_ser s) (hs_bb s) (hs_bst s) t (hs_phb s) (hs_lut s) (hs_lpb s).
Proof. exact def_touch_lim. Qed.

Theorem C19_def_withdraw_msgs : forall e a,
  withdraw_msgs e a = map (fun d => MWithdrawReward (fst d)) (all_delegations e a).
Proof. exact def_withdraw_msgs. Qed.

Theorem C19_def_ugi_tail : forall d s, ugi_tail d s =
  [MWasm d (WDisp (DSwap (hs_bb s) (hs_bst s))) []; MWasm d (WDisp DDispatch) []].
Proof. exact def_ugi_tail. Qed.

Theorem C19_def_del_vals : forall e a, del_vals e a = map fst (all_delegations e a).
Proof. exact def_del_vals. Qed.

Theorem C19_def_withdraw_all : forall a vs e,
  withdraw_all a vs e = fold_left (fun e v => payout e a v) vs e.
Proof. exact def_withdraw_all. Qed.

Theorem C19_def_pend_total : forall e a vs d,
  pend_total e a vs d = sumN (map (fun v => pending e a v d) vs).
Proof. exact def_pend_total. Qed.

Theorem C19_def_in_denoms : forall d, in_denoms d = true <-> In d DENOMS.
Proof. exact def_in_denoms. Qed.

Theorem C19_def_index_updated : forall r b, index_updated r b =
  if rw_total r =? 0 then r
  else set_rw_state r (rw_gi r + (b - rw_prev r) * D / rw_total r) (rw_total r) b.
Proof. exact def_index_updated. Qed.

Theorem C19_def_bonded_rewards : forall s x q, bonded_rewards s x q =
  mkHubState (hs_ber s) q (hs_bb s) (hs_bst s + x) (hs_lim s) (hs_phb s) (hs_lut s) (hs_lpb s).
Proof. exact def_bonded_rewards. Qed.

Theorem C19_def_delegate_amounts : forall ms, delegate_amounts ms =
  sumN (map (fun m => match m with MDelegate _ c => snd c | _ => 0 end) ms).
Proof. exact def_delegate_amounts. Qed.

Theorem C19_def_root_msg : root_msg = MWasm A_hub (WHub (HUpdateGlobal 0)) [].
Proof. exact def_root_msg. Qed.

Theorem C19_def_pre_dispatch : forall w sender, pre_dispatch w sender =
  (do r <- step_msg w sender root_msg;
   do r2 <- run tx_fuel (fst r) (removelast (snd r)) [];
   Some (fst r2)).
Proof. exact def_pre_dispatch. Qed.

Theorem C19_def_bank_part : forall self e m, bank_part self e m =
  match m with
  | MBank to cs => bank_send e self to cs
  | MWasm to _ fs => send_coins e self to fs
  | _ => Some e
  end.
Proof. exact def_bank_part. Qed.

Theorem C19_def_RegOk : forall g, RegOk g <->
  rg_vals g <> [] /\ NoDup (rg_vals g) /\ (forall v, In v (rg_vals g) -> is_val v = true).
Proof. exact def_RegOk. Qed.

Theorem C19_def_IndexWiring : forall w, IndexWiring w <->
  match w_disp w, w_reg w with
  | Some d, Some g =>
      dp_swap d = A_swap /\ dp_oracle d = A_oracle /\ dp_rate d <= D /\
      dp_keeper d <> A_disp /\ dp_keeper d <> A_hub /\ dp_keeper d <> A_reward /\ RegOk g
  | _, _ => False
  end.
Proof. exact def_IndexWiring. Qed.

Theorem C19_def_StubsOk : forall e, StubsOk e <->
  e_swapmode e = SwOk /\ e_oraclemode e = OrOk /\ 0 < e_price e /\ e_price e <= D * D.
Proof. exact def_StubsOk. Qed.

Theorem C19_def_IndexE1 : forall w, IndexE1 w <->
  match w_hub w, w_reward w, w_bsei w, w_stsei w with
  | Some h, Some r, Some tb, Some ts =>
      let e := w_env w in
      hs_bb (h_state h) + hs_bst (h_state h) <= LIM /\ delegated e A_hub <= LIM /\
      claims_b h tb <= LIM /\ claims_st h ts <= LIM /\
      (forall d, bal e A_disp d + pend_total e A_hub (del_vals e A_hub) d <= LIM) /\
      bal e A_reward (rw_denom r) <= LIM /\ rw_gi r <= D * D
  | _, _, _, _ => False
  end.
Proof. exact def_IndexE1. Qed.

Theorem C19_def_RewardSolvent : forall w, RewardSolvent w <->
  match w_reward w with
  | Some r => rw_prev r <= bal (w_env w) A_reward (rw_denom r)
  | None => False
  end.
Proof. exact def_RewardSolvent. Qed.

Theorem C19_def_HubReady : forall w sender, HubReady w sender <->
  match w_hub w with
  | Some h => paused h = false /\ 0 < hs_bb (h_state h) + hs_bst (h_state h) /\
              (sender = hc_updater (h_cfg h) \/ sender = A_reg)
  | None => False
  end.
Proof. exact def_HubReady. Qed.

(** * 1. hub handler: exactly hooks ++ withdrawals ++ [Swap; Dispatch], only for the updater or the
    registry, and only the last-index-modification time changes in the hub *)
Theorem C19_update_global_exact : forall w h self sender n h' msgs,
  execute_update_global w h self sender n = Some (h', msgs) ->
  (sender = hc_updater (h_cfg h) \/ hc_reg (h_cfg h) = Some sender) /\
  exists dispaddr hooks,
    hc_disp (h_cfg h) = Some dispaddr /\
    (n = 0 -> hooks = []) /\
    (n <> 0 -> exists reg, hc_airdrop (h_cfg h) = Some reg /\
                           hooks = repeat (MWasm reg WOpaque []) (N.to_nat n)) /\
    msgs = hooks ++ withdraw_msgs (w_env w) self ++ ugi_tail dispaddr (h_state h) /\
    h' = set_h_state h (touch_lim (h_state h) (e_now (w_env w))).
Proof. exact update_global_exact. Qed.

Theorem C19_update_global_unauthorized : forall w h self sender n,
  sender <> hc_updater (h_cfg h) -> hc_reg (h_cfg h) <> Some sender ->
  execute_update_global w h self sender n = None.
Proof. exact update_global_unauthorized. Qed.

(** * 2. distribution module: after MWithdrawReward for every validator the delegator has an entry
    with, nothing is pending there (in any chain denom), the withdraw address received exactly the
    pending amounts, and nothing else changed *)
Theorem C19_withdraw_all_effect : forall e x,
  let vs := del_vals e x in
  let e' := withdraw_all x vs e in
  foldM (fun e v => do_withdraw_reward e x v) vs e = Some e' /\
  (forall v d, In v vs -> In d DENOMS -> pending e' x v d = 0) /\
  (forall a d, bal e' a d =
     bal e a d + (if (a =? withdraw_addr e x) && in_denoms d then pend_total e x vs d else 0)) /\
  (forall y v d, (y <> x \/ ~ In v vs \/ ~ In d DENOMS) -> pending e' y v d = pending e y v d) /\
  e_del e' = e_del e /\ e_unb e' = e_unb e /\ e_now e' = e_now e /\ e_wdaddr e' = e_wdaddr e.
Proof. exact withdraw_all_effect. Qed.

(** * 3. bank level: when every transfer of DispatchRewards' messages is accepted, the dispatcher is
    left with nothing of either reward coin (with C17_dispatch_conserves) *)
Theorem C19_dispatch_bank_exact : forall dp self e e',
  dp_rate dp <= D -> dp_bd dp <> dp_std dp ->
  dp_keeper dp <> self -> dp_reward dp <> self -> dp_hub dp <> self ->
  foldM (bank_part self) (dispatch_msgs dp (bal e self (dp_bd dp)) (bal e self (dp_std dp))) e = Some e' ->
  bal e' self (dp_bd dp) = 0 /\ bal e' self (dp_std dp) = 0.
Proof. exact dispatch_bank_exact. Qed.

(** * 4. BondRewards: only the dispatcher; bst grows by the payment, nothing is minted (only Delegate
    messages are emitted, and they carry exactly the payment), the stored stSei rate is recomputed as
    exchange_rate (bst + payment, stSei supply, requested); bb / bSei rate only as synchronised by
    [query_actual_state] (the slashing check) *)
Theorem C19_bond_rewards_exact : forall w h self sender funds h' msgs,
  execute_bond w h self sender funds BkRw = Some (h', msgs) ->
  exists pay s1 supply ser vals xs,
    hc_disp (h_cfg h) = Some sender /\
    find_payment (hp_underlying (h_params h)) funds = Some pay /\ snd pay <> 0 /\
    query_actual_state w self h = Some s1 /\
    supply = (match hub_stsei_supply w h with Some x => x | None => 0 end) /\
    exchange_rate (hs_bst s1 + snd pay) supply (cb_reqst (h_batch h)) = Some ser /\
    h' = set_h_state h (bonded_rewards s1 (snd pay) ser) /\
    validators_for_delegation w h = Some vals /\ length xs = length vals /\
    msgs = delegate_msgs vals xs (fst pay) /\
    (forall m, In m msgs -> exists v c, m = MDelegate v c) /\
    delegate_amounts msgs = snd pay.
Proof. exact bond_rewards_exact. Qed.

(** * 5. reward contract: only the dispatcher; the index rises by floor((balance - prev) * 10^18 /
    total) and prev := balance; with no bSei in existence nothing changes (coins wait for the next
    update) *)
Theorem C19_reward_update_index_exact : forall w r self sender r' msgs,
  reward_execute w r self sender RUpdateIndex = Some (r', msgs) ->
  msgs = [] /\ query_dispatcher_addr w (rw_hub r) = Some sender /\
  (rw_total r = 0 -> r' = r) /\
  (rw_total r <> 0 ->
     let balance := bal (w_env w) self (rw_denom r) in
     rw_prev r <= balance /\
     r' = set_rw_state r (rw_gi r + (balance - rw_prev r) * D / rw_total r) (rw_total r) balance).
Proof. exact reward_update_index_exact. Qed.

(** * 6. chain level *)

(** generic executor lemmas: fuel monotonicity; [run] on a stack whose prefix is a known list *)
Theorem C19_run_fuel_mono : forall f w st tr r,
  run f w st tr = Some r -> forall k, run (f + k) w st tr = Some r.
Proof. exact run_fuel_mono. Qed.

Theorem C19_run_app : forall f1 f2 w l1 l2 tr w1 tr1 r,
  run f1 w l1 tr = Some (w1, tr1) -> run f2 w1 l2 tr1 = Some r ->
  run (f1 + f2) w (l1 ++ l2) tr = Some r.
Proof. exact run_app. Qed.

Theorem C19_run_seq : forall f w l1 l2 tr w' tr',
  run f w (l1 ++ l2) tr = Some (w', tr') ->
  exists w1 tr1, run f w l1 tr = Some (w1, tr1) /\ run f w1 l2 tr1 = Some (w', tr').
Proof. exact run_seq. Qed.

(** THE THEOREM.  For every world satisfying the envelope and every authorised sender:
    (a) the hub handler, every withdrawal and the whole swap leg always execute, reaching the
        pre-dispatch world [w1], in which only the dispatcher's / swap contract's bank balances and the
        (now zero) pending rewards differ from [w] (plus the hub's index-modification time);
    (b) if the balances [X_b], [X_st] the dispatcher holds in [w1] are within E1 and outside the
        class of finding F2, the transaction SUCCEEDS, and in the final world:
        token ledgers, dispatcher and registry state are unchanged; the reward contract's index was
        updated on a balance that grew by exactly X_b - keeper fee; the hub's config, parameters,
        open batch, wait list and history are unchanged; its state is the slashing-synchronised
        state with bst raised by the re-bonded amount [rb] and the stSei rate recomputed as
        (bst + rb) / claims (or just the time stamp when nothing is re-bonded); the dispatcher holds
        nothing of either reward coin; every balance of the hub is unchanged; the keeper received
        floor(X * rate) of each coin; every other account outside dispatcher / swap / keeper /
        reward contract is untouched; the hub's delegations grew by [rb], other delegators' are
        unchanged; no pending rewards remain at the hub's validators; unbonding entries and time are
        unchanged. *)
Theorem C19_update_global_index_effect : forall w sender h r dp g tb ts,
  Wired w -> RewardWired w -> RewardsToDispatcher w -> IndexWiring w -> StubsOk (w_env w) ->
  IndexE1 w -> RewardSolvent w -> HubReady w sender ->
  w_hub w = Some h -> w_reward w = Some r -> w_disp w = Some dp -> w_reg w = Some g ->
  w_bsei w = Some tb -> w_stsei w = Some ts ->
  let e := w_env w in
  let now := e_now e in
  let bd := dp_bd dp in
  let keeper := dp_keeper dp in
  exists w1,
    pre_dispatch w sender = Some w1 /\
    let e1 := w_env w1 in
    w_hub w1 = Some (set_h_state h (touch_lim (h_state h) now)) /\ w_reward w1 = Some r /\
    w_disp w1 = Some dp /\ w_reg w1 = Some g /\ w_bsei w1 = Some tb /\ w_stsei w1 = Some ts /\
    e_del e1 = e_del e /\ e_unb e1 = e_unb e /\ e_now e1 = now /\
    (forall v d, In v (del_vals e A_hub) -> In d DENOMS -> pending e1 A_hub v d = 0) /\
    (forall a d, a <> A_disp -> a <> A_swap -> bal e1 a d = bal e a d) /\
    let X_b := bal e1 A_disp bd in
    let X_st := bal e1 A_disp usei in
    let kb := X_b * dp_rate dp / D in
    let ks := X_st * dp_rate dp / D in
    let rb := X_st - ks in
    (X_b <= LIM -> X_st <= LIM -> ~ Known_F2 (dp_rate dp) X_b X_st ->
     exists w' tr,
       run tx_fuel w [(sender, root_msg)] [] = Some (w', tr) /\
       let e' := w_env w' in
       w_bsei w' = Some tb /\ w_stsei w' = Some ts /\ w_disp w' = Some dp /\ w_reg w' = Some g /\
       w_reward w' = Some (index_updated r (bal e A_reward bd + (X_b - kb))) /\
       (exists h', w_hub w' = Some h' /\
          h_cfg h' = h_cfg h /\ h_params h' = h_params h /\ h_batch h' = h_batch h /\
          h_wait h' = h_wait h /\ h_hist h' = h_hist h /\ h_oldwait h' = h_oldwait h /\
          h_newowner h' = h_newowner h /\
          (rb = 0 -> h_state h' = touch_lim (h_state h) now) /\
          (rb <> 0 -> exists s1,
             query_actual_state w A_hub h = Some s1 /\
             h_state h' = mkHubState (hs_ber s1) (rate_of (hs_bst s1 + rb) (claims_st h ts))
                                     (hs_bb s1) (hs_bst s1 + rb) now
                                     (hs_phb (h_state h)) (hs_lut (h_state h)) (hs_lpb (h_state h)))) /\
       bal e' A_disp bd = 0 /\ bal e' A_disp usei = 0 /\
       (forall d, bal e' A_hub d = bal e A_hub d) /\
       bal e' A_reward bd = bal e A_reward bd + (X_b - kb) /\
       bal e' keeper bd = bal e1 keeper bd + kb /\ bal e' keeper usei = bal e1 keeper usei + ks /\
       (forall a d, a <> A_disp -> a <> A_swap -> a <> keeper -> a <> A_reward -> bal e' a d = bal e a d) /\
       delegated e' A_hub = delegated e A_hub + rb /\
       (forall y, y <> A_hub -> delegated e' y = delegated e y) /\
       (forall v d, In v (del_vals e A_hub) -> In d DENOMS -> pending e' A_hub v d = 0) /\
       e_unb e' = e_unb e /\ e_now e' = now).
Proof. exact update_global_index_effect. Qed.

(** the success part with the pre-dispatch world given as a hypothesis (summary form) *)
Theorem C19_update_global_index_succeeds : forall w sender h r dp g tb ts w1,
  Wired w -> RewardWired w -> RewardsToDispatcher w -> IndexWiring w -> StubsOk (w_env w) ->
  IndexE1 w -> RewardSolvent w -> HubReady w sender ->
  w_hub w = Some h -> w_reward w = Some r -> w_disp w = Some dp -> w_reg w = Some g ->
  w_bsei w = Some tb -> w_stsei w = Some ts ->
  pre_dispatch w sender = Some w1 ->
  let e := w_env w in
  let e1 := w_env w1 in
  let X_b := bal e1 A_disp (dp_bd dp) in
  let X_st := bal e1 A_disp usei in
  let rb := X_st - X_st * dp_rate dp / D in
  X_b <= LIM -> X_st <= LIM -> ~ Known_F2 (dp_rate dp) X_b X_st ->
  exists w' tr,
    run tx_fuel w [(sender, root_msg)] [] = Some (w', tr) /\
    let e' := w_env w' in
    bal e' A_disp (dp_bd dp) = 0 /\ bal e' A_disp usei = 0 /\
    (forall d, bal e' A_hub d = bal e A_hub d) /\
    w_bsei w' = Some tb /\ w_stsei w' = Some ts /\
    delegated e' A_hub = delegated e A_hub + rb /\
    (exists h', w_hub w' = Some h' /\ h_batch h' = h_batch h /\ h_wait h' = h_wait h /\ h_hist h' = h_hist h /\
       (rb = 0 -> hs_bb (h_state h') = hs_bb (h_state h) /\ hs_bst (h_state h') = hs_bst (h_state h)) /\
       (rb <> 0 -> exists s1, query_actual_state w A_hub h = Some s1 /\
                   hs_bb (h_state h') = hs_bb s1 /\ hs_bst (h_state h') = hs_bst s1 + rb /\
                   hs_ber (h_state h') = hs_ber s1 /\
                   hs_ser (h_state h') = rate_of (hs_bst s1 + rb) (claims_st h ts))).
Proof. exact update_global_index_effect'. Qed.

(** * 7. finding F2 at chain level (KNOWN FINDING — genuine defect of execute_dispatch_rewards; not
    repaired because the repository's own test asserts the zero-coin sends): in a wired world built by
    instantiate / UpdateConfig / bond / accrue operations, UpdateGlobalIndex sent by the updater FAILS
    (and leaves the world unchanged) with keeper rate 0, with a 5% keeper rate and dust rewards, and
    with keeper rate 1; the pre-dispatch balances are in the class [Known_F2] *)
Theorem C19_F2_witness_zero_rate :
  let w := index_world 0 [OAccrue 0 usei 50000; OAccrue 1 uusd 7000] in
  Wired w /\ fst (snd (step w ugi_op)) = false /\ fst (step w ugi_op) = w.
Proof. exact F2_index_witness_zero_rate. Qed.

Theorem C19_F2_witness_dust :
  let w := index_world 50000000000000000 [OAccrue 0 usei 10] in
  Wired w /\ fst (snd (step w ugi_op)) = false /\ fst (step w ugi_op) = w.
Proof. exact F2_index_witness_dust. Qed.

Theorem C19_F2_witness_full_rate :
  let w := index_world D [OAccrue 1 uusd 7000] in
  Wired w /\ fst (snd (step w ugi_op)) = false.
Proof. exact F2_index_witness_full_rate. Qed.

Theorem C19_F2_witness_class :
  let w := index_world 0 [OAccrue 0 usei 50000; OAccrue 1 uusd 7000] in
  exists w1, pre_dispatch w 11 = Some w1 /\
    Known_F2 0 (bal (w_env w1) A_disp uusd) (bal (w_env w1) A_disp usei).
Proof. exact F2_index_witness_class. Qed.

(** * 8. non-vacuity: a concrete world (same construction, 5% keeper, 50000 usei + 7000 uusd pending)
    satisfies every hypothesis of the chain-level theorem, with non-zero rewards of both coins at
    the dispatcher before dispatch; the transaction succeeds there with the predicted end state *)
Theorem C19_nonvacuous :
  exists w sender h r dp g tb ts w1,
    Wired w /\ RewardWired w /\ RewardsToDispatcher w /\ IndexWiring w /\ StubsOk (w_env w) /\
    IndexE1 w /\ RewardSolvent w /\ HubReady w sender /\
    w_hub w = Some h /\ w_reward w = Some r /\ w_disp w = Some dp /\ w_reg w = Some g /\
    w_bsei w = Some tb /\ w_stsei w = Some ts /\
    pre_dispatch w sender = Some w1 /\
    0 < bal (w_env w1) A_disp (dp_bd dp) <= LIM /\ 0 < bal (w_env w1) A_disp usei <= LIM /\
    ~ Known_F2 (dp_rate dp) (bal (w_env w1) A_disp (dp_bd dp)) (bal (w_env w1) A_disp usei) /\
    0 < pend_total (w_env w) A_hub (del_vals (w_env w) A_hub) usei.
Proof. exact index_nonvacuous. Qed.

Theorem C19_success_example : fst (snd (step W_ok ugi_op)) = true.
Proof. exact index_success_example. Qed.

Theorem C19_success_example_state :
  let w' := fst (step W_ok ugi_op) in
  bal (w_env w') A_disp uusd = 0 /\ bal (w_env w') A_disp usei = 0 /\
  bal (w_env w') 12 uusd = 950 /\ bal (w_env w') 12 usei = 1900 /\
  bal (w_env w') A_reward uusd = 18050 /\
  delegated (w_env w') A_hub = delegated (w_env W_ok) A_hub + 36100 /\
  bal (w_env w') A_hub usei = bal (w_env W_ok) A_hub usei.
Proof. exact index_success_example_state. Qed.

Print Assumptions C19_update_global_exact.
Print Assumptions C19_update_global_unauthorized.
Print Assumptions C19_withdraw_all_effect.
Print Assumptions C19_dispatch_bank_exact.
Print Assumptions C19_bond_rewards_exact.
Print Assumptions C19_reward_update_index_exact.
Print Assumptions C19_run_fuel_mono.
Print Assumptions C19_run_app.
Print Assumptions C19_run_seq.
Print Assumptions C19_update_global_index_effect.
Print Assumptions C19_update_global_index_succeeds.
Print Assumptions C19_F2_witness_zero_rate.
Print Assumptions C19_F2_witness_dust.
Print Assumptions C19_F2_witness_full_rate.
Print Assumptions C19_F2_witness_class.
Print Assumptions C19_nonvacuous.
Print Assumptions C19_success_example.
Print Assumptions C19_success_example_state.
Print Assumptions C19_def_touch_lim.
Print Assumptions C19_def_withdraw_msgs.
Print Assumptions C19_def_ugi_tail.
Print Assumptions C19_def_del_vals.
Print Assumptions C19_def_withdraw_all.
Print Assumptions C19_def_pend_total.
Print Assumptions C19_def_in_denoms.
Print Assumptions C19_def_index_updated.
Print Assumptions C19_def_bonded_rewards.
Print Assumptions C19_def_delegate_amounts.
Print Assumptions C19_def_root_msg.
Print Assumptions C19_def_pre_dispatch.
Print Assumptions C19_def_bank_part.
Print Assumptions C19_def_RegOk.
Print Assumptions C19_def_IndexWiring.
Print Assumptions C19_def_StubsOk.
Print Assumptions C19_def_IndexE1.
Print Assumptions C19_def_RewardSolvent.
Print Assumptions C19_def_HubReady.
